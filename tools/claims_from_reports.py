#!/usr/bin/env python3
"""Refreshes tools/claims.json (the texts of MANIFEST.json's level_claimed) for every property whose condensed report in
tools/r3_reports/<id>.md has a `ROW:` line (= its row of DESIGN.md 10.2): model / theorems, tie, findings. The other fields
(note, technique, design) are kept. Lead-owned checks without a ROW line are edited by hand in claims.json."""
import json
import re
from pathlib import Path

VERIF = Path(__file__).resolve().parent.parent


def plain(s: str) -> str:
    return re.sub(r'\s+', ' ', s.replace('**', '').replace('`', '')).strip()


def main():
    p = VERIF / 'tools' / 'claims.json'
    claims = json.loads(p.read_text())
    n = 0
    for f in sorted((VERIF / 'tools' / 'r3_reports').glob('C*.md')):
        row = next((l for l in f.read_text().splitlines() if l.startswith('ROW:')), None)
        if row is None or f.stem not in claims:
            continue
        cells = [c.strip() for c in row[4:].strip().strip('|').split(' | ')]
        if len(cells) < 5:
            # a model / theorems cell split in two (C16 style): id | state | model | theorems | tie | findings
            continue
        if len(cells) >= 6:
            cells = cells[:2] + [cells[2] + '; ' + cells[3]] + cells[4:]
        _id, _state, model, tie, findings = cells[:5]
        claims[f.stem]['text'] = (
            'Lean model and theorems (all inputs / all op histories, no sorry, axioms audited): ' + plain(model) +
            '. Tie to the code, checked on every run: ' + plain(tie) + '. Findings: ' + plain(findings) + '.')
        n += 1
    p.write_text(json.dumps(claims, indent=1, ensure_ascii=False) + '\n')
    print('claims refreshed from reports:', n)


if __name__ == '__main__':
    main()
