#!/bin/sh
# Runs every claimed check (quick tier, or $1) on /repo and reports; refreshes evidence/*.json.
cd "$(dirname "$0")/.."
TIER=${1:-quick}
ids=$(python3 -c "import json; print(' '.join(c['property_id'] for c in json.load(open('MANIFEST.json'))['checks']))")
rc=0
for id in $ids; do
  out=$(./check "$id" --tier "$TIER" 2>&1); r=$?
  echo "$out" | grep -E "VIOLATION|KNOWN-FINDING|INFRA" | cut -c1-200
  echo "$out" | tail -n 1
  [ $r -ne 0 ] && { echo "  -> $id exit $r"; rc=1; }
done
python3-vt - <<'PY'
import json, jsonschema, glob
sch = json.load(open('/root/.vp/EVIDENCE.schema.json'))
for c in json.load(open('MANIFEST.json'))['checks']:
    f = c['evidence_file']
    try:
        e = json.load(open(f)); jsonschema.validate(e, sch)
        cov = e['coverage']
        assert cov['obligations'] == cov['discharged'], f"{f}: discharged {cov['discharged']} != obligations {cov['obligations']}"
    except Exception as ex:
        print('EVIDENCE PROBLEM', f, str(ex)[:200])
PY
exit $rc
