"""Print the prompt given to a fresh sub-agent that seeds property-breaking changes (round 3).

usage: tools/seed_prompt.py <property id> <round tag>        e.g.  tools/seed_prompt.py C04 r3

The agent gets ONLY the property's record text (statement, quantifier, why the tests cannot settle it, anchored files)
and the one-line titles of changes other agents already wrote for the same property (so that it does something new);
nothing about how /verif checks anything.
"""
import json
import sys
from pathlib import Path

VERIF = Path(__file__).resolve().parent.parent


def main():
    pid, tag = sys.argv[1], sys.argv[2]
    rec = None
    for l in (VERIF / 'properties.jsonl').read_text().splitlines():
        d = json.loads(l)
        if d['id'] == pid:
            rec = d
    assert rec, pid
    taken = []
    for d in sorted((VERIF / 'seeded').glob(f'{pid}-*')):
        n = d / 'notes.md'
        if n.exists():
            first = next((x for x in n.read_text().splitlines() if x.strip()), '')
            taken.append('- ' + first.lstrip('# ').strip()[:170])
    work = f'/tmp/seed-{tag}/{pid}'
    mech = '\n'.join(f"  - {m['name']}" for m in rec['anchors'].get('mechanism', []))
    print(f"""You are helping to evaluate how well a verification effort protects the open-source Python library JurgenR/aioslsk
(an asyncio client library for the SoulSeek P2P protocol). Your job is to play the adversary: write realistic source changes
that BREAK one stated property of the library while everything still compiles and the whole existing test suite still passes.

## Ground rules

* The library is checked out at /repo (a git repository). NEVER edit, commit or stash anything in /repo itself.
  Make your own scratch worktree and work only there and in your output directory:
      mkdir -p {work} && git -C /repo worktree add --detach {work}/wt HEAD
  Do not read, list or touch /verif or /root/.vp at all (your work must be independent of it).
* Python: /venv/bin/python (3.12). aioslsk is installed "editable" from /repo/src, so to run YOUR worktree's code you must put
  it first on the path: `PYTHONPATH={work}/wt/src /venv/bin/python ...`.
* Full test suite (782 tests, ~1 min); the e2e tests bind fixed ports that other jobs use too, so ALWAYS run it in a private
  network namespace exactly like this:
      cd {work}/wt && PYTHONPATH={work}/wt/src unshare -n sh -c 'ip link set lo up; /venv/bin/python -m pytest -q -p no:cacheprovider --timeout=900'
  (a handful of e2e tests are timing sensitive under load: if one fails, re-run once before concluding anything).
* No network access exists; do not try to install anything.

## The property (this text is all you are told)

id: {rec['id']} — {rec['title']}

Statement: {rec['statement']}

It is meant to hold: {rec['quantifier']['text']}

Why the existing tests cannot settle it: {rec['why_tests_cant']}

Code it is anchored in: {', '.join(rec['anchors']['files'])}
{mech}

## What to deliver

TWO different, independent changes (alternatives — each one alone, against the unmodified HEAD), each of which makes the
library violate the property above. For each change k = 1, 2 write into {work}/out<k>/ :

* `patch.diff` — `git diff` of your worktree against HEAD (only files under src/aioslsk/; must apply with `git apply` from the
  worktree root). Keep it small (typically 1–25 changed lines) and PLAUSIBLE: it must read like something a maintainer might
  really commit — a refactoring or "clean-up" gone subtly wrong, an optimisation / fast path / cache, a reordering of two
  statements around an `await`, a dropped or weakened guard, an off-by-one, a wrong exception class or a narrowed `except`,
  a condition that is right in the common case and wrong in a corner, two sites that each look fine alone and only break
  the property together. No gratuitous sabotage, no dead give-aways in comments.
* The change must need something SPECIFIC to manifest: a particular interleaving of coroutines, a fault/crash/disconnect at a
  particular point, a multi-step sequence of operations, an unusual (but legal) input or configuration, or the cooperation
  of two sites. Changes that ordinary use (or the test suite) would expose at once are worthless here.
* `demo.py` — a standalone program (run as `PYTHONPATH=<worktree>/src /venv/bin/python demo.py` from any directory) that
  demonstrates the violation against the REAL library code: exit status 0 and a line `RESULT: property holds` on the
  unmodified tree, exit status 1 and a line `RESULT: {rec['id']} broken` (plus what was observed) with your patch applied.
  Deterministic, < 60 s, no sockets beyond loopback (prefer mocks / in-memory streams / ephemeral ports, never fixed ports).
  It must fail because the PROPERTY as stated is violated (observable behaviour at the library's API / wire / file level),
  not because an internal detail differs.
* `notes.md` — first line `# {rec['id']} / change <k> — <one-line title>`; then: what was changed and how it is disguised;
  why it breaks the property (which clause); exactly what it needs in order to manifest; why the 782 tests still pass.

Ideas other people have ALREADY used for this property — do something genuinely different (different site and different
failure mechanism), and make your two changes different from each other:
{chr(10).join(taken) if taken else '- (none yet)'}

## You must verify, for each change, before you finish

1. `demo.py` exits 0 on the unmodified worktree and exits 1 with the patch applied (run both, show the outputs in notes.md).
2. The FULL test suite passes with the patch applied (command above; all 782 must pass). If a test fails, the change is not
   acceptable — refine it or pick another.
3. `git -C {work}/wt diff` with the patch applied equals `patch.diff`; afterwards reset the worktree (`git checkout -- .`)
   so that the two patches are independent, and leave the worktree CLEAN (unpatched) at the end.

Spend your effort on reading the anchored code closely and finding subtle, specific breakages. When done, reply with a
short summary: for each change the title, the files touched, what it needs to manifest, and the three verification results.
""")


if __name__ == '__main__':
    main()
