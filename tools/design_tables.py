#!/usr/bin/env python3
"""Regenerates the generated parts of DESIGN.md from tools/r3_reports/*.md (condensed builder / lead reports):

* the rows of the table in section 10.2 (one `ROW:` line per property report replaces that property's row);
* section 10.8 (rounds 4 and 5) between the markers `<!-- BEGIN 10.8 -->` / `<!-- END 10.8 -->`: prose head
  (tools/design_10_8_head.md), the seed table (every `SEED:` line that names round 4, 5 or 6), the findings
  (`FINDING:` lines), false alarms and notes of those rounds, the mutation lines, prose tail (tools/design_10_8_tail.md).

Report line kinds: ROW / SEED / FINDING / FALSEALARM / NOTE / MUTATIONS (one line each, markdown inside).
"""
import re
from pathlib import Path

VERIF = Path(__file__).resolve().parent.parent
REP = VERIF / 'tools' / 'r3_reports'
BEGIN, END = '<!-- BEGIN 10.8 -->', '<!-- END 10.8 -->'


def lines_of(kind: str):
    out = []
    for f in sorted(REP.glob('*.md'), key=lambda p: (p.stem == 'LEAD', p.stem)):
        for l in f.read_text().splitlines():
            if l.startswith(kind + ':'):
                out.append((f.stem, l[len(kind) + 1:].strip()))
    return out


def later_round(text: str) -> bool:
    return bool(re.search(r'round[- ]?(4|5|6)', text))


def prop_of(stem: str, text: str) -> str:
    m = re.search(r'C\d\d', text)
    return m.group(0) if (stem == 'LEAD' and m) else stem


def main():
    p = VERIF / 'DESIGN.md'
    s = p.read_text()
    # ---- 10.2 rows
    a, b = s.index('### 10.2 Per property'), s.index('### 10.3 ')
    sec = s[a:b].splitlines()
    rows = {prop_of(st, t): t for st, t in lines_of('ROW')}
    n_rows = 0
    for i, l in enumerate(sec):
        m = re.match(r'\| (C\d\d) \|', l)
        if m and m.group(1) in rows:
            sec[i] = rows[m.group(1)]
            n_rows += 1
    s = s[:a] + '\n'.join(sec) + '\n' + s[b:]
    # ---- 10.8
    head = (VERIF / 'tools' / 'design_10_8_head.md').read_text().rstrip() + '\n'
    tail = (VERIF / 'tools' / 'design_10_8_tail.md').read_text().rstrip() + '\n'
    tail_head, _, tail_rest = tail.partition('\n### 10.9')
    tail_rest = '### 10.9' + tail_rest
    seeds = sorted(((prop_of(st, t), k, t) for k, (st, t) in enumerate(lines_of('SEED')) if later_round(t)),
                   key=lambda x: (x[0], x[1]))
    body = [head, '',
            '| seed | first verdict | why it slipped | strengthening / verdict now |', '|---|---|---|---|']
    body += [t for _p, _k, t in seeds]
    body += ['', '**Genuine defects found in rounds 3b–6 by the builders and by adversaries reading the unchanged tree** (each repaired by one '
             '`fix:` commit in /repo unless stated otherwise; `fixed` entries in `known_findings.json`; write-ups in `fixes/`):', '']
    body += [f'* {t}' for _st, t in lines_of('FINDING')]
    body += ['', '**False alarms of our own machinery met in rounds 4 to 6** (each corrected; none loosened a check that was right):', '']
    body += [f'* {t}' for _st, t in lines_of('FALSEALARM') if later_round(t)]
    body += ['', '**Notes** (recorded, not flagged):', '']
    body += [f'* {t}' for _st, t in lines_of('NOTE') if later_round(t)]
    body += ['', tail_head, '', '| harmless change | verified on /repo | verdict of the checks anchored in the touched files |', '|---|---|---|']
    import glob
    import json
    for f in sorted(glob.glob(str(VERIF / 'seeded' / 'harmless' / '*' / 'meta.json'))):
        m = json.loads(Path(f).read_text())
        checks = m.get('checks') or {}
        loud = {k: v for k, v in checks.items() if v.get('rc')}
        base, num = m['id'][:-1], int(m['id'][-1])
        newer = [d for d in (VERIF / 'seeded' / 'harmless').glob(base + '*') if d.name[-1].isdigit() and int(d.name[-1]) > num]
        if newer or not m.get('applies'):
            verdict = ('no longer applies to HEAD after later fix commits; superseded by the re-based `'
                       + (sorted(d.name for d in newer)[-1] if newer else '?') + '`')
        elif not loud:
            verdict = f'all {len(checks)} checks silent (exit 0)'
        else:
            parts = []
            for k, v in sorted(loud.items()):
                sig = v.get('replay_signature')
                if isinstance(sig, list):
                    what = 'no-failing-input-found (' + (', '.join(x.split('.')[-1] for x in sig[:2]) + (' …' if len(sig) > 2 else '')) + ')'
                else:
                    what = f'VIOLATION {sig}'
                parts.append(f'{k}: {what}')
            verdict = '; '.join(parts) + f'; the other {len(checks) - len(loud)} silent'
        body.append(f"| {m['id']} | {m.get('repo_head', '')} | {verdict} |")
    body += ['', tail_rest]
    block = BEGIN + '\n' + '\n'.join(body) + END + '\n'
    if BEGIN in s:
        i, j = s.index(BEGIN), s.index(END) + len(END) + 1
        s = s[:i] + block + s[j:]
    else:
        s = s.rstrip('\n') + '\n\n### 10.8 Rounds 4 to 6: more of the code inside the models, three more rounds of seeds\n\n' + block
    p.write_text(s)
    print(f'10.2 rows replaced: {n_rows}; 10.8 seed rows: {len(seeds)}; findings: {len(lines_of("FINDING"))}')


if __name__ == '__main__':
    main()
