"""Writes /verif/MANIFEST.json from the table below (kept in one place so it stays valid)."""
import json
from pathlib import Path

VERIF = Path(__file__).resolve().parent.parent
BASELINE = ("cd /repo && env -u AIOSLSK_VERIF /venv/bin/python -m pytest -ra -q -p no:cacheprovider "
            "--timeout=900 --continue-on-collection-errors --junitxml=/tmp/aioslsk-baseline.junit.xml")

NOTE = ("Trusted: Lean 4.33 kernel; axioms ⊆ {propext, Classical.choice, Quot.sound} (audited by #print axioms on "
        "every run; no sorry/native_decide/bv_decide/own axioms); the translators that regenerate Generated/*.lean; "
        "the correspondence harness (real code vs. the model's executable definitions on generated cases); "
        "CPython/asyncio semantics are exercised, not modelled. ")

CLAIMED = json.loads((VERIF / 'tools' / 'claims.json').read_text())

PENDING_REASON = "check not built yet in this round (planned: see DESIGN.md section 5); not claimed until its Lean theorems and correspondence exist"


def main():
    ids = [json.loads(l)['id'] for l in (VERIF / 'properties.jsonl').read_text().splitlines() if l.strip()]
    checks = []
    for pid in ids:
        if pid not in CLAIMED:
            continue
        c = CLAIMED[pid]
        checks.append({
            'property_id': pid,
            'quick_cmd': f'./check {pid} --tier quick',
            'thorough_cmd': f'./check {pid} --tier thorough',
            'evidence_file': f'/verif/evidence/{pid}.json',
            'replay_cmd_template': f'./check {pid} --replay {{path}}',
            'engine': 'lean4-proof+correspondence',
            'level_claimed': {'category': 'proof', 'text': c['text'], 'design_ref': c['design']},
            'level_note': c['note'],
            'technique': c['technique'],
        })
    man = {
        'version': 1,
        'setup_cmd': './setup.sh',
        'hooks': {
            'guard': 'AIOSLSK_VERIF',
            'enable': 'no source hooks: the harness injects fakes from outside (checks export AIOSLSK_VERIF=1 for uniformity)',
            'baseline_off_cmd': BASELINE,
            'source_commits': [],
            'add_only': True,
        },
        'engines': [{
            'name': 'lean4-proof+correspondence', 'path': '/verif/check',
            'serves_properties': [c['property_id'] for c in checks],
            'kind_free_text': 'Lean 4 models + theorems (lean/), translators (translate/), differential correspondence '
                              'harness against the real Python code (props/, vlib/)'}],
        'checks': checks,
        'not_applicable': [{'property_id': pid, 'reason': PENDING_REASON} for pid in ids if pid not in CLAIMED],
        'notes': 'See DESIGN.md. known_findings.json lists genuine defects (known / fixed).',
    }
    (VERIF / 'MANIFEST.json').write_text(json.dumps(man, indent=1, ensure_ascii=False) + '\n')
    # root of the Lean library: everything a claimed check needs, so that setup builds it all
    lean = VERIF / 'lean'
    props, drivers = [], []
    for c in checks:
        pid = c['property_id']
        if (lean / 'AioslskVerif' / 'Props' / f'{pid}.lean').exists():
            props.append(f'AioslskVerif.Props.{pid}')
        if (lean / 'AioslskVerif' / 'Driver' / f'{pid}.lean').exists():
            drivers.append(f'AioslskVerif.Driver.{pid}')
    if 'AioslskVerif.Driver.C01' in drivers:
        drivers.append('AioslskVerif.Driver.C01Pinned')
    (lean / 'AioslskVerif.lean').write_text(
        '-- Root of the library (written by tools/mk_manifest.py): the property theorems of every claimed check.\n'
        + ''.join(f'import {m}\n' for m in props))
    (lean / 'targets.txt').write_text(' '.join(['AioslskVerif'] + drivers) + '\n')


if __name__ == '__main__':
    main()
