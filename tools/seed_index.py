#!/usr/bin/env python3
"""Regenerates seeded/INDEX.md from seeded/*/meta.json (written by tools/verify_seed.py)."""
import glob
import json
from pathlib import Path

VERIF = Path(__file__).resolve().parent.parent
HEAD = '''# Independently seeded property-breaking changes

Each directory holds `patch.diff` (the change), `demo.py` (fails with the change, passes without), `notes.md` (the author's
description: what it needs to manifest) and `meta.json` (what we re-ran ourselves: patch applies, demo without/with patch,
full test suite with the patch, `./check <property>` against the patched tree). The authors (fresh sub-agents) saw only the
property text and their own scratch worktree, nothing of /verif. A `…2` id is the same change re-based by us onto a later
/repo HEAD after a fix commit touched the same function. `verified on /repo` is the commit of /repo the row was last verified
against: a seed whose patch no longer applies after later fix commits keeps its last verification (the check of that time
against the tree of that time). Rows show the LAST verification (after any strengthening of the
check; the history of misses is in DESIGN.md section 10.5; `first verdict` is what the check said before it was strengthened).

| seed | property | verified on /repo | suite with patch | demo (clean / patched) | check verdict | signature | first verdict |
|---|---|---|---|---|---|---|---|
'''


def main():
    rows = []
    for f in sorted(glob.glob(str(VERIF / 'seeded' / '*' / 'meta.json'))):
        m = json.loads(Path(f).read_text())
        if m.get('obsolete_since'):
            obsolete = ' (obsolete: ' + m['obsolete_since'].split(':')[0] + ')'
        else:
            obsolete = ''
        if m.get('caught_with_failing_input'):
            verdict = 'VIOLATION with failing input'
        elif m.get('caught'):
            verdict = 'VIOLATION no-failing-input-found'
        else:
            others = [f"{k} ({v.get('signature')})" for k, v in sorted((m.get('other_checks') or {}).items())
                      if v.get('rc') and isinstance(v.get('signature'), str)]
            verdict = 'MISSED' + (f" by {m['property']}; caught by {', '.join(others)}" if others else '')
        fv = m.get('first_verdict')
        if isinstance(fv, str):
            first = 'MISSED' if fv.upper().startswith('MISSED') else fv[:40]
        else:
            first = '' if not fv else ('caught' if fv.get('caught_with_failing_input', fv.get('caught')) else
                                       'no-failing-input-found' if fv.get('caught') else 'MISSED')
        rows.append(f"| {m['id']} | {m['property']} | {m.get('repo_head', '')} | {m.get('suite_with_patch', 'n/a')} | {m.get('demo_without_patch_rc')} / "
                    f"{m.get('demo_with_patch_rc')} | {verdict}{obsolete} | {m.get('replay_signature') or ''} | {first} |")
    (VERIF / 'seeded' / 'INDEX.md').write_text(HEAD + '\n'.join(rows) + '\n')
    print(len(rows), 'seeds;', sum('MISSED' in r.split('|')[6] for r in rows), 'missed now')


if __name__ == '__main__':
    main()
