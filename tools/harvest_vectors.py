"""One-off (pin time): harvest the hand-written (message, bytes) pairs of tests/unit/protocol/test_messages.py
by running its test methods with serialize/deserialize wrapped. Output: spec/test_vectors.json (frozen)."""
import importlib.util, inspect, json, sys, zlib
from pathlib import Path
sys.path.insert(0, '/verif'); sys.path.insert(0, '/repo/src')
from vlib import wirecodec as wc
from translate import schemas as st
import aioslsk.protocol.messages as m
import aioslsk.protocol.primitives as p

table = st.extract(Path('/repo'))
vectors = []
seen = set()


def record(kind, obj, data):
    i = wc.schema_index(table, obj)
    if i is None:
        return
    s = table[i]
    key = (kind, i, bytes(data))
    if key in seen:
        return
    seen.add(key)
    vectors.append({'kind': kind, 'class': f'{s["name"]}.{s["dir"]}', 'family': s['family'], 'dir': s['dir'],
                    'values': wc.canon_message(obj, s), 'hex': bytes(data).hex(), 'compressed': s['compress']})


classes = []
for famcls, _ in st.FAMILIES:
    for msg in getattr(m, famcls).__subclasses__():
        for d in ('Request', 'Response'):
            c = getattr(msg, d, None)
            if c is not None:
                classes.append(c)
for c in classes:
    orig_ser = c.serialize
    orig_des = c.deserialize.__func__

    def mk_ser(orig):
        def ser(self, *a, **k):
            r = orig(self, *a, **k)
            if not a and not k:
                record('ser', self, r)
            return r
        return ser

    def mk_des(orig):
        def des(cls, pos, message, *a, **k):
            r = orig(cls, pos, message, *a, **k)
            if pos == 0 and not a and not k:
                record('deser', r, message)
            return r
        return classmethod(des)
    c.serialize = mk_ser(orig_ser)
    c.deserialize = mk_des(orig_des)

spec = importlib.util.spec_from_file_location('tm', '/repo/tests/unit/protocol/test_messages.py')
tm = importlib.util.module_from_spec(spec)
spec.loader.exec_module(tm)
ran = failed = 0
for name, cls in inspect.getmembers(tm, inspect.isclass):
    if not name.startswith('Test'):
        continue
    inst = cls()
    for mname, meth in inspect.getmembers(inst, inspect.ismethod):
        if mname.startswith('test_'):
            try:
                meth(); ran += 1
            except Exception as e:
                failed += 1
print('tests run', ran, 'failed', failed, 'vectors', len(vectors))
Path('/verif/spec/test_vectors.json').write_text(json.dumps(vectors, indent=0))
