"""Verify an independently seeded change and file it under /verif/seeded/<id>/.

usage: tools/verify_seed.py <property> <src dir with patch.diff demo.py notes.md> <seed id> [--no-suite] [--harmless]
--harmless: the change is claimed to PRESERVE the property (refactoring / correct optimisation / out-of-scope behaviour):
  the demo must pass with and without it, and every check whose anchored files the patch touches is run and is expected to
  stay silent; filed under seeded/harmless/<id>/.
Steps (all in a scratch worktree of /repo HEAD, removed afterwards):
  1. patch applies; 2. demo passes WITHOUT the patch; 3. demo fails WITH it; 4. full test suite passes WITH it;
  5. ./check <property> (quick) against the patched worktree: caught?  -> meta.json
"""
import json, os, shutil, subprocess, sys, time
from pathlib import Path

VERIF = Path(__file__).resolve().parent.parent


def sh(cmd, cwd=None, env=None, timeout=1800):
    p = subprocess.run(cmd, shell=True, cwd=cwd, env=env, capture_output=True, text=True, timeout=timeout)
    return p.returncode, (p.stdout + p.stderr)


def main():
    prop, src, sid = sys.argv[1], Path(sys.argv[2]), sys.argv[3]
    no_suite = '--no-suite' in sys.argv
    harmless = '--harmless' in sys.argv
    wt = Path(f'/tmp/vseed-{sid}')
    sh(f'git -C /repo worktree remove --force {wt}')
    rc, out = sh(f'git -C /repo worktree add --detach {wt} HEAD')
    assert rc == 0, out
    meta = {'id': sid, 'property': prop, 'repo_head': sh('git -C /repo rev-parse --short HEAD')[1].strip()}
    env = dict(os.environ, PYTHONPATH=f'{wt}/src')
    lean = Path(f'/tmp/vseed-lean-{sid}')              # private copy of the Lean project: regenerated files of a patched
    sh(f'rm -rf {lean}; cp -a {VERIF}/lean {lean}')    # tree must not leak into checks of /repo running at the same time
    cenv = dict(os.environ, VERIF_REPO=str(wt), VERIF_EVIDENCE_DIR='/tmp/vseed-evidence', VERIF_LEAN_DIR=str(lean))
    try:
        rc, out = sh(f'git apply --check {src}/patch.diff', cwd=wt)
        apply_cmd = f'git apply {src}/patch.diff'
        if rc != 0:
            # /repo HEAD moved (fix commits) since the patch was written: accept it when it still applies with fuzz
            rc2, out2 = sh(f'patch -p1 -F3 --dry-run < {src}/patch.diff', cwd=wt)
            if rc2 == 0:
                apply_cmd = f'patch -p1 -F3 --no-backup-if-mismatch < {src}/patch.diff'
                meta['applied_with_fuzz'] = True
                rc = 0
        meta['applies'] = rc == 0
        if rc != 0:
            meta['apply_error'] = out[-500:]
            print(json.dumps(meta, indent=1)); return 1
        rc0, out0 = sh(f'/venv/bin/python {src}/demo.py', cwd='/tmp', env=env, timeout=600)
        meta['demo_without_patch_rc'] = rc0
        sh(apply_cmd, cwd=wt)
        rc1, out1 = sh(f'/venv/bin/python {src}/demo.py', cwd='/tmp', env=env, timeout=600)
        meta['demo_with_patch_rc'] = rc1
        meta['demo_with_patch_tail'] = out1[-600:]
        if not no_suite:
            for attempt in range(8):
                rc, out = sh("unshare -n sh -c 'ip link set lo up; /venv/bin/python -m pytest -q -p no:cacheprovider --timeout=900'", cwd=wt, env=env)
                if 'address already in use' in out:
                    time.sleep(40); continue
                if rc != 0 and attempt == 0:     # one retry: e2e tests are timing sensitive under load
                    meta['suite_first_attempt_failed'] = [l for l in out.splitlines() if l.startswith('FAILED')][:5]
                    continue
                break
            tail = [l for l in out.splitlines() if ' passed' in l or ' failed' in l or ' error' in l][-1:]
            meta['suite_with_patch'] = tail[0] if tail else out[-200:]
            meta['suite_green'] = rc == 0
            meta['suite_failed_tests'] = [l for l in out.splitlines() if l.startswith('FAILED')][:5]
        if harmless:
            touched = [l[6:].strip() for l in (src / 'patch.diff').read_text().splitlines() if l.startswith('+++ b/')]
            meta['touched'] = touched
            props = [prop]
            for l in (VERIF / 'properties.jsonl').read_text().splitlines():
                q = json.loads(l)
                if q['id'] not in props and any(f in touched for f in q['anchors']['files']):
                    props.append(q['id'])
            meta['checks'] = {}
            for q in props:
                t0 = time.time()
                rc, out = sh(f'./check {q} --tier quick', cwd=VERIF, env=cenv, timeout=3000)
                lines = [l for l in out.splitlines() if 'VIOLATION' in l or l.startswith(q + ' ')]
                entry = {'rc': rc, 'wall_s': round(time.time() - t0, 1), 'output': lines[-3:]}
                rp = [l.split('replay=')[1].split()[0] for l in lines if 'replay=' in l]
                if rp and Path(rp[0]).exists():
                    r = json.loads(Path(rp[0]).read_text())
                    entry['replay_signature'] = r.get('signature') or r.get('no_longer_checks')
                    entry['replay_what'] = (r.get('what') or '')[:400]
                    entry['replay_case'] = json.dumps(r.get('case'))[:600]
                meta['checks'][q] = entry
            meta['silent'] = all(e['rc'] == 0 for e in meta['checks'].values())
        t0 = time.time()
        rc, out = (0, '') if harmless else sh(f'./check {prop} --tier quick', cwd=VERIF, env=cenv, timeout=3000)
        meta['check_rc'] = rc
        meta['check_wall_s'] = round(time.time() - t0, 1)
        lines = [l for l in out.splitlines() if 'VIOLATION' in l or l.startswith(prop)]
        meta['check_output'] = lines[-3:]
        meta['caught'] = rc == 1 and any('VIOLATION' in l for l in lines)
        meta['caught_with_failing_input'] = meta['caught'] and not any('no-failing-input-found' in l for l in lines)
        rp = [l.split('replay=')[1].split()[0] for l in lines if 'replay=' in l]
        if rp and Path(rp[0]).exists():
            r = json.loads(Path(rp[0]).read_text())
            meta['replay_signature'] = r.get('signature') or r.get('no_longer_checks')
            meta['replay_what'] = (r.get('what') or '')[:300]
        if not harmless and not meta['caught'] and '--no-others' not in sys.argv:
            # missed by the property's own check: do the checks of the other properties anchored in the touched files see it?
            touched = [l[6:].strip() for l in (src / 'patch.diff').read_text().splitlines() if l.startswith('+++ b/')]
            others = {}
            for l in (VERIF / 'properties.jsonl').read_text().splitlines():
                q = json.loads(l)
                if q['id'] != prop and any(f in touched for f in q['anchors']['files']):
                    rc, out = sh(f'./check {q["id"]} --tier quick', cwd=VERIF, env=cenv, timeout=3000)
                    ls = [x for x in out.splitlines() if 'VIOLATION' in x]
                    others[q['id']] = {'rc': rc, 'violation': ls[-1:] }
                    rp = [x.split('replay=')[1].split()[0] for x in ls if 'replay=' in x]
                    if rp and Path(rp[0]).exists():
                        r = json.loads(Path(rp[0]).read_text())
                        others[q['id']]['signature'] = r.get('signature') or r.get('no_longer_checks')
            meta['other_checks'] = others
            meta['caught_by_other'] = [k for k, v in others.items() if v['rc'] == 1 and v['violation']]
    finally:
        sh(f'git -C /repo worktree remove --force {wt}')
        sh(f'rm -rf {lean}')
    dst = VERIF / 'seeded' / ('harmless' if harmless else '') / sid
    if harmless:
        for k in ('check_rc', 'check_wall_s', 'check_output', 'caught', 'caught_with_failing_input'):
            meta.pop(k, None)
    dst.mkdir(parents=True, exist_ok=True)
    for f in ('patch.diff', 'demo.py', 'notes.md'):
        if (src / f).exists() and (src / f).resolve() != (dst / f).resolve():
            shutil.copy(src / f, dst / f)
    notes = (src / 'notes.md').read_text() if (src / 'notes.md').exists() else ''
    meta['why_harmless' if harmless else 'needs_to_manifest'] = notes[:1200]
    meta['ran'] = ['git apply --check', 'demo.py without/with patch', 'full pytest suite with patch' if not no_suite else 'suite skipped',
                   f'VERIF_REPO=<patched worktree> ./check {prop} --tier quick']
    if no_suite and (dst / 'meta.json').exists():      # re-verification of the check only: keep the earlier suite result
        old = json.loads((dst / 'meta.json').read_text())
        for k in ('suite_with_patch', 'suite_green', 'suite_failed_tests'):
            if k in old and k not in meta:
                meta[k] = old[k]
        meta['first_verdict'] = old.get('first_verdict') or {'caught': old.get('caught'), 'repo_head': old.get('repo_head'),
                                                             'check_output': old.get('check_output')}
    (dst / 'meta.json').write_text(json.dumps(meta, indent=1))
    print(json.dumps({k: v for k, v in meta.items() if k not in ('needs_to_manifest', 'why_harmless', 'demo_with_patch_tail')}, indent=1))
    return 0


if __name__ == '__main__':
    sys.exit(main())
