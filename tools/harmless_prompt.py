"""Print the prompt for a sub-agent that writes HARMLESS (property-preserving) changes for a group of properties.
usage: tools/harmless_prompt.py <tag> C01 C02 C03 C04"""
import json, sys
from pathlib import Path
VERIF = Path(__file__).resolve().parent.parent
tag, ids = sys.argv[1], sys.argv[2:]
recs = {}
for l in (VERIF / 'properties.jsonl').read_text().splitlines():
    d = json.loads(l)
    if d['id'] in ids:
        recs[d['id']] = d
work = f'/tmp/harm-{tag}'
props = ''
for i in ids:
    r = recs[i]
    mech = '\n'.join(f"    - {m['name']}" for m in r['anchors'].get('mechanism', []))
    props += f"""
### {r['id']} — {r['title']}
Statement: {r['statement']}
Meant to hold: {r['quantifier']['text']}
Anchored in: {', '.join(r['anchors']['files'])}
{mech}
"""
print(f"""You are helping to evaluate a verification effort for the open-source Python library JurgenR/aioslsk (an asyncio client
library for the SoulSeek P2P protocol). Checks exist that are supposed to raise an alarm when a source change breaks one of the
properties below — and to stay SILENT when a change preserves them. Your job is to write realistic changes of the second kind:
refactorings, clean-ups, small optimisations, renamings, logging, added attributes or helpers, restructured control flow — the
ordinary churn of a maintained code base — that touch the code the property is anchored in but PRESERVE the property (and the
library's observable behaviour in general), so that we can measure false alarms.

## Ground rules
* The library is checked out at /repo (git). NEVER edit, commit or stash anything in /repo itself, never use `git stash` at all.
  Make your own scratch worktree and work only there and in your output directory:
      mkdir -p {work} && git -C /repo worktree add --detach {work}/wt HEAD
  Do not read, list or touch /verif or /root/.vp.
* Python: /venv/bin/python (3.12). aioslsk is installed "editable" from /repo/src; to run YOUR worktree's code put it first on the
  path: `PYTHONPATH={work}/wt/src /venv/bin/python ...`.
* Full test suite (782 tests, ~1 min) — ALWAYS in a private network namespace, exactly like this:
      cd {work}/wt && PYTHONPATH={work}/wt/src unshare -n sh -c 'ip link set lo up; /venv/bin/python -m pytest -q -p no:cacheprovider --timeout=900'
  (a few e2e tests are timing sensitive under load: if one fails, re-run once before concluding anything).

## The properties
{props}

## What to deliver
For EACH of the properties above ONE change (independent of the others, each against the unmodified HEAD), in {work}/<property id>/ :
* `patch.diff` — `git diff` against HEAD, only files under src/aioslsk/, applies with `git apply` from the worktree root. It should be
  a NON-TRIVIAL edit of the anchored code paths (typically 10–60 changed lines): e.g. extract a helper method, inline one, rename private
  attributes / locals, add a new private attribute or cache THAT IS CORRECTLY MAINTAINED, replace a loop by a comprehension or vice
  versa, reorder statements that are truly independent, change a data structure (list <-> dict keyed the same way, set <-> frozenset),
  restructure if/else chains, split a long coroutine in two awaited in sequence, add logging / type hints / docstrings, replace an
  exception handler by an equivalent one, use a different but equivalent stdlib call. Make at least half of your changes touch the
  CONTROL FLOW or STATE of the anchored functions, not just names and comments.
* It must preserve the property for ALL inputs / schedules the property quantifies over, not only in the common case — think it through:
  no new `await` inside a critical section, no changed order of externally visible effects (messages on the wire, events, state
  changes, file operations), no changed timing constants, no changed wire bytes. When in doubt, choose a more conservative edit.
* `demo.py` — a standalone program exercising the behaviour the property is about against the REAL library code (mocks / in-memory
  streams, no fixed ports, < 60 s): prints `RESULT: property holds` and exits 0 BOTH on the unmodified tree and with your patch.
* `notes.md` — first line `# <property id> / harmless — <one-line title>`; what was changed; a careful argument WHY the property (every
  clause) is preserved; anything a checker might stumble over (renamed private names, new attributes, changed call structure).

## You must verify, for each change
1. demo.py exits 0 without and with the patch. 2. The FULL test suite passes with the patch (782 passed). 3. `git diff` with the patch
applied equals patch.diff; reset the worktree afterwards (`git checkout -- .`) and leave it clean at the end.

Reply with a short summary per property: title, files touched, kind of change, verification results.
""")
