"""HEAD probe: CLOSED reported from inside a failing AddUser write (what Connection._send does on a write error:
disconnect(WRITE_ERROR) -> CLOSED listeners run inside the write, then ConnectionWriteError), the application's CLOSED listener
(registered after the managers) tracks alice, who was tracked."""
import asyncio, sys
from aioslsk.events import ConnectionStateChangedEvent, EventBus
from aioslsk.exceptions import ConnectionWriteError
from aioslsk.network.connection import ConnectionState, ServerConnection, CloseReason
from aioslsk.protocol.messages import AddUser, RemoveUser
from aioslsk.settings import Settings
from aioslsk.user.manager import UserManager
from aioslsk.user.model import TrackingFlag

class FakeNetwork:
    def __init__(self, bus):
        self.sent = []; self.bus = bus; self.break_on = None
    async def send_server_messages(self, *messages, raise_on_error=True):
        await asyncio.sleep(0)
        for m in messages:
            if isinstance(m, AddUser.Request) and m.username == self.break_on:
                self.break_on = None
                await self.bus.emit(ConnectionStateChangedEvent(ServerConnection('127.0.0.1', 0, self), ConnectionState.CLOSED, CloseReason.WRITE_ERROR))
                raise ConnectionWriteError('exception during writing')
            self.sent.append((type(m).__qualname__, m.username))
    async def wait_for_server_message(self, message_class, fields=None, timeout=10):
        await asyncio.sleep(0)
        return AddUser.Response(fields['username'], exists=True)

async def settle():
    for _ in range(50): await asyncio.sleep(0)

async def main():
    bus = EventBus(); net = FakeNetwork(bus)
    um = UserManager(Settings(credentials={'username': 'me', 'password': 'Test1234'}), bus, net)
    async def app_listener(event):
        if event.state == ConnectionState.CLOSED:
            await um.track_user('alice', TrackingFlag.REQUESTED)
    bus.register(ConnectionStateChangedEvent, app_listener)
    await um.track_user('alice', TrackingFlag.FRIEND); await settle()
    print('alice', um.get_tracking_state('alice'), net.sent)
    net.sent.clear(); net.break_on = 'carol'
    await um.track_user('carol'); await settle()
    print('after close: alice flags', um.get_tracking_flags('alice'), um.get_tracking_state('alice'), 'sent', net.sent)
    await asyncio.gather(*(await um.stop()), return_exceptions=True)
asyncio.run(main())
