import sys, asyncio, logging
import os; sys.path.insert(0, os.environ.get('VERIF_REPO','/repo')+'/src'); sys.path.insert(0,'/verif')
from vlib import simloop
from vlib.simloop import settle
from vlib.connharness import GatedNet, make_settings, start_network, SERVER_ADDR, CLEAR_PORT
from props.c11 import _ListenerGate
logging.disable(logging.CRITICAL)

def scenario(which, mode='fallback'):
    async def main(loop):
        from aioslsk.protocol.messages import ConnectToPeer, CannotConnect, PeerPierceFirewall
        from aioslsk.network.connection import CloseReason
        fn = GatedNet().install()
        try:
            bus, net, server, srv_task = await start_network(loop, fn, make_settings(mode))
            gate = _ListenerGate(bus, loop, fn.accept_tasks, lambda: {'tw': 0, 'aw': 0})
            gate.armed.add('d:CONNECTED')
            if which == 'direct':
                req = asyncio.ensure_future(net.create_peer_connection('bob', 'P', ip='10.0.0.5', port=2234))
            else:
                server.send(ConnectToPeer.Response('bob', 'P', '10.0.0.5', 2234, 777, False, obfuscated_port_amount=0, obfuscated_port=0))
            await settle()
            key = ('10.0.0.5', 2234)
            fn.release_connect(key, 'ok'); await settle()
            conn = [c for c in net.peer_connections if not c.incoming][0]
            print(which, 'parked:', gate.parked_labels(), 'state', conn.state.name)
            await conn.disconnect(CloseReason.REQUESTED)     # a third party (e.g. _set_parent, an application listener) closes it
            await settle()
            gate.release('d:CONNECTED'); await settle()
            sent_to_peer = bytes(fn.lib_writers[key].sent)
            cc = [m for m in server.received if isinstance(m, CannotConnect.Request)]
            print('   after release: conn', conn.state.name, conn.connection_state.name, 'registered', conn in net.peer_connections,
                  '| bytes to peer', len(sent_to_peer), '| CannotConnect to server', len(cc), '| events', [l[:2] for l in gate.log])
            if which == 'direct':
                print('   request:', 'pending' if not req.done() else (repr(req.exception()) if req.exception() else ('returned ' + req.result().state.name)),
                      '| ConnectToPeer sent:', any(isinstance(m, ConnectToPeer.Request) for m in server.received))
            keep = (bus, net, srv_task, gate)
        finally:
            fn.uninstall()
    simloop.run(main)

scenario('back'); scenario('direct', 'fallback'); scenario('direct', 'race')
