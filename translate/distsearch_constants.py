"""Regenerates lean/AioslskVerif/Generated/DistSearchConstants.lean (AST of protocol/messages.py, distributed.py,
search/manager.py).

Extracted:
* `searchCode`     — `DistributedSearchRequest.Request.MESSAGE_ID` (the only `distributed_code` the legacy carrier
                     `DistributedServerSearchRequest` is unwrapped for);
* `legacyUnknown`  — the literal `unknown=` of the `DistributedSearchRequest.Request(...)` built by
                     `DistributedNetwork._on_distributed_server_search_request`;
and it is checked (shape, raises otherwise) that both legacy handlers (`DistributedNetwork` and `SearchManager`)
guard with `message.distributed_code != DistributedSearchRequest.Request.MESSAGE_ID`, i.e. that the code compared
against is that same constant.
"""
import ast
from pathlib import Path


class TranslateError(Exception):
    pass


def _class(tree, name, where):
    c = next((n for n in tree.body if isinstance(n, ast.ClassDef) and n.name == name), None)
    if c is None:
        raise TranslateError(f'{where}: class {name} not found')
    return c


def _method(cls, name, where):
    f = next((n for n in cls.body if isinstance(n, (ast.FunctionDef, ast.AsyncFunctionDef)) and n.name == name), None)
    if f is None:
        raise TranslateError(f'{where}: {cls.name}.{name} not found')
    return f


def _is_search_id(node) -> bool:
    """`DistributedSearchRequest.Request.MESSAGE_ID`"""
    return (isinstance(node, ast.Attribute) and node.attr == 'MESSAGE_ID'
            and isinstance(node.value, ast.Attribute) and node.value.attr == 'Request'
            and isinstance(node.value.value, ast.Name) and node.value.value.id == 'DistributedSearchRequest')


def _check_code_guard(fn, where):
    """first statement (after a docstring): `if message.distributed_code != <search id>: ...; return`"""
    body = [s for s in fn.body if not (isinstance(s, ast.Expr) and isinstance(s.value, ast.Constant))]
    st = body[0] if body else None
    ok = (isinstance(st, ast.If) and isinstance(st.test, ast.Compare) and len(st.test.ops) == 1
          and isinstance(st.test.ops[0], ast.NotEq)
          and isinstance(st.test.left, ast.Attribute) and st.test.left.attr == 'distributed_code'
          and isinstance(st.test.left.value, ast.Name) and st.test.left.value.id == 'message'
          and _is_search_id(st.test.comparators[0])
          and st.body and isinstance(st.body[-1], ast.Return) and st.body[-1].value is None and not st.orelse)
    if not ok:
        raise TranslateError(f'{where}: does not start with '
                             '`if message.distributed_code != DistributedSearchRequest.Request.MESSAGE_ID: …return`')


def extract(repo: Path) -> dict:
    out = {}
    mtree = ast.parse((repo / 'src/aioslsk/protocol/messages.py').read_text())
    req = _class(_class(mtree, 'DistributedSearchRequest', 'messages.py'), 'Request', 'messages.py')
    val = None
    for st in req.body:
        if isinstance(st, ast.AnnAssign) and isinstance(st.target, ast.Name) and st.target.id == 'MESSAGE_ID':
            v = st.value
            if isinstance(v, ast.Call) and len(v.args) == 1 and isinstance(v.args[0], ast.Constant):
                val = v.args[0].value
    if isinstance(val, bool) or not isinstance(val, int) or val < 0:
        raise TranslateError('messages.py: DistributedSearchRequest.Request.MESSAGE_ID is not `uintN(<literal>)`')
    out['SEARCH_CODE'] = val

    dtree = ast.parse((repo / 'src/aioslsk/distributed.py').read_text())
    fn = _method(_class(dtree, 'DistributedNetwork', 'distributed.py'), '_on_distributed_server_search_request',
                 'distributed.py')
    _check_code_guard(fn, 'distributed.py: _on_distributed_server_search_request')
    found = []
    for node in ast.walk(fn):
        if isinstance(node, ast.Call) and isinstance(node.func, ast.Attribute) and node.func.attr == 'Request' \
                and isinstance(node.func.value, ast.Name) and node.func.value.id == 'DistributedSearchRequest':
            for kw in node.keywords:
                if kw.arg == 'unknown':
                    if not isinstance(kw.value, ast.Constant):
                        raise TranslateError('distributed.py: `unknown=` of the unwrapped legacy request is not a literal')
                    found.append(kw.value.value)
    if len(found) != 1 or isinstance(found[0], bool) or not isinstance(found[0], int) or found[0] < 0:
        raise TranslateError('distributed.py: _on_distributed_server_search_request does not build exactly one '
                             '`DistributedSearchRequest.Request(unknown=<literal>, …)`')
    out['LEGACY_UNKNOWN'] = found[0]

    stree = ast.parse((repo / 'src/aioslsk/search/manager.py').read_text())
    fn2 = _method(_class(stree, 'SearchManager', 'search/manager.py'), '_on_distributed_server_search_request',
                  'search/manager.py')
    _check_code_guard(fn2, 'search/manager.py: _on_distributed_server_search_request')
    return out


def generate(repo: Path, lean_dir: Path) -> str:
    c = extract(repo)
    text = f'''-- GENERATED by translate/distsearch_constants.py from /repo/src/aioslsk/{{protocol/messages,distributed,search/manager}}.py — do not edit.
namespace AioslskVerif.Generated.DistSearch
/-- `DistributedSearchRequest.Request.MESSAGE_ID` -/
def searchCode : Nat := {c['SEARCH_CODE']}
/-- `unknown=` of the request unwrapped from the legacy carrier -/
def legacyUnknown : Nat := {c['LEGACY_UNKNOWN']}
end AioslskVerif.Generated.DistSearch
'''
    p = lean_dir / 'AioslskVerif/Generated/DistSearchConstants.lean'
    if not p.exists() or p.read_text() != text:
        p.write_text(text)
    return str(p.relative_to(lean_dir))
