"""Regenerates lean/AioslskVerif/Generated/DistSearchConstants.lean (AST of protocol/messages.py, distributed.py,
search/manager.py).

Extracted (AST reading; since round 5 cross-checked against — and, when the shape is unknown, replaced by — the BEHAVIOURAL
reading `behaviour`: all 256 values of the uint8 `distributed_code` are run through the real legacy handlers of both managers):
* `searchCode`     — `DistributedSearchRequest.Request.MESSAGE_ID` (the only `distributed_code` the legacy carrier
                     `DistributedServerSearchRequest` is unwrapped for);
* `legacyUnknown`  — the literal `unknown=` of the `DistributedSearchRequest.Request(...)` built by
                     `DistributedNetwork._on_distributed_server_search_request`;
and it is checked (shape, raises otherwise) that both legacy handlers (`DistributedNetwork` and `SearchManager`)
guard with `message.distributed_code != DistributedSearchRequest.Request.MESSAGE_ID`, i.e. that the code compared
against is that same constant.

* `obfAfterInit`   — BEHAVIOURAL reading (no shape assumed, any refactoring with the same effect gives the same table):
                     for each connection type ("P", "D", "F") and each value of the `obfuscated` flag a
                     `PeerConnection` of the tree under check is created with that flag (what accepting it on the
                     obfuscated / plain listening port, or opening it to an obfuscated / plain port, does), the library's
                     own initialisation step `Network._finalize_peer_connection` is run on it — the step taken after the
                     PeerInit of an accepted connection was read, after our PeerInit on a connection we opened, and after a
                     PeerPierceFirewall — and the flag is read back: the wire form of everything written afterwards.
"""
import ast
from pathlib import Path


class TranslateError(Exception):
    pass


def _class(tree, name, where):
    c = next((n for n in tree.body if isinstance(n, ast.ClassDef) and n.name == name), None)
    if c is None:
        raise TranslateError(f'{where}: class {name} not found')
    return c


def _method(cls, name, where):
    f = next((n for n in cls.body if isinstance(n, (ast.FunctionDef, ast.AsyncFunctionDef)) and n.name == name), None)
    if f is None:
        raise TranslateError(f'{where}: {cls.name}.{name} not found')
    return f


def _is_search_id(node) -> bool:
    """`DistributedSearchRequest.Request.MESSAGE_ID`"""
    return (isinstance(node, ast.Attribute) and node.attr == 'MESSAGE_ID'
            and isinstance(node.value, ast.Attribute) and node.value.attr == 'Request'
            and isinstance(node.value.value, ast.Name) and node.value.value.id == 'DistributedSearchRequest')


def _check_code_guard(fn, where):
    """first statement (after a docstring): `if message.distributed_code != <search id>: ...; return`"""
    body = [s for s in fn.body if not (isinstance(s, ast.Expr) and isinstance(s.value, ast.Constant))]
    st = body[0] if body else None
    ok = (isinstance(st, ast.If) and isinstance(st.test, ast.Compare) and len(st.test.ops) == 1
          and isinstance(st.test.ops[0], ast.NotEq)
          and isinstance(st.test.left, ast.Attribute) and st.test.left.attr == 'distributed_code'
          and isinstance(st.test.left.value, ast.Name) and st.test.left.value.id == 'message'
          and _is_search_id(st.test.comparators[0])
          and st.body and isinstance(st.body[-1], ast.Return) and st.body[-1].value is None and not st.orelse)
    if not ok:
        raise TranslateError(f'{where}: does not start with '
                             '`if message.distributed_code != DistributedSearchRequest.Request.MESSAGE_ID: …return`')


def _from_tree(repo: Path, *names):
    import importlib
    mods = [importlib.import_module(n) for n in names]
    for mod in mods:
        if not Path(mod.__file__).resolve().is_relative_to((repo / 'src').resolve()):
            raise TranslateError(f'{mod.__name__} was imported from {mod.__file__}, not from the tree under check {repo}')
    return mods


def behaviour(repo: Path) -> dict:
    """BEHAVIOURAL reading of the legacy carrier (used alone when the handlers do not have the shape `extract_ast` knows,
    cross-checked against it otherwise). `distributed_code` is a uint8: all 256 values are tried on the real handlers of
    both managers (no session, so the own-name filter is out of play); `send_messages_to_children` of the
    `DistributedNetwork` instance and `_query_shares_and_reply` of the `SearchManager` instance record what reaches them.
    Demanded: both managers act on exactly one and the same code, it is `DistributedSearchRequest.Request.MESSAGE_ID`, the
    request passed on is a `DistributedSearchRequest.Request` with the carrier's user / ticket / query and an `unknown` that
    does not depend on the carrier's."""
    import asyncio
    dist, smod, msgs, nw = _from_tree(repo, 'aioslsk.distributed', 'aioslsk.search.manager', 'aioslsk.protocol.messages',
                                      'aioslsk.network.network')
    from aioslsk.events import EventBus
    from aioslsk.settings import Settings

    async def probe():
        settings = Settings(credentials={'username': 'u', 'password': 'p'})
        bus = EventBus()
        net = nw.Network(settings, bus)
        dn = dist.DistributedNetwork(settings, bus, net)
        sm = smod.SearchManager(settings, bus, object(), object(), net)
        for obj, attr in ((dn, 'send_messages_to_children'), (sm, '_query_shares_and_reply'),
                          (dn, '_on_distributed_server_search_request'), (sm, '_on_distributed_server_search_request')):
            if not callable(getattr(obj, attr, None)):
                raise TranslateError(f'{type(obj).__name__}.{attr} not found')
        passed, queried = [], []

        async def to_children(*messages):
            passed.append(messages)

        async def query(*a, **k):
            queried.append((a, k))
        dn.send_messages_to_children = to_children
        sm._query_shares_and_reply = query
        fwd_codes, ans_codes, unknowns = [], [], set()
        for code in range(256):
            for unk in (7, 0x99):
                del passed[:], queried[:]
                msg = msgs.DistributedServerSearchRequest.Request(
                    distributed_code=code, unknown=unk, username='someone', ticket=1234 + code, query='some query')
                await dn._on_distributed_server_search_request(msg, None)
                await sm._on_distributed_server_search_request(msg, None)
                if passed:
                    if len(passed) != 1 or len(passed[0]) != 1 or \
                            not isinstance(passed[0][0], msgs.DistributedSearchRequest.Request):
                        raise TranslateError(f'legacy carrier with code {code}: passed on as {passed!r}')
                    out = passed[0][0]
                    if (out.username, out.ticket, out.query) != ('someone', 1234 + code, 'some query'):
                        raise TranslateError(f'legacy carrier with code {code}: user / ticket / query altered: {out!r}')
                    fwd_codes.append(code)
                    unknowns.add(out.unknown)
                if queried:
                    if len(queried) != 1:
                        raise TranslateError(f'legacy carrier with code {code}: the shares are queried {len(queried)} times')
                    ans_codes.append(code)
        return sorted(set(fwd_codes)), sorted(set(ans_codes)), unknowns
    import logging
    was = logging.root.manager.disable
    logging.disable(logging.CRITICAL)          # (255 codes are refused with a warning each)
    try:
        fwd_codes, ans_codes, unknowns = asyncio.run(probe())
    except TranslateError:
        raise
    except Exception as e:
        raise TranslateError(f'the legacy carrier handlers could not be run: {type(e).__name__}: {e}')
    finally:
        logging.disable(was)
    mid = int(msgs.DistributedSearchRequest.Request.MESSAGE_ID)
    if fwd_codes != [mid] or ans_codes != [mid]:
        raise TranslateError(f'legacy carrier: passed on for codes {fwd_codes}, answered for codes {ans_codes}; '
                             f'DistributedSearchRequest.Request.MESSAGE_ID is {mid}')
    if len(unknowns) != 1 or not isinstance(next(iter(unknowns)), int) or isinstance(next(iter(unknowns)), bool):
        raise TranslateError(f'legacy carrier: `unknown` of the request passed on is not one constant: {sorted(unknowns)!r}')
    return {'SEARCH_CODE': mid, 'LEGACY_UNKNOWN': int(next(iter(unknowns)))}


def extract(repo: Path) -> dict:
    """the AST reading when the source has the known shape, cross-checked against the behavioural one; the behavioural
    reading alone when the shape is unknown (a refactoring)"""
    b = behaviour(repo)
    try:
        a = extract_ast(repo)
    except TranslateError:
        return b
    if a != b:
        raise TranslateError(f'the source reads {a}, the running code behaves as {b}')
    return a


def extract_ast(repo: Path) -> dict:
    out = {}
    mtree = ast.parse((repo / 'src/aioslsk/protocol/messages.py').read_text())
    req = _class(_class(mtree, 'DistributedSearchRequest', 'messages.py'), 'Request', 'messages.py')
    val = None
    for st in req.body:
        if isinstance(st, ast.AnnAssign) and isinstance(st.target, ast.Name) and st.target.id == 'MESSAGE_ID':
            v = st.value
            if isinstance(v, ast.Call) and len(v.args) == 1 and isinstance(v.args[0], ast.Constant):
                val = v.args[0].value
    if isinstance(val, bool) or not isinstance(val, int) or val < 0:
        raise TranslateError('messages.py: DistributedSearchRequest.Request.MESSAGE_ID is not `uintN(<literal>)`')
    out['SEARCH_CODE'] = val

    dtree = ast.parse((repo / 'src/aioslsk/distributed.py').read_text())
    fn = _method(_class(dtree, 'DistributedNetwork', 'distributed.py'), '_on_distributed_server_search_request',
                 'distributed.py')
    _check_code_guard(fn, 'distributed.py: _on_distributed_server_search_request')
    found = []
    for node in ast.walk(fn):
        if isinstance(node, ast.Call) and isinstance(node.func, ast.Attribute) and node.func.attr == 'Request' \
                and isinstance(node.func.value, ast.Name) and node.func.value.id == 'DistributedSearchRequest':
            for kw in node.keywords:
                if kw.arg == 'unknown':
                    if not isinstance(kw.value, ast.Constant):
                        raise TranslateError('distributed.py: `unknown=` of the unwrapped legacy request is not a literal')
                    found.append(kw.value.value)
    if len(found) != 1 or isinstance(found[0], bool) or not isinstance(found[0], int) or found[0] < 0:
        raise TranslateError('distributed.py: _on_distributed_server_search_request does not build exactly one '
                             '`DistributedSearchRequest.Request(unknown=<literal>, …)`')
    out['LEGACY_UNKNOWN'] = found[0]

    stree = ast.parse((repo / 'src/aioslsk/search/manager.py').read_text())
    fn2 = _method(_class(stree, 'SearchManager', 'search/manager.py'), '_on_distributed_server_search_request',
                  'search/manager.py')
    _check_code_guard(fn2, 'search/manager.py: _on_distributed_server_search_request')
    return out


def obf_after_init(repo: Path) -> dict:
    """{'peer' | 'distributed' | 'file': (flag after init when it was False, … when it was True)}"""
    import asyncio
    cn, nw = _from_tree(repo, 'aioslsk.network.connection', 'aioslsk.network.network')
    from aioslsk.events import EventBus
    from aioslsk.settings import Settings

    async def probe():
        net = nw.Network(Settings(credentials={'username': 'u', 'password': 'p'}), EventBus())
        out = {}
        for name, typ in (('peer', cn.PeerConnectionType.PEER), ('distributed', cn.PeerConnectionType.DISTRIBUTED),
                          ('file', cn.PeerConnectionType.FILE)):
            after = []
            for flag in (False, True):
                conn = cn.PeerConnection('10.0.0.1', 2234, net, obfuscated=flag, incoming=True)
                conn.connection_type = typ              # (taken from the PeerInit / the request)
                if conn.obfuscated is not flag:
                    raise TranslateError('PeerConnection(obfuscated=…) does not store the flag in `.obfuscated`')
                net._finalize_peer_connection(conn)
                if not isinstance(conn.obfuscated, bool):
                    raise TranslateError(f'`obfuscated` of a {typ} connection is {conn.obfuscated!r} after initialisation')
                after.append(conn.obfuscated)
                conn.stop_reader_task()
            out[name] = tuple(after)
        return out
    try:
        return asyncio.run(probe())
    except TranslateError:
        raise
    except Exception as e:
        raise TranslateError(f'the initialisation step of a peer connection could not be run: {type(e).__name__}: {e}')


def generate(repo: Path, lean_dir: Path) -> str:
    c = extract(repo)
    obf = obf_after_init(repo)

    def lb(b: bool) -> str:
        return 'true' if b else 'false'
    text = f'''-- GENERATED by translate/distsearch_constants.py from /repo/src/aioslsk/{{protocol/messages,distributed,search/manager,network/network,network/connection}}.py — do not edit.
namespace AioslskVerif.Generated.DistSearch
/-- `DistributedSearchRequest.Request.MESSAGE_ID` -/
def searchCode : Nat := {c['SEARCH_CODE']}
/-- `unknown=` of the request unwrapped from the legacy carrier -/
def legacyUnknown : Nat := {c['LEGACY_UNKNOWN']}
/-- `obfuscated` of a connection after `Network._finalize_peer_connection`, as a function of the flag before, per type -/
structure ObfAfterInit where
  peer : Bool → Bool
  distributed : Bool → Bool
  file : Bool → Bool
def obfAfterInit : ObfAfterInit where
  peer := fun b => if b then {lb(obf['peer'][1])} else {lb(obf['peer'][0])}
  distributed := fun b => if b then {lb(obf['distributed'][1])} else {lb(obf['distributed'][0])}
  file := fun b => if b then {lb(obf['file'][1])} else {lb(obf['file'][0])}
end AioslskVerif.Generated.DistSearch
'''
    p = lean_dir / 'AioslskVerif/Generated/DistSearchConstants.lean'
    if not p.exists() or p.read_text() != text:
        p.write_text(text)
    return str(p.relative_to(lean_dir))
