"""Regenerates lean/AioslskVerif/Generated/CacheConstants.lean from transfer/state.py and transfer/model.py (AST).

Data-like parts of the C17 model:
  * `TransferState.State` members and values, the `TransferState` subclasses and their `VALUE`
    (what `init_from_state` can rebuild), in definition order;
  * `TransferDirection` members and values (the last component of the cache key);
  * `Transfer._UNPICKABLE_FIELDS`, the attributes assigned in `Transfer.__init__` (what `__getstate__` copies);
  * the state sets of `is_finalized` / `is_processing` / `is_transferring`;
  * `AbortReason.REQUESTED` (the value `__setstate__` fills in for a legacy ABORTED record);
  * the `abort()` table of the state classes (what `TransferManager.remove` does to a transfer that is still listed while
    the removal is in progress): which states define `abort`, whether it stops the transfer (`_stop_transfer`: complete
    time) and whether it removes the local file; `_stop_transfer`, `_cancel_transfer_tasks`, `_remove_local_file` and
    `Transfer.set_complete_time` are pinned to the shapes the model transcribes.
`is_transfered` is pinned to `self.filesize == self.bytes_transfered`.
Unknown constructs raise TranslateError (never skipped).
"""
import ast
from pathlib import Path


class TranslateError(Exception):
    pass


def _cls(tree: ast.AST, name: str) -> ast.ClassDef:
    for n in ast.walk(tree):
        if isinstance(n, ast.ClassDef) and n.name == name:
            return n
    raise TranslateError(f'class {name} not found')


def _enum_members(c: ast.ClassDef) -> list[tuple[str, int]]:
    out = []
    for st in c.body:
        if isinstance(st, ast.Expr) and isinstance(st.value, ast.Constant) and isinstance(st.value.value, str):
            continue
        if isinstance(st, ast.Assign) and len(st.targets) == 1 and isinstance(st.targets[0], ast.Name):
            try:
                v = ast.literal_eval(st.value)
            except ValueError as e:
                raise TranslateError(f'{c.name}.{st.targets[0].id}: value is not a literal') from e
            if not isinstance(v, int) or isinstance(v, bool):
                raise TranslateError(f'{c.name}.{st.targets[0].id} = {v!r} is not an int')
            out.append((st.targets[0].id, v))
        else:
            raise TranslateError(f'{c.name}: unexpected statement {ast.dump(st)[:80]}')
    if not out:
        raise TranslateError(f'{c.name}: no members')
    return out


def _state_attr(node: ast.AST) -> str:
    """TransferState.X -> 'X'"""
    if isinstance(node, ast.Attribute) and isinstance(node.value, ast.Name) and node.value.id == 'TransferState':
        return node.attr
    raise TranslateError(f'expected TransferState.<NAME>, got {ast.dump(node)[:80]}')


def _method(c: ast.ClassDef, name: str) -> ast.FunctionDef:
    for st in c.body:
        if isinstance(st, (ast.FunctionDef, ast.AsyncFunctionDef)) and st.name == name:
            return st
    raise TranslateError(f'{c.name}.{name} not found')


def _body(fn: ast.FunctionDef) -> list[ast.stmt]:
    return [s for s in fn.body
            if not (isinstance(s, ast.Expr) and isinstance(s.value, ast.Constant) and isinstance(s.value.value, str))]


def _state_set(c: ast.ClassDef, name: str) -> list[str]:
    body = _body(_method(c, name))
    if len(body) != 1 or not isinstance(body[0], ast.Return):
        raise TranslateError(f'Transfer.{name}: expected a single return')
    v = body[0].value
    ok = (isinstance(v, ast.Compare) and len(v.ops) == 1 and isinstance(v.ops[0], ast.In)
          and ast.unparse(v.left) == 'self.state.VALUE' and isinstance(v.comparators[0], (ast.Tuple, ast.List, ast.Set)))
    if not ok:
        raise TranslateError(f'Transfer.{name}: expected `return self.state.VALUE in (...)`, got {ast.unparse(v)[:80]}')
    return [_state_attr(e) for e in v.comparators[0].elts]


def _norm(stmts: list[ast.stmt]) -> list[str]:
    """statements as text, without docstrings and logging calls"""
    out = []
    for st in stmts:
        if isinstance(st, ast.Expr) and isinstance(st.value, ast.Constant) and isinstance(st.value.value, str):
            continue
        if isinstance(st, ast.Expr) and isinstance(st.value, ast.Call) and \
                ast.unparse(st.value.func).startswith('logger.'):
            continue
        out.append(ast.unparse(st))
    return out


def _func(tree: ast.AST, name: str):
    for n in tree.body:
        if isinstance(n, (ast.FunctionDef, ast.AsyncFunctionDef)) and n.name == name:
            return n
    raise TranslateError(f'function {name} not found')


_ABORT_CANCEL = 'await self._cancel_transfer_tasks()'
_ABORT_STOP = 'await self._stop_transfer()'
_ABORT_RMFILE = 'await _remove_local_file(self.transfer)'
_ABORT_TAIL = ['self.transfer.abort_reason = reason',
               'await self.transfer.transition(AbortedState(self.transfer))',
               'return True']


def _abort_table(st_tree: ast.AST, md_tree: ast.AST, classes: list[tuple[str, str]], repo=None) -> list[tuple[str, bool, bool]]:
    """(state name, stops the transfer, removes the local file) for every state class that defines `abort`."""
    ts = _cls(st_tree, 'TransferState')
    if _norm(_method(ts, 'abort').body) != ['return False']:
        raise TranslateError('TransferState.abort (undefined transition) is not `return False`')
    if _norm(_method(ts, '_cancel_transfer_tasks').body) != \
            ['await asyncio.gather(*self.transfer.cancel_tasks(), return_exceptions=True)']:
        raise TranslateError('TransferState._cancel_transfer_tasks has an unknown shape')
    if _norm(_method(ts, '_stop_transfer').body) != ['await self._cancel_transfer_tasks()',
                                                    'self.transfer.set_complete_time()']:
        raise TranslateError('TransferState._stop_transfer has an unknown shape')
    want_rm = ['if not transfer.is_download():\n    return',
               'if transfer.local_path:\n'
               '    try:\n'
               '        if await asyncos.path.exists(transfer.local_path):\n'
               '            await asyncos.remove(transfer.local_path)\n'
               '    except OSError:\n'
               '        pass\n'
               '    transfer.local_path = None']
    rm = _func(st_tree, '_remove_local_file')

    def strip(stmts):
        """the statement list without logging calls (recursively); an emptied block becomes `pass`"""
        out = []
        for st in stmts:
            if isinstance(st, ast.Expr) and isinstance(st.value, ast.Call) and \
                    ast.unparse(st.value.func).startswith('logger.'):
                continue
            for fld in ('body', 'orelse', 'finalbody'):
                if getattr(st, fld, None):
                    setattr(st, fld, strip(getattr(st, fld)))
            for h in getattr(st, 'handlers', []) or []:
                h.body = strip(h.body)
            out.append(st)
        return out or [ast.Pass()]
    got_rm = [ast.unparse(st) for st in strip(ast.parse(ast.unparse(rm)).body[0].body)
              if not (isinstance(st, ast.Expr) and isinstance(st.value, ast.Constant))]
    if got_rm != want_rm:
        raise TranslateError('_remove_local_file has an unknown shape: ' + repr(got_rm)[:300])
    sct = _norm(_method(_cls(md_tree, 'Transfer'), 'set_complete_time').body)
    if len(sct) != 1 or not sct[0].startswith('if self.start_time is not None:\n    self.complete_time = time.time()'):
        raise TranslateError('Transfer.set_complete_time has an unknown shape: ' + repr(sct)[:200])
    try:
        return _abort_rows_by_shape(st_tree, classes)
    except TranslateError as shape_error:
        # the abort() methods are written differently (shared helper, …): read the same three facts off the transfer table,
        # which is cross-checked against / read from the running code (translate/transfer_table.py)
        try:
            return _abort_rows_from_table(repo)
        except Exception as e:  # noqa: BLE001
            raise TranslateError(f'{shape_error}; and reading the abort rows off the transfer table failed: {e!r}')


def _abort_rows_from_table(repo) -> list[tuple[str, bool, bool]]:
    from translate import transfer_table
    info = transfer_table.extract_checked(repo)
    rows = []
    for (sname, meth), per in info['table'].items():
        if meth != 'abort':
            continue
        for d, (tgt, effs) in per.items():
            if tgt != 'aborted' or 'cancelTasks' not in effs or effs[-1] != 'setAbortReason':
                raise TranslateError(f'{sname}.abort ({d}): target {tgt}, effects {effs}')
        up, down = per['upload'][1], per['download'][1]
        stops = 'setCompleteTime' in down
        if stops != ('setCompleteTime' in up):
            raise TranslateError(f'{sname}.abort: stopping depends on the direction')
        rows.append((sname, stops, 'removeLocalFile' in down))
    if not rows:
        raise TranslateError('no state class defines abort()')
    order = {n: i for i, n in enumerate(transfer_table.ST)}
    return sorted(rows, key=lambda r: order.get(r[0], 99))


def _abort_rows_by_shape(st_tree: ast.AST, classes: list[tuple[str, str]]) -> list[tuple[str, bool, bool]]:
    table = []
    for cname, val in classes:
        c = _cls(st_tree, cname)
        m = next((x for x in c.body if isinstance(x, (ast.FunctionDef, ast.AsyncFunctionDef)) and x.name == 'abort'), None)
        if m is None:
            continue
        args = [a.arg for a in m.args.args]
        if args != ['self', 'reason'] or not isinstance(m, ast.AsyncFunctionDef):
            raise TranslateError(f'{cname}.abort: unexpected signature')
        body = _norm(m.body)
        if len(body) < 4 or body[-3:] != _ABORT_TAIL:
            raise TranslateError(f'{cname}.abort has an unknown shape: {body!r}'[:300])
        head = body[:-3]
        if head[0] == _ABORT_CANCEL:
            stops = False
        elif head[0] == _ABORT_STOP:
            stops = True
        else:
            raise TranslateError(f'{cname}.abort does not start by cancelling the tasks: {head!r}'[:300])
        if head[1:] == []:
            removes = False
        elif head[1:] == [_ABORT_RMFILE]:
            removes = True
        else:
            raise TranslateError(f'{cname}.abort has an unknown shape: {head!r}'[:300])
        table.append((val, stops, removes))
    if not table:
        raise TranslateError('no state class defines abort()')
    return table


def extract(repo: Path) -> dict:
    st_tree = ast.parse((repo / 'src/aioslsk/transfer/state.py').read_text())
    md_tree = ast.parse((repo / 'src/aioslsk/transfer/model.py').read_text())
    out: dict = {}

    ts = _cls(st_tree, 'TransferState')
    state_enum = None
    aliases = {}
    for st in ts.body:
        if isinstance(st, ast.ClassDef) and st.name == 'State':
            state_enum = _enum_members(st)
        elif isinstance(st, ast.Assign) and len(st.targets) == 1 and isinstance(st.targets[0], ast.Name):
            # UNSET = State.UNSET  /  VALUE = UNSET
            v = st.value
            if isinstance(v, ast.Attribute) and isinstance(v.value, ast.Name) and v.value.id == 'State':
                aliases[st.targets[0].id] = v.attr
    if state_enum is None:
        raise TranslateError('TransferState.State not found')
    names = [n for n, _ in state_enum]
    for n in names:
        if aliases.get(n) != n:
            raise TranslateError(f'TransferState.{n} is not an alias of State.{n}')
    if len({v for _, v in state_enum}) != len(state_enum):
        raise TranslateError('TransferState.State has duplicate values (enum aliases)')
    out['state_enum'] = state_enum

    classes = []
    for node in st_tree.body:
        if isinstance(node, ast.ClassDef) and any(isinstance(b, ast.Name) and b.id == 'TransferState' for b in node.bases):
            val = None
            for st in node.body:
                if isinstance(st, ast.Assign) and len(st.targets) == 1 and isinstance(st.targets[0], ast.Name) \
                        and st.targets[0].id == 'VALUE':
                    val = _state_attr(st.value)
            if val is None:
                raise TranslateError(f'{node.name}: no VALUE')
            if val not in names:
                raise TranslateError(f'{node.name}.VALUE = {val} is not a State member')
            classes.append((node.name, val))
    if not classes:
        raise TranslateError('no TransferState subclasses')
    out['state_classes'] = classes

    out['direction_enum'] = _enum_members(_cls(md_tree, 'TransferDirection'))
    for n, v in out['direction_enum']:
        if v < 0:
            raise TranslateError(f'TransferDirection.{n} = {v} is negative')

    ar = _cls(md_tree, 'AbortReason')
    req = None
    for st in ar.body:
        if isinstance(st, ast.Assign) and isinstance(st.targets[0], ast.Name) and st.targets[0].id == 'REQUESTED':
            req = ast.literal_eval(st.value)
    if not isinstance(req, str):
        raise TranslateError('AbortReason.REQUESTED not found / not a string')
    out['abort_requested'] = req

    tr = _cls(md_tree, 'Transfer')
    unp = None
    for st in tr.body:
        if isinstance(st, ast.Assign) and isinstance(st.targets[0], ast.Name) and st.targets[0].id == '_UNPICKABLE_FIELDS':
            unp = ast.literal_eval(st.value)
    if not isinstance(unp, (tuple, list)) or not all(isinstance(x, str) for x in unp):
        raise TranslateError('Transfer._UNPICKABLE_FIELDS not found / not a tuple of strings')
    out['unpickable'] = list(unp)

    fields = []
    for st in _body(_method(tr, '__init__')):
        tgt = None
        if isinstance(st, ast.AnnAssign):
            tgt = st.target
        elif isinstance(st, ast.Assign) and len(st.targets) == 1:
            tgt = st.targets[0]
        if tgt is None or not (isinstance(tgt, ast.Attribute) and isinstance(tgt.value, ast.Name) and tgt.value.id == 'self'):
            raise TranslateError(f'Transfer.__init__: unexpected statement {ast.unparse(st)[:80]}')
        fields.append(tgt.attr)
    out['init_fields'] = fields

    for nm in ('is_finalized', 'is_processing', 'is_transferring'):
        out[nm] = _state_set(tr, nm)
        for s in out[nm]:
            if s not in names:
                raise TranslateError(f'Transfer.{nm}: {s} is not a State member')

    out['abort_table'] = _abort_table(st_tree, md_tree, classes, repo)

    body = _body(_method(tr, 'is_transfered'))
    if len(body) != 1 or not isinstance(body[0], ast.Return) or \
            ast.unparse(body[0].value) not in ('self.filesize == self.bytes_transfered',
                                               'self.bytes_transfered == self.filesize'):
        raise TranslateError('Transfer.is_transfered is not `return self.filesize == self.bytes_transfered`')
    return out


def _s(x: str) -> str:
    return '"' + x.replace('\\', '\\\\').replace('"', '\\"') + '"'


def _int(v: int) -> str:
    return f'({v})' if v < 0 else str(v)


def generate(repo: Path, lean_dir: Path) -> str:
    c = extract(repo)
    pairs_i = lambda l: '[' + ', '.join(f'({_s(a)}, {_int(b)})' for a, b in l) + ']'
    pairs_s = lambda l: '[' + ', '.join(f'({_s(a)}, {_s(b)})' for a, b in l) + ']'
    strs = lambda l: '[' + ', '.join(_s(a) for a in l) + ']'
    abort_rows = '[' + ', '.join(f'({_s(n)}, {str(a).lower()}, {str(b).lower()})' for n, a, b in c['abort_table']) + ']'
    text = f'''-- GENERATED by translate/cache_constants.py from /repo/src/aioslsk/transfer/{{state,model}}.py — do not edit.
namespace AioslskVerif.Generated.Cache
/-- `TransferState.State` members (name, value), definition order -/
def stateEnum : List (String × Int) := {pairs_i(c['state_enum'])}
/-- `TransferState` subclasses (class, name of its `VALUE`), definition order = `__subclasses__()` order -/
def stateClasses : List (String × String) := {pairs_s(c['state_classes'])}
/-- `TransferDirection` members (name, value) -/
def directionEnum : List (String × Nat) := {pairs_i(c['direction_enum'])}
/-- `AbortReason.REQUESTED` -/
def abortRequested : String := {_s(c['abort_requested'])}
/-- `Transfer._UNPICKABLE_FIELDS` -/
def unpickable : List String := {strs(c['unpickable'])}
/-- attributes assigned by `Transfer.__init__`, in order -/
def initFields : List String := {strs(c['init_fields'])}
/-- state sets of `Transfer.is_finalized` / `is_processing` / `is_transferring` -/
def finalized : List String := {strs(c['is_finalized'])}
def processing : List String := {strs(c['is_processing'])}
def transferring : List String := {strs(c['is_transferring'])}
/-- state classes that define `abort()` : (name of `VALUE`, calls `_stop_transfer` (sets the complete time),
calls `_remove_local_file`); every other state refuses (`return False`) -/
def abortTable : List (String × Bool × Bool) := {abort_rows}
end AioslskVerif.Generated.Cache
'''
    p = lean_dir / 'AioslskVerif/Generated/CacheConstants.lean'
    if not p.exists() or p.read_text() != text:
        p.write_text(text)
    return str(p.relative_to(lean_dir))


if __name__ == '__main__':
    import sys
    print(generate(Path(sys.argv[1] if len(sys.argv) > 1 else '/repo'), Path(__file__).resolve().parent.parent / 'lean'))
