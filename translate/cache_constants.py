"""Regenerates lean/AioslskVerif/Generated/CacheConstants.lean from transfer/state.py and transfer/model.py (AST).

Data-like parts of the C17 model:
  * `TransferState.State` members and values, the `TransferState` subclasses and their `VALUE`
    (what `init_from_state` can rebuild), in definition order;
  * `TransferDirection` members and values (the last component of the cache key);
  * `Transfer._UNPICKABLE_FIELDS`, the attributes assigned in `Transfer.__init__` (what `__getstate__` copies);
  * the state sets of `is_finalized` / `is_processing` / `is_transferring`;
  * `AbortReason.REQUESTED` (the value `__setstate__` fills in for a legacy ABORTED record).
`is_transfered` is pinned to `self.filesize == self.bytes_transfered`.
Unknown constructs raise TranslateError (never skipped).
"""
import ast
from pathlib import Path


class TranslateError(Exception):
    pass


def _cls(tree: ast.AST, name: str) -> ast.ClassDef:
    for n in ast.walk(tree):
        if isinstance(n, ast.ClassDef) and n.name == name:
            return n
    raise TranslateError(f'class {name} not found')


def _enum_members(c: ast.ClassDef) -> list[tuple[str, int]]:
    out = []
    for st in c.body:
        if isinstance(st, ast.Expr) and isinstance(st.value, ast.Constant) and isinstance(st.value.value, str):
            continue
        if isinstance(st, ast.Assign) and len(st.targets) == 1 and isinstance(st.targets[0], ast.Name):
            try:
                v = ast.literal_eval(st.value)
            except ValueError as e:
                raise TranslateError(f'{c.name}.{st.targets[0].id}: value is not a literal') from e
            if not isinstance(v, int) or isinstance(v, bool):
                raise TranslateError(f'{c.name}.{st.targets[0].id} = {v!r} is not an int')
            out.append((st.targets[0].id, v))
        else:
            raise TranslateError(f'{c.name}: unexpected statement {ast.dump(st)[:80]}')
    if not out:
        raise TranslateError(f'{c.name}: no members')
    return out


def _state_attr(node: ast.AST) -> str:
    """TransferState.X -> 'X'"""
    if isinstance(node, ast.Attribute) and isinstance(node.value, ast.Name) and node.value.id == 'TransferState':
        return node.attr
    raise TranslateError(f'expected TransferState.<NAME>, got {ast.dump(node)[:80]}')


def _method(c: ast.ClassDef, name: str) -> ast.FunctionDef:
    for st in c.body:
        if isinstance(st, (ast.FunctionDef, ast.AsyncFunctionDef)) and st.name == name:
            return st
    raise TranslateError(f'{c.name}.{name} not found')


def _body(fn: ast.FunctionDef) -> list[ast.stmt]:
    return [s for s in fn.body
            if not (isinstance(s, ast.Expr) and isinstance(s.value, ast.Constant) and isinstance(s.value.value, str))]


def _state_set(c: ast.ClassDef, name: str) -> list[str]:
    body = _body(_method(c, name))
    if len(body) != 1 or not isinstance(body[0], ast.Return):
        raise TranslateError(f'Transfer.{name}: expected a single return')
    v = body[0].value
    ok = (isinstance(v, ast.Compare) and len(v.ops) == 1 and isinstance(v.ops[0], ast.In)
          and ast.unparse(v.left) == 'self.state.VALUE' and isinstance(v.comparators[0], (ast.Tuple, ast.List, ast.Set)))
    if not ok:
        raise TranslateError(f'Transfer.{name}: expected `return self.state.VALUE in (...)`, got {ast.unparse(v)[:80]}')
    return [_state_attr(e) for e in v.comparators[0].elts]


def extract(repo: Path) -> dict:
    st_tree = ast.parse((repo / 'src/aioslsk/transfer/state.py').read_text())
    md_tree = ast.parse((repo / 'src/aioslsk/transfer/model.py').read_text())
    out: dict = {}

    ts = _cls(st_tree, 'TransferState')
    state_enum = None
    aliases = {}
    for st in ts.body:
        if isinstance(st, ast.ClassDef) and st.name == 'State':
            state_enum = _enum_members(st)
        elif isinstance(st, ast.Assign) and len(st.targets) == 1 and isinstance(st.targets[0], ast.Name):
            # UNSET = State.UNSET  /  VALUE = UNSET
            v = st.value
            if isinstance(v, ast.Attribute) and isinstance(v.value, ast.Name) and v.value.id == 'State':
                aliases[st.targets[0].id] = v.attr
    if state_enum is None:
        raise TranslateError('TransferState.State not found')
    names = [n for n, _ in state_enum]
    for n in names:
        if aliases.get(n) != n:
            raise TranslateError(f'TransferState.{n} is not an alias of State.{n}')
    if len({v for _, v in state_enum}) != len(state_enum):
        raise TranslateError('TransferState.State has duplicate values (enum aliases)')
    out['state_enum'] = state_enum

    classes = []
    for node in st_tree.body:
        if isinstance(node, ast.ClassDef) and any(isinstance(b, ast.Name) and b.id == 'TransferState' for b in node.bases):
            val = None
            for st in node.body:
                if isinstance(st, ast.Assign) and len(st.targets) == 1 and isinstance(st.targets[0], ast.Name) \
                        and st.targets[0].id == 'VALUE':
                    val = _state_attr(st.value)
            if val is None:
                raise TranslateError(f'{node.name}: no VALUE')
            if val not in names:
                raise TranslateError(f'{node.name}.VALUE = {val} is not a State member')
            classes.append((node.name, val))
    if not classes:
        raise TranslateError('no TransferState subclasses')
    out['state_classes'] = classes

    out['direction_enum'] = _enum_members(_cls(md_tree, 'TransferDirection'))
    for n, v in out['direction_enum']:
        if v < 0:
            raise TranslateError(f'TransferDirection.{n} = {v} is negative')

    ar = _cls(md_tree, 'AbortReason')
    req = None
    for st in ar.body:
        if isinstance(st, ast.Assign) and isinstance(st.targets[0], ast.Name) and st.targets[0].id == 'REQUESTED':
            req = ast.literal_eval(st.value)
    if not isinstance(req, str):
        raise TranslateError('AbortReason.REQUESTED not found / not a string')
    out['abort_requested'] = req

    tr = _cls(md_tree, 'Transfer')
    unp = None
    for st in tr.body:
        if isinstance(st, ast.Assign) and isinstance(st.targets[0], ast.Name) and st.targets[0].id == '_UNPICKABLE_FIELDS':
            unp = ast.literal_eval(st.value)
    if not isinstance(unp, (tuple, list)) or not all(isinstance(x, str) for x in unp):
        raise TranslateError('Transfer._UNPICKABLE_FIELDS not found / not a tuple of strings')
    out['unpickable'] = list(unp)

    fields = []
    for st in _body(_method(tr, '__init__')):
        tgt = None
        if isinstance(st, ast.AnnAssign):
            tgt = st.target
        elif isinstance(st, ast.Assign) and len(st.targets) == 1:
            tgt = st.targets[0]
        if tgt is None or not (isinstance(tgt, ast.Attribute) and isinstance(tgt.value, ast.Name) and tgt.value.id == 'self'):
            raise TranslateError(f'Transfer.__init__: unexpected statement {ast.unparse(st)[:80]}')
        fields.append(tgt.attr)
    out['init_fields'] = fields

    for nm in ('is_finalized', 'is_processing', 'is_transferring'):
        out[nm] = _state_set(tr, nm)
        for s in out[nm]:
            if s not in names:
                raise TranslateError(f'Transfer.{nm}: {s} is not a State member')

    body = _body(_method(tr, 'is_transfered'))
    if len(body) != 1 or not isinstance(body[0], ast.Return) or \
            ast.unparse(body[0].value) not in ('self.filesize == self.bytes_transfered',
                                               'self.bytes_transfered == self.filesize'):
        raise TranslateError('Transfer.is_transfered is not `return self.filesize == self.bytes_transfered`')
    return out


def _s(x: str) -> str:
    return '"' + x.replace('\\', '\\\\').replace('"', '\\"') + '"'


def _int(v: int) -> str:
    return f'({v})' if v < 0 else str(v)


def generate(repo: Path, lean_dir: Path) -> str:
    c = extract(repo)
    pairs_i = lambda l: '[' + ', '.join(f'({_s(a)}, {_int(b)})' for a, b in l) + ']'
    pairs_s = lambda l: '[' + ', '.join(f'({_s(a)}, {_s(b)})' for a, b in l) + ']'
    strs = lambda l: '[' + ', '.join(_s(a) for a in l) + ']'
    text = f'''-- GENERATED by translate/cache_constants.py from /repo/src/aioslsk/transfer/{{state,model}}.py — do not edit.
namespace AioslskVerif.Generated.Cache
/-- `TransferState.State` members (name, value), definition order -/
def stateEnum : List (String × Int) := {pairs_i(c['state_enum'])}
/-- `TransferState` subclasses (class, name of its `VALUE`), definition order = `__subclasses__()` order -/
def stateClasses : List (String × String) := {pairs_s(c['state_classes'])}
/-- `TransferDirection` members (name, value) -/
def directionEnum : List (String × Nat) := {pairs_i(c['direction_enum'])}
/-- `AbortReason.REQUESTED` -/
def abortRequested : String := {_s(c['abort_requested'])}
/-- `Transfer._UNPICKABLE_FIELDS` -/
def unpickable : List String := {strs(c['unpickable'])}
/-- attributes assigned by `Transfer.__init__`, in order -/
def initFields : List String := {strs(c['init_fields'])}
/-- state sets of `Transfer.is_finalized` / `is_processing` / `is_transferring` -/
def finalized : List String := {strs(c['is_finalized'])}
def processing : List String := {strs(c['is_processing'])}
def transferring : List String := {strs(c['is_transferring'])}
end AioslskVerif.Generated.Cache
'''
    p = lean_dir / 'AioslskVerif/Generated/CacheConstants.lean'
    if not p.exists() or p.read_text() != text:
        p.write_text(text)
    return str(p.relative_to(lean_dir))


if __name__ == '__main__':
    import sys
    print(generate(Path(sys.argv[1] if len(sys.argv) > 1 else '/repo'), Path(__file__).resolve().parent.parent / 'lean'))
