"""Regenerates lean/AioslskVerif/Generated/DistConstants.lean from constants.py and distributed.py (AST).

Extracted: POTENTIAL_PARENTS_CACHE_SIZE, DEFAULT_PARENT_MIN_SPEED, DEFAULT_PARENT_SPEED_RATIO (constants.py);
the initial `_max_children` / `_accept_children` of `DistributedNetwork.__init__`; the literals of
`_calculate_max_children` (`divider = (ratio / <ratioDiv>) * <speedUnit>; return int(speed / divider)`) and of the
admission threshold `speed < parent_min_speed * <minSpeedUnit>` in `_on_get_user_stats`.
A shape of `_calculate_max_children` the translator does not recognise is probed behaviourally (`_probe_max_children`:
accepted iff it computes `speed * A // (ratio * B)` on a grid over the whole uint32 domain); any other unrecognised
shape raises (never skipped).
"""
import ast
from pathlib import Path


class TranslateError(Exception):
    pass


def _nat(name, v):
    if isinstance(v, bool) or not isinstance(v, int) or v < 0:
        raise TranslateError(f'{name}={v!r} is not a natural number')
    return v


def _self_attr_assign(fn: ast.FunctionDef, attr: str):
    for st in ast.walk(fn):
        tgt = None
        if isinstance(st, ast.AnnAssign):
            tgt, val = st.target, st.value
        elif isinstance(st, ast.Assign) and len(st.targets) == 1:
            tgt, val = st.targets[0], st.value
        if isinstance(tgt, ast.Attribute) and isinstance(tgt.value, ast.Name) and tgt.value.id == 'self' \
                and tgt.attr == attr:
            return ast.literal_eval(val)
    raise TranslateError(f'distributed.py: __init__ does not assign self.{attr} a literal')


def _probe_max_children(repo: Path):
    """`_calculate_max_children` has another shape than `divider = (ratio / A) * B; return int(speed / divider)`:
    call the function of the tree under test (it does not use `self`) and accept it iff it computes
    `speed * A // (ratio * B)` on a grid of (speed, ratio) pairs over the whole uint32 domain — boundaries of every
    small maximum for ratios of all sizes included — for the (A, B) its answers determine. Pairs on which the floor of
    the quotient is a whole number may come out one lower in binary floating point; they are not part of the grid
    (the harness keeps them out of the comparison with the model as well). Anything else raises."""
    import importlib
    import math
    import random
    import sys
    src = str(repo / 'src')
    if src not in sys.path:
        sys.path.insert(0, src)
    mod = importlib.import_module('aioslsk.distributed')
    if Path(mod.__file__).resolve() != (repo / 'src/aioslsk/distributed.py').resolve():
        raise TranslateError(f'aioslsk.distributed was imported from {mod.__file__}, not from the tree under test')
    fn = mod.DistributedNetwork._calculate_max_children

    def f(speed, ratio):
        try:
            v = fn(None, speed, ratio)
        except Exception as e:
            raise TranslateError(f'_calculate_max_children({speed}, {ratio}) raised {e!r}')
        if isinstance(v, bool) or not isinstance(v, int) or v < 0:
            raise TranslateError(f'_calculate_max_children({speed}, {ratio}) = {v!r} is not a natural number')
        return v
    # f(s, 1) = floor(s * A / B): the ratio A / B from a large multiple, then the smallest pair that fits
    big = 2 ** 20 * 3 ** 5 * 5 ** 5 * 7
    q = f(big, 1)
    if q == 0:
        raise TranslateError('_calculate_max_children: cannot determine the literals (f(big, 1) = 0)')
    g = math.gcd(q, big)
    a, b = q // g, big // g
    if a > 10 ** 6 or b > 10 ** 6:
        raise TranslateError(f'_calculate_max_children: not of the form speed * A // (ratio * B) (A/B = {a}/{b})')
    rng = random.Random(13)
    u32 = 2 ** 32 - 1
    ratios = list(range(1, 130)) + [150, 250, 500, 999, 1000, 1001, 65535, 65536, 2 ** 24 + 1, 2 ** 31, u32 - 1, u32]
    ratios += [rng.randint(1, u32) for _ in range(40)] + [rng.randint(100, 100000) for _ in range(40)]
    checked = 0
    for r in ratios:
        speeds = {0, 1, 1023, 1024, 1025, u32, u32 - 1, rng.randint(0, u32), rng.randint(0, 2 ** 20)}
        for k in list(range(0, 12)) + [rng.randint(12, 5000)]:
            lo = -(-k * r * b // a)
            speeds |= {lo - 1, lo, lo + 1}
        for sp in speeds:
            if not 0 <= sp <= u32:
                continue
            want = sp * a // (r * b)
            if (sp * a) % (r * b) == 0 and int(sp / ((r / a) * b)) != want:
                continue                                     # a whole quotient that floating point misses
            got = f(sp, r)
            checked += 1
            if got != want:
                raise TranslateError(f'_calculate_max_children({sp}, {r}) = {got}, floor(speed * {a} / (ratio * {b})) '
                                     f'= {want}: not the shape the model has')
    if checked < 1000:
        raise TranslateError('_calculate_max_children: probe grid too small')
    return a, b


def extract(repo: Path) -> dict:
    out = {}
    ctree = ast.parse((repo / 'src/aioslsk/constants.py').read_text())
    want = {'POTENTIAL_PARENTS_CACHE_SIZE', 'DEFAULT_PARENT_MIN_SPEED', 'DEFAULT_PARENT_SPEED_RATIO'}
    for node in ctree.body:
        tgt = None
        if isinstance(node, ast.AnnAssign) and isinstance(node.target, ast.Name):
            tgt, val = node.target.id, node.value
        elif isinstance(node, ast.Assign) and len(node.targets) == 1 and isinstance(node.targets[0], ast.Name):
            tgt, val = node.targets[0].id, node.value
        if tgt in want:
            out[tgt] = _nat(tgt, ast.literal_eval(val))
    missing = want - set(out)
    if missing:
        raise TranslateError(f'constants.py: cannot find {sorted(missing)}')
    if out['POTENTIAL_PARENTS_CACHE_SIZE'] == 0:
        raise TranslateError('POTENTIAL_PARENTS_CACHE_SIZE is 0')

    dtree = ast.parse((repo / 'src/aioslsk/distributed.py').read_text())
    cls = next((n for n in dtree.body if isinstance(n, ast.ClassDef) and n.name == 'DistributedNetwork'), None)
    if cls is None:
        raise TranslateError('distributed.py: class DistributedNetwork not found')
    fns = {n.name: n for n in cls.body if isinstance(n, (ast.FunctionDef, ast.AsyncFunctionDef))}
    for need in ('__init__', '_calculate_max_children', '_on_get_user_stats'):
        if need not in fns:
            raise TranslateError(f'distributed.py: DistributedNetwork.{need} not found')
    out['INIT_MAX_CHILDREN'] = _nat('_max_children', _self_attr_assign(fns['__init__'], '_max_children'))
    acc = _self_attr_assign(fns['__init__'], '_accept_children')
    if not isinstance(acc, bool):
        raise TranslateError(f'_accept_children initial value {acc!r} is not a bool')
    out['INIT_ACCEPT'] = acc

    # _calculate_max_children: exact shape
    fn = fns['_calculate_max_children']
    body = [s for s in fn.body if not (isinstance(s, ast.Expr) and isinstance(s.value, ast.Constant))]
    args = [a.arg for a in fn.args.args]
    ok = (len(body) == 2 and len(args) == 3 and isinstance(body[0], ast.Assign) and isinstance(body[1], ast.Return))
    if ok:
        speed_arg, ratio_arg = args[1], args[2]
        d = body[0].value            # (ratio / A) * B
        r = body[1].value            # int(speed / divider)
        ok = (isinstance(d, ast.BinOp) and isinstance(d.op, ast.Mult)
              and isinstance(d.left, ast.BinOp) and isinstance(d.left.op, ast.Div)
              and isinstance(d.left.left, ast.Name) and d.left.left.id == ratio_arg
              and isinstance(d.left.right, ast.Constant) and isinstance(d.right, ast.Constant)
              and isinstance(body[0].targets[0], ast.Name)
              and isinstance(r, ast.Call) and isinstance(r.func, ast.Name) and r.func.id == 'int'
              and len(r.args) == 1 and isinstance(r.args[0], ast.BinOp) and isinstance(r.args[0].op, ast.Div)
              and isinstance(r.args[0].left, ast.Name) and r.args[0].left.id == speed_arg
              and isinstance(r.args[0].right, ast.Name) and r.args[0].right.id == body[0].targets[0].id)
    if ok:
        out['RATIO_DIV'] = _nat('ratio divisor', d.left.right.value)
        out['SPEED_UNIT'] = _nat('speed unit', d.right.value)
    else:
        # behavioural fallback: the function was rewritten. It is accepted iff, called on a grid over the whole wire
        # domain, it returns floor(speed * A / (ratio * B)) for one pair of literals (A, B) read off its own answers
        out['RATIO_DIV'], out['SPEED_UNIT'] = _probe_max_children(repo)
    if out['RATIO_DIV'] == 0 or out['SPEED_UNIT'] == 0:
        raise TranslateError('zero literal in _calculate_max_children')

    # admission threshold: `speed < parent_min_speed * K`
    found = []
    for node in ast.walk(fns['_on_get_user_stats']):
        if isinstance(node, ast.Compare) and len(node.ops) == 1 and isinstance(node.ops[0], ast.Lt) \
                and isinstance(node.left, ast.Name) and node.left.id == 'speed':
            c = node.comparators[0]
            if isinstance(c, ast.BinOp) and isinstance(c.op, ast.Mult) and isinstance(c.left, ast.Name) \
                    and c.left.id == 'parent_min_speed' and isinstance(c.right, ast.Constant):
                found.append(c.right.value)
    if len(found) != 1:
        raise TranslateError('distributed.py: `speed < parent_min_speed * K` not found exactly once in '
                             '_on_get_user_stats')
    out['MIN_SPEED_UNIT'] = _nat('min speed unit', found[0])
    return out


def generate(repo: Path, lean_dir: Path) -> str:
    c = extract(repo)
    text = f'''-- GENERATED by translate/dist_constants.py from /repo/src/aioslsk/{{constants,distributed}}.py — do not edit.
namespace AioslskVerif.Generated.Dist
def cacheSize : Nat := {c['POTENTIAL_PARENTS_CACHE_SIZE']}
def defaultMinSpeed : Nat := {c['DEFAULT_PARENT_MIN_SPEED']}
def defaultSpeedRatio : Nat := {c['DEFAULT_PARENT_SPEED_RATIO']}
def initMaxChildren : Nat := {c['INIT_MAX_CHILDREN']}
def initAccept : Bool := {'true' if c['INIT_ACCEPT'] else 'false'}
def ratioDiv : Nat := {c['RATIO_DIV']}
def speedUnit : Nat := {c['SPEED_UNIT']}
def minSpeedUnit : Nat := {c['MIN_SPEED_UNIT']}
end AioslskVerif.Generated.Dist
'''
    p = lean_dir / 'AioslskVerif/Generated/DistConstants.lean'
    if not p.exists() or p.read_text() != text:
        p.write_text(text)
    return str(p.relative_to(lean_dir))
