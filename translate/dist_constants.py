"""Regenerates lean/AioslskVerif/Generated/DistConstants.lean from constants.py and distributed.py (AST).

Extracted: POTENTIAL_PARENTS_CACHE_SIZE, DEFAULT_PARENT_MIN_SPEED, DEFAULT_PARENT_SPEED_RATIO (constants.py);
the initial `_max_children` / `_accept_children` of `DistributedNetwork.__init__`; the literals of
`_calculate_max_children` (`divider = (ratio / <ratioDiv>) * <speedUnit>; return int(speed / divider)`) and of the
admission threshold `speed < parent_min_speed * <minSpeedUnit>` in `_on_get_user_stats`.
A shape the translator does not recognise raises (never skipped).
"""
import ast
from pathlib import Path


class TranslateError(Exception):
    pass


def _nat(name, v):
    if isinstance(v, bool) or not isinstance(v, int) or v < 0:
        raise TranslateError(f'{name}={v!r} is not a natural number')
    return v


def _self_attr_assign(fn: ast.FunctionDef, attr: str):
    for st in ast.walk(fn):
        tgt = None
        if isinstance(st, ast.AnnAssign):
            tgt, val = st.target, st.value
        elif isinstance(st, ast.Assign) and len(st.targets) == 1:
            tgt, val = st.targets[0], st.value
        if isinstance(tgt, ast.Attribute) and isinstance(tgt.value, ast.Name) and tgt.value.id == 'self' \
                and tgt.attr == attr:
            return ast.literal_eval(val)
    raise TranslateError(f'distributed.py: __init__ does not assign self.{attr} a literal')


def extract(repo: Path) -> dict:
    out = {}
    ctree = ast.parse((repo / 'src/aioslsk/constants.py').read_text())
    want = {'POTENTIAL_PARENTS_CACHE_SIZE', 'DEFAULT_PARENT_MIN_SPEED', 'DEFAULT_PARENT_SPEED_RATIO'}
    for node in ctree.body:
        tgt = None
        if isinstance(node, ast.AnnAssign) and isinstance(node.target, ast.Name):
            tgt, val = node.target.id, node.value
        elif isinstance(node, ast.Assign) and len(node.targets) == 1 and isinstance(node.targets[0], ast.Name):
            tgt, val = node.targets[0].id, node.value
        if tgt in want:
            out[tgt] = _nat(tgt, ast.literal_eval(val))
    missing = want - set(out)
    if missing:
        raise TranslateError(f'constants.py: cannot find {sorted(missing)}')
    if out['POTENTIAL_PARENTS_CACHE_SIZE'] == 0:
        raise TranslateError('POTENTIAL_PARENTS_CACHE_SIZE is 0')

    dtree = ast.parse((repo / 'src/aioslsk/distributed.py').read_text())
    cls = next((n for n in dtree.body if isinstance(n, ast.ClassDef) and n.name == 'DistributedNetwork'), None)
    if cls is None:
        raise TranslateError('distributed.py: class DistributedNetwork not found')
    fns = {n.name: n for n in cls.body if isinstance(n, (ast.FunctionDef, ast.AsyncFunctionDef))}
    for need in ('__init__', '_calculate_max_children', '_on_get_user_stats'):
        if need not in fns:
            raise TranslateError(f'distributed.py: DistributedNetwork.{need} not found')
    out['INIT_MAX_CHILDREN'] = _nat('_max_children', _self_attr_assign(fns['__init__'], '_max_children'))
    acc = _self_attr_assign(fns['__init__'], '_accept_children')
    if not isinstance(acc, bool):
        raise TranslateError(f'_accept_children initial value {acc!r} is not a bool')
    out['INIT_ACCEPT'] = acc

    # _calculate_max_children: exact shape
    fn = fns['_calculate_max_children']
    body = [s for s in fn.body if not (isinstance(s, ast.Expr) and isinstance(s.value, ast.Constant))]
    args = [a.arg for a in fn.args.args]
    ok = (len(body) == 2 and len(args) == 3 and isinstance(body[0], ast.Assign) and isinstance(body[1], ast.Return))
    if ok:
        speed_arg, ratio_arg = args[1], args[2]
        d = body[0].value            # (ratio / A) * B
        r = body[1].value            # int(speed / divider)
        ok = (isinstance(d, ast.BinOp) and isinstance(d.op, ast.Mult)
              and isinstance(d.left, ast.BinOp) and isinstance(d.left.op, ast.Div)
              and isinstance(d.left.left, ast.Name) and d.left.left.id == ratio_arg
              and isinstance(d.left.right, ast.Constant) and isinstance(d.right, ast.Constant)
              and isinstance(body[0].targets[0], ast.Name)
              and isinstance(r, ast.Call) and isinstance(r.func, ast.Name) and r.func.id == 'int'
              and len(r.args) == 1 and isinstance(r.args[0], ast.BinOp) and isinstance(r.args[0].op, ast.Div)
              and isinstance(r.args[0].left, ast.Name) and r.args[0].left.id == speed_arg
              and isinstance(r.args[0].right, ast.Name) and r.args[0].right.id == body[0].targets[0].id)
    if not ok:
        raise TranslateError('distributed.py: _calculate_max_children is not '
                             '`divider = (ratio / A) * B; return int(speed / divider)`')
    out['RATIO_DIV'] = _nat('ratio divisor', d.left.right.value)
    out['SPEED_UNIT'] = _nat('speed unit', d.right.value)
    if out['RATIO_DIV'] == 0 or out['SPEED_UNIT'] == 0:
        raise TranslateError('zero literal in _calculate_max_children')

    # admission threshold: `speed < parent_min_speed * K`
    found = []
    for node in ast.walk(fns['_on_get_user_stats']):
        if isinstance(node, ast.Compare) and len(node.ops) == 1 and isinstance(node.ops[0], ast.Lt) \
                and isinstance(node.left, ast.Name) and node.left.id == 'speed':
            c = node.comparators[0]
            if isinstance(c, ast.BinOp) and isinstance(c.op, ast.Mult) and isinstance(c.left, ast.Name) \
                    and c.left.id == 'parent_min_speed' and isinstance(c.right, ast.Constant):
                found.append(c.right.value)
    if len(found) != 1:
        raise TranslateError('distributed.py: `speed < parent_min_speed * K` not found exactly once in '
                             '_on_get_user_stats')
    out['MIN_SPEED_UNIT'] = _nat('min speed unit', found[0])
    return out


def generate(repo: Path, lean_dir: Path) -> str:
    c = extract(repo)
    text = f'''-- GENERATED by translate/dist_constants.py from /repo/src/aioslsk/{{constants,distributed}}.py — do not edit.
namespace AioslskVerif.Generated.Dist
def cacheSize : Nat := {c['POTENTIAL_PARENTS_CACHE_SIZE']}
def defaultMinSpeed : Nat := {c['DEFAULT_PARENT_MIN_SPEED']}
def defaultSpeedRatio : Nat := {c['DEFAULT_PARENT_SPEED_RATIO']}
def initMaxChildren : Nat := {c['INIT_MAX_CHILDREN']}
def initAccept : Bool := {'true' if c['INIT_ACCEPT'] else 'false'}
def ratioDiv : Nat := {c['RATIO_DIV']}
def speedUnit : Nat := {c['SPEED_UNIT']}
def minSpeedUnit : Nat := {c['MIN_SPEED_UNIT']}
end AioslskVerif.Generated.Dist
'''
    p = lean_dir / 'AioslskVerif/Generated/DistConstants.lean'
    if not p.exists() or p.read_text() != text:
        p.write_text(text)
    return str(p.relative_to(lean_dir))
