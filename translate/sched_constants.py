"""Regenerates lean/AioslskVerif/Generated/SchedConstants.lean from
TransferManager._prioritize_uploads (transfer/manager.py) by AST.

Recognised shape (anything else raises, nothing is skipped):

    friends = self._settings.users.friends
    ranking = []
    for upload in uploads:
        user = self._user_manager.get_user_object(upload.username)
        rank = 0
        if user.status in (UserStatus.A, UserStatus.B, ...):   rank += <int>
        if upload.username in friends:                          rank += <int>
        if user.privileged:                                     rank += <int>
        ranking.append((rank, upload))
    ranking.sort(key=itemgetter(0))
    return list(reversed([upload for _, upload in ranking]))
"""
import ast
from pathlib import Path


class TranslateError(Exception):
    pass


def _src(node) -> str:
    return ast.unparse(node)


def _weight(body, what) -> int:
    if len(body) != 1 or not isinstance(body[0], ast.AugAssign):
        raise TranslateError(f'_prioritize_uploads: body of the {what} test is not a single `rank += n`: '
                             f'{[_src(b) for b in body]}')
    st = body[0]
    if not (isinstance(st.op, ast.Add) and isinstance(st.target, ast.Name) and st.target.id == 'rank'
            and isinstance(st.value, ast.Constant) and type(st.value.value) is int and st.value.value >= 0):
        raise TranslateError(f'_prioritize_uploads: unsupported rank update {_src(st)!r}')
    return st.value.value


def extract(repo: Path) -> dict:
    src = (repo / 'src/aioslsk/transfer/manager.py').read_text()
    tree = ast.parse(src)
    fn = None
    for node in ast.walk(tree):
        if isinstance(node, ast.FunctionDef) and node.name == '_prioritize_uploads':
            fn = node
    if fn is None:
        raise TranslateError('manager.py: _prioritize_uploads not found')
    body = [st for st in fn.body
            if not (isinstance(st, ast.Expr) and isinstance(st.value, ast.Constant) and isinstance(st.value.value, str))]
    out: dict = {}
    loops = [st for st in body if isinstance(st, ast.For)]
    if len(loops) != 1:
        raise TranslateError('_prioritize_uploads: expected exactly one for loop')
    loop = loops[0]
    if loop.orelse or _src(loop.target) != 'upload' or _src(loop.iter) != 'uploads':
        raise TranslateError(f'_prioritize_uploads: unexpected loop header {_src(loop.target)} in {_src(loop.iter)}')
    # statements around the loop
    for st in body:
        if st is loop:
            continue
        s = _src(st)
        if s in ('friends = self._settings.users.friends', 'ranking = []'):
            continue
        if s == 'ranking.sort(key=itemgetter(0))':
            out['sorted_ascending'] = True
            continue
        if s == 'return list(reversed([upload for _, upload in ranking]))':
            out['reversed'] = True
            continue
        raise TranslateError(f'_prioritize_uploads: statement not understood: {s!r}')
    if not out.get('sorted_ascending') or not out.get('reversed'):
        raise TranslateError('_prioritize_uploads: expected `ranking.sort(key=itemgetter(0))` and a reversed result')
    # loop body
    for st in loop.body:
        s = _src(st)
        if s in ('user = self._user_manager.get_user_object(upload.username)', 'rank = 0',
                 'ranking.append((rank, upload))'):
            continue
        if isinstance(st, ast.If) and not st.orelse:
            t = st.test
            if (isinstance(t, ast.Compare) and len(t.ops) == 1 and isinstance(t.ops[0], ast.In)
                    and _src(t.left) == 'user.status' and isinstance(t.comparators[0], (ast.Tuple, ast.List, ast.Set))):
                names = []
                for e in t.comparators[0].elts:
                    if not (isinstance(e, ast.Attribute) and _src(e.value) == 'UserStatus'):
                        raise TranslateError(f'_prioritize_uploads: status test element {_src(e)!r}')
                    names.append(e.attr)
                if 'online' in out:
                    raise TranslateError('_prioritize_uploads: two status tests')
                out['online'] = _weight(st.body, 'status')
                out['earners'] = names
                continue
            if (isinstance(t, ast.Compare) and len(t.ops) == 1 and isinstance(t.ops[0], ast.In)
                    and _src(t.left) == 'upload.username' and _src(t.comparators[0]) == 'friends'):
                if 'friend' in out:
                    raise TranslateError('_prioritize_uploads: two friend tests')
                out['friend'] = _weight(st.body, 'friend')
                continue
            if _src(t) == 'user.privileged':
                if 'privileged' in out:
                    raise TranslateError('_prioritize_uploads: two privileged tests')
                out['privileged'] = _weight(st.body, 'privileged')
                continue
        raise TranslateError(f'_prioritize_uploads: loop statement not understood: {s!r}')
    for k in ('online', 'friend', 'privileged', 'earners'):
        if k not in out:
            raise TranslateError(f'_prioritize_uploads: no {k} term found')
    known = {'UNKNOWN', 'OFFLINE', 'AWAY', 'ONLINE'}
    bad = [n for n in out['earners'] if n not in known]
    if bad:
        raise TranslateError(f'_prioritize_uploads: unknown UserStatus member(s) {bad}')
    return out


def generate(repo: Path, lean_dir: Path) -> str:
    c = extract(repo)
    earners = ', '.join(f'"{n}"' for n in c['earners'])
    text = f'''-- GENERATED by translate/sched_constants.py from TransferManager._prioritize_uploads
-- (/repo/src/aioslsk/transfer/manager.py) — do not edit.
namespace AioslskVerif.Generated.Sched
def wOnline : Nat := {c['online']}
def wFriend : Nat := {c['friend']}
def wPrivileged : Nat := {c['privileged']}
/-- `UserStatus` members that earn `wOnline` -/
def onlineEarners : List String := [{earners}]
end AioslskVerif.Generated.Sched
'''
    p = lean_dir / 'AioslskVerif/Generated/SchedConstants.lean'
    if not p.exists() or p.read_text() != text:
        p.write_text(text)
    return str(p.relative_to(lean_dir))


if __name__ == '__main__':
    import sys
    print(generate(Path(sys.argv[1] if len(sys.argv) > 1 else '/repo'), Path(__file__).resolve().parent.parent / 'lean'))
