"""Regenerates lean/AioslskVerif/Generated/SchedConstants.lean from
TransferManager._prioritize_uploads (transfer/manager.py) by AST.

Recognised shape (anything else raises, nothing is skipped):

    friends = self._settings.users.friends
    ranking = []
    for upload in uploads:
        user = self._user_manager.get_user_object(upload.username)
        rank = 0
        if user.status in (UserStatus.A, UserStatus.B, ...):   rank += <int>
        if upload.username in friends:                          rank += <int>
        if user.privileged:                                     rank += <int>
        ranking.append((rank, upload))
    ranking.sort(key=itemgetter(0))
    return list(reversed([upload for _, upload in ranking]))

When the source no longer has this shape (a refactoring: rank helper, `sorted(...)` + `.reverse()`, ...) the constants
are extracted from the BEHAVIOUR of the real function instead (`extract_by_behaviour`): the real
`TransferManager._prioritize_uploads` of the tree under check is called on constructed uploads for every
status x friend x privileged class and every pair order, and weights are accepted only if the model's ranking (additive
rank, stable ascending sort, reversed) orders every pair and a set of longer lists exactly as the real function does.
"""
import ast
from pathlib import Path


class TranslateError(Exception):
    pass


def _src(node) -> str:
    return ast.unparse(node)


def _weight(body, what) -> int:
    if len(body) != 1 or not isinstance(body[0], ast.AugAssign):
        raise TranslateError(f'_prioritize_uploads: body of the {what} test is not a single `rank += n`: '
                             f'{[_src(b) for b in body]}')
    st = body[0]
    if not (isinstance(st.op, ast.Add) and isinstance(st.target, ast.Name) and st.target.id == 'rank'
            and isinstance(st.value, ast.Constant) and type(st.value.value) is int and st.value.value >= 0):
        raise TranslateError(f'_prioritize_uploads: unsupported rank update {_src(st)!r}')
    return st.value.value


def extract(repo: Path) -> dict:
    """By shape if the source has the known shape, else by behaviour; raises when neither applies."""
    try:
        return extract_by_shape(repo)
    except TranslateError as shape_error:
        try:
            out = extract_by_behaviour(repo)
        except TranslateError as e:
            raise TranslateError(f'{shape_error}; and: {e}')
        except Exception as e:  # noqa: BLE001
            raise TranslateError(f'{shape_error}; behavioural probe failed: {e!r}')
        out['how'] = f'behaviour (shape not recognised: {shape_error})'
        return out


STATUSES = ['UNKNOWN', 'OFFLINE', 'AWAY', 'ONLINE']


def _model_prioritize(rank, order: list) -> list:
    """`Sched.prioritize`: stable ascending insertion sort on the rank, reversed"""
    return list(reversed(sorted(order, key=rank)))        # sorted() is stable


def extract_by_behaviour(repo: Path) -> dict:
    import importlib
    import inspect
    import itertools
    import random
    src = repo / 'src/aioslsk/transfer/manager.py'
    mod = importlib.import_module('aioslsk.transfer.manager')
    if Path(inspect.getsourcefile(mod)).resolve() != src.resolve():
        raise TranslateError(f'aioslsk.transfer.manager is imported from {mod.__file__}, not from {src}')
    from aioslsk.events import EventBus
    from aioslsk.settings import Settings
    from aioslsk.transfer.model import Transfer, TransferDirection
    from aioslsk.user.model import User, UserStatus
    TM = getattr(mod, 'TransferManager', None)
    if TM is None or not callable(getattr(TM, '_prioritize_uploads', None)):
        raise TranslateError('TransferManager._prioritize_uploads not found')
    if set(UserStatus.__members__) != set(STATUSES):
        raise TranslateError(f'UserStatus members changed: {sorted(UserStatus.__members__)}')
    classes = [(s, f, p) for s in STATUSES for f in (0, 1) for p in (0, 1)]
    COPIES = 3

    def name(c, j):
        return f'{c[0]}-{c[1]}-{c[2]}-{j}'

    class _Users:
        """every call returns what the user manager would hold for that user"""
        def get_user_object(self, username):
            st, _f, pr, _j = username.split('-')
            return User(name=username, status=UserStatus[st], privileged=pr == '1')

    settings = Settings(credentials={'username': 'me', 'password': 'pw'})
    settings.users.friends = {name(c, j) for c in classes if c[1] for j in range(COPIES)}
    mgr = TM(settings, EventBus(), _Users(), None, None)

    def real(order: list) -> list:
        """order: list of (class, copy); returns the real function's output in the same terms"""
        ups = [Transfer(name(c, j), f'file-{i}', TransferDirection.UPLOAD) for i, (c, j) in enumerate(order)]
        res = mgr._prioritize_uploads(list(ups))
        res = list(res)
        if len(res) != len(ups) or {id(x) for x in res} != {id(x) for x in ups}:
            raise TranslateError('_prioritize_uploads does not return a permutation of its input')
        back = {id(u): o for u, o in zip(ups, order)}
        return [back[id(x)] for x in res]

    # 1. the real order on every pair of classes, both input orders
    cmp: dict = {}
    for a in classes:
        for b in classes:
            x, y = (a, 0), (b, 1)
            r1, r2 = real([x, y]), real([y, x])
            if r1 == [x, y] and r2 == [x, y]:
                cmp[a, b] = 1
            elif r1 == [y, x] and r2 == [y, x]:
                cmp[a, b] = -1
            elif r1 == [y, x] and r2 == [x, y]:
                cmp[a, b] = 0           # a tie: the later one first (stable ascending sort, reversed)
            else:
                raise TranslateError(f'_prioritize_uploads orders equally ranked uploads {a} / {b} input-first: the model\'s '
                                     f'"stable ascending sort, then reverse" does not describe it')
    base = ('UNKNOWN', 0, 0)
    earners = [s for s in STATUSES if cmp[(s, 0, 0), base] == 1]
    if any(cmp[(s, 0, 0), base] == -1 for s in STATUSES):
        raise TranslateError('a status ranks below UNKNOWN: not an additive non-negative status weight')
    # 2. weights: integer literals of manager.py (those of functions that talk about ranks first), then a small grid
    tree = ast.parse(src.read_text())

    def ints(node):
        return {n.value for n in ast.walk(node) if isinstance(n, ast.Constant) and type(n.value) is int and 0 < n.value <= 10**6}
    near = set()
    for fn in ast.walk(tree):
        if isinstance(fn, (ast.FunctionDef, ast.AsyncFunctionDef)):
            if 'rank' in fn.name or 'priorit' in fn.name or any(isinstance(n, ast.Name) and n.id == 'rank' for n in ast.walk(fn)):
                near |= ints(fn)
    pools = [sorted(near), sorted(ints(tree)), list(range(1, 13)) + [20, 50, 100, 200, 1000]]

    def rank_of(w):
        o, f, p = w
        return lambda c: (o if c[0] in earners else 0) + (f if c[1] else 0) + (p if c[2] else 0)

    def fits(w) -> bool:
        r = rank_of(w)
        return all((r(a) > r(b)) - (r(a) < r(b)) == v for (a, b), v in cmp.items())

    found = None
    for pool in pools:
        for w in itertools.product(pool, repeat=3):
            if fits(w):
                found = w
                break
        if found:
            break
    if found is None:
        raise TranslateError('the real order of the 16 user classes is not the order of any additive rank '
                             '(status weight + friend weight + privileged weight) the model can express')
    # 3. the whole function on longer lists (ties, duplicates, every class): model == real
    r = rank_of(found)
    rng = random.Random('sched-constants')
    probes = [[(c, 0) for c in classes] + [(c, 1) for c in classes],
              [(c, 1) for c in reversed(classes)] + [(c, 0) for c in classes]]
    for _ in range(300):
        n = rng.randint(3, 9)
        cand = [(c, j) for c in classes for j in range(COPIES)]
        probes.append(rng.sample(cand, n))
    for order in probes + [[]] + [[(c, 0)] for c in classes[:2]]:
        want = _model_prioritize(lambda e: r(e[0]), order)
        got = real(order)
        if got != want:
            raise TranslateError(f'_prioritize_uploads differs from the model on {order}: real {got}, model {want}')
    return {'online': found[0], 'friend': found[1], 'privileged': found[2], 'earners': earners,
            'sorted_ascending': True, 'reversed': True}


def extract_by_shape(repo: Path) -> dict:
    src = (repo / 'src/aioslsk/transfer/manager.py').read_text()
    tree = ast.parse(src)
    fn = None
    for node in ast.walk(tree):
        if isinstance(node, ast.FunctionDef) and node.name == '_prioritize_uploads':
            fn = node
    if fn is None:
        raise TranslateError('manager.py: _prioritize_uploads not found')
    body = [st for st in fn.body
            if not (isinstance(st, ast.Expr) and isinstance(st.value, ast.Constant) and isinstance(st.value.value, str))]
    out: dict = {}
    loops = [st for st in body if isinstance(st, ast.For)]
    if len(loops) != 1:
        raise TranslateError('_prioritize_uploads: expected exactly one for loop')
    loop = loops[0]
    if loop.orelse or _src(loop.target) != 'upload' or _src(loop.iter) != 'uploads':
        raise TranslateError(f'_prioritize_uploads: unexpected loop header {_src(loop.target)} in {_src(loop.iter)}')
    # statements around the loop
    for st in body:
        if st is loop:
            continue
        s = _src(st)
        if s in ('friends = self._settings.users.friends', 'ranking = []'):
            continue
        if s == 'ranking.sort(key=itemgetter(0))':
            out['sorted_ascending'] = True
            continue
        if s == 'return list(reversed([upload for _, upload in ranking]))':
            out['reversed'] = True
            continue
        raise TranslateError(f'_prioritize_uploads: statement not understood: {s!r}')
    if not out.get('sorted_ascending') or not out.get('reversed'):
        raise TranslateError('_prioritize_uploads: expected `ranking.sort(key=itemgetter(0))` and a reversed result')
    # loop body
    for st in loop.body:
        s = _src(st)
        if s in ('user = self._user_manager.get_user_object(upload.username)', 'rank = 0',
                 'ranking.append((rank, upload))'):
            continue
        if isinstance(st, ast.If) and not st.orelse:
            t = st.test
            if (isinstance(t, ast.Compare) and len(t.ops) == 1 and isinstance(t.ops[0], ast.In)
                    and _src(t.left) == 'user.status' and isinstance(t.comparators[0], (ast.Tuple, ast.List, ast.Set))):
                names = []
                for e in t.comparators[0].elts:
                    if not (isinstance(e, ast.Attribute) and _src(e.value) == 'UserStatus'):
                        raise TranslateError(f'_prioritize_uploads: status test element {_src(e)!r}')
                    names.append(e.attr)
                if 'online' in out:
                    raise TranslateError('_prioritize_uploads: two status tests')
                out['online'] = _weight(st.body, 'status')
                out['earners'] = names
                continue
            if (isinstance(t, ast.Compare) and len(t.ops) == 1 and isinstance(t.ops[0], ast.In)
                    and _src(t.left) == 'upload.username' and _src(t.comparators[0]) == 'friends'):
                if 'friend' in out:
                    raise TranslateError('_prioritize_uploads: two friend tests')
                out['friend'] = _weight(st.body, 'friend')
                continue
            if _src(t) == 'user.privileged':
                if 'privileged' in out:
                    raise TranslateError('_prioritize_uploads: two privileged tests')
                out['privileged'] = _weight(st.body, 'privileged')
                continue
        raise TranslateError(f'_prioritize_uploads: loop statement not understood: {s!r}')
    for k in ('online', 'friend', 'privileged', 'earners'):
        if k not in out:
            raise TranslateError(f'_prioritize_uploads: no {k} term found')
    known = {'UNKNOWN', 'OFFLINE', 'AWAY', 'ONLINE'}
    bad = [n for n in out['earners'] if n not in known]
    if bad:
        raise TranslateError(f'_prioritize_uploads: unknown UserStatus member(s) {bad}')
    return out


def generate(repo: Path, lean_dir: Path) -> str:
    c = extract(repo)
    earners = ', '.join(f'"{n}"' for n in c['earners'])
    how = '' if 'how' not in c else ('-- extracted by ' + ' '.join(c['how'].split())[:400] + '\n')
    text = f'''-- GENERATED by translate/sched_constants.py from TransferManager._prioritize_uploads
-- (/repo/src/aioslsk/transfer/manager.py) — do not edit.
{how}namespace AioslskVerif.Generated.Sched
def wOnline : Nat := {c['online']}
def wFriend : Nat := {c['friend']}
def wPrivileged : Nat := {c['privileged']}
/-- `UserStatus` members that earn `wOnline` -/
def onlineEarners : List String := [{earners}]
end AioslskVerif.Generated.Sched
'''
    p = lean_dir / 'AioslskVerif/Generated/SchedConstants.lean'
    if not p.exists() or p.read_text() != text:
        p.write_text(text)
    return str(p.relative_to(lean_dir))


if __name__ == '__main__':
    import sys
    print(generate(Path(sys.argv[1] if len(sys.argv) > 1 else '/repo'), Path(__file__).resolve().parent.parent / 'lean'))
