"""Regenerates lean/AioslskVerif/Generated/TrackConstants.lean from user/manager.py and user/model.py (AST).

Extracted:
* RETRY_TIMEOUT_NET_ERROR / RETRY_TIMEOUT_NON_EXISTING_USER (module constants, whole seconds);
* the `timeout=` literal of the `wait_for_server_message(AddUser.Response, ...)` call in `_request_tracking`;
* which constant each failure branch of `_request_tracking` returns (send raised / TimeoutError / other
  exception / `not response.exists`) and that the last `return` carries no retry timeout;
* the bit values of `TrackingFlag` members (`auto()` in definition order) and the `TrackingState` member names.
Anything that does not have the expected shape raises TranslateError (never skipped).
"""
import ast
from pathlib import Path


class TranslateError(Exception):
    pass


def _const_name(node) -> str:
    """first element of `return X, "...", y` must be a module constant name or None"""
    if not isinstance(node, ast.Return) or not isinstance(node.value, ast.Tuple) or len(node.value.elts) != 3:
        raise TranslateError(f'_request_tracking: unexpected return shape at line {getattr(node, "lineno", "?")}')
    first = node.value.elts[0]
    if isinstance(first, ast.Name):
        return first.id
    if isinstance(first, ast.Constant) and first.value is None:
        return 'None'
    raise TranslateError(f'_request_tracking: unexpected retry timeout expression at line {node.lineno}')


def _single_return(body) -> ast.Return:
    rets = [n for st in body for n in ast.walk(st) if isinstance(n, ast.Return)]
    if len(rets) != 1:
        raise TranslateError('_request_tracking: handler with != 1 return')
    return rets[0]


def extract(repo: Path) -> dict:
    out: dict = {}
    tree = ast.parse((repo / 'src/aioslsk/user/manager.py').read_text())
    consts = {}
    for node in tree.body:
        if isinstance(node, ast.Assign) and len(node.targets) == 1 and isinstance(node.targets[0], ast.Name) \
                and node.targets[0].id.startswith('RETRY_TIMEOUT_'):
            v = ast.literal_eval(node.value)
            if not isinstance(v, int) or isinstance(v, bool) or v <= 0:
                raise TranslateError(f'{node.targets[0].id}={v!r} is not a positive whole number of seconds')
            consts[node.targets[0].id] = v
    for k in ('RETRY_TIMEOUT_NET_ERROR', 'RETRY_TIMEOUT_NON_EXISTING_USER'):
        if k not in consts:
            raise TranslateError(f'user/manager.py: constant {k} not found')
    out['consts'] = consts

    cls = next((n for n in tree.body if isinstance(n, ast.ClassDef) and n.name == 'UserTrackingManager'), None)
    if cls is None:
        raise TranslateError('class UserTrackingManager not found')
    fn = next((n for n in cls.body if isinstance(n, ast.AsyncFunctionDef) and n.name == '_request_tracking'), None)
    if fn is None:
        raise TranslateError('UserTrackingManager._request_tracking not found')
    body = [st for st in fn.body if not (isinstance(st, ast.Expr) and isinstance(st.value, ast.Constant))]
    # expected: username = ...; try(send) ; try(wait) ; if not response.exists: return ; return
    if len(body) != 5 or not isinstance(body[0], ast.Assign) or not isinstance(body[1], ast.Try) \
            or not isinstance(body[2], ast.Try) or not isinstance(body[3], ast.If) or not isinstance(body[4], ast.Return):
        raise TranslateError('_request_tracking: unexpected statement sequence '
                             + str([type(s).__name__ for s in body]))
    send_try, wait_try, if_st, last = body[1], body[2], body[3], body[4]

    def handler_type(h):
        if h.type is None:
            return 'BaseException'
        if isinstance(h.type, ast.Name):
            return h.type.id
        if isinstance(h.type, ast.Attribute):
            return h.type.attr
        raise TranslateError('_request_tracking: unexpected except clause')

    def has_call(node, attr):
        return any(isinstance(n, ast.Call) and isinstance(n.func, ast.Attribute) and n.func.attr == attr
                   for n in ast.walk(node))

    if not has_call(send_try, 'send_server_messages') or len(send_try.handlers) != 1 \
            or handler_type(send_try.handlers[0]) != 'Exception':
        raise TranslateError('_request_tracking: first try is not `send_server_messages` / except Exception')
    out['delaySendFail'] = _const_name(_single_return(send_try.handlers[0].body))
    if not has_call(wait_try, 'wait_for_server_message') or \
            [handler_type(h) for h in wait_try.handlers] != ['TimeoutError', 'Exception']:
        raise TranslateError('_request_tracking: second try is not `wait_for_server_message` / '
                             'except TimeoutError / except Exception')
    out['delayTimeout'] = _const_name(_single_return(wait_try.handlers[0].body))
    out['delayError'] = _const_name(_single_return(wait_try.handlers[1].body))
    timeout = None
    for n in ast.walk(wait_try):
        if isinstance(n, ast.Call) and isinstance(n.func, ast.Attribute) and n.func.attr == 'wait_for_server_message':
            for kw in n.keywords:
                if kw.arg == 'timeout':
                    timeout = ast.literal_eval(kw.value)
    if not isinstance(timeout, int) or isinstance(timeout, bool) or timeout <= 0:
        raise TranslateError(f'_request_tracking: wait_for_server_message timeout literal not found ({timeout!r})')
    out['responseTimeout'] = timeout
    t = if_st.test
    if not (isinstance(t, ast.UnaryOp) and isinstance(t.op, ast.Not) and isinstance(t.operand, ast.Attribute)
            and t.operand.attr == 'exists') or if_st.orelse:
        raise TranslateError('_request_tracking: expected `if not response.exists:`')
    out['delayNotExists'] = _const_name(_single_return(if_st.body))
    if _const_name(last) != 'None':
        raise TranslateError('_request_tracking: final return carries a retry timeout')
    for k in ('delaySendFail', 'delayTimeout', 'delayError', 'delayNotExists'):
        if out[k] not in consts:
            raise TranslateError(f'_request_tracking: {k} returns {out[k]}, not a RETRY_TIMEOUT_* constant')

    mtree = ast.parse((repo / 'src/aioslsk/user/model.py').read_text())
    flags, states = {}, []
    for node in mtree.body:
        if isinstance(node, ast.ClassDef) and node.name == 'TrackingFlag':
            if [getattr(b, 'id', None) for b in node.bases] != ['Flag']:
                raise TranslateError('TrackingFlag is not a plain enum.Flag')
            nxt = 1
            for st in node.body:
                if isinstance(st, ast.Expr) and isinstance(st.value, ast.Constant):
                    continue
                if not (isinstance(st, ast.Assign) and len(st.targets) == 1 and isinstance(st.targets[0], ast.Name)):
                    raise TranslateError('TrackingFlag: unexpected member statement')
                if isinstance(st.value, ast.Call) and getattr(st.value.func, 'id', None) == 'auto' and not st.value.args:
                    v = nxt
                else:
                    v = ast.literal_eval(st.value)
                    if not isinstance(v, int) or v <= 0 or v & (v - 1):
                        raise TranslateError(f'TrackingFlag.{st.targets[0].id}: not a single bit')
                flags[st.targets[0].id] = v
                nxt = 1
                while nxt <= max(flags.values()):
                    nxt <<= 1
        if isinstance(node, ast.ClassDef) and node.name == 'TrackingState':
            for st in node.body:
                if isinstance(st, ast.Assign) and isinstance(st.targets[0], ast.Name):
                    states.append(st.targets[0].id)
    if sorted(flags) != ['FRIEND', 'REQUESTED', 'TRANSFER'] or len(set(flags.values())) != 3:
        raise TranslateError(f'TrackingFlag members changed: {flags}')
    if sorted(states) != ['RETRY_PENDING', 'TRACKED', 'UNTRACKED']:
        raise TranslateError(f'TrackingState members changed: {states}')
    out['flags'] = flags
    return out


_LEAN_NAME = {'RETRY_TIMEOUT_NET_ERROR': 'retryNetError', 'RETRY_TIMEOUT_NON_EXISTING_USER': 'retryNonExisting'}


def generate(repo: Path, lean_dir: Path) -> str:
    c = extract(repo)
    text = f'''-- GENERATED by translate/track_constants.py from /repo/src/aioslsk/user/{{manager,model}}.py — do not edit.
namespace AioslskVerif.Generated.Track
/-- RETRY_TIMEOUT_NET_ERROR (s) -/
def retryNetError : Nat := {c['consts']['RETRY_TIMEOUT_NET_ERROR']}
/-- RETRY_TIMEOUT_NON_EXISTING_USER (s) -/
def retryNonExisting : Nat := {c['consts']['RETRY_TIMEOUT_NON_EXISTING_USER']}
/-- `timeout=` of the wait for AddUser.Response in `_request_tracking` (s) -/
def responseTimeout : Nat := {c['responseTimeout']}
/-- retry delay returned by each failure branch of `_request_tracking` -/
def delaySendFail : Nat := {_LEAN_NAME[c['delaySendFail']]}
def delayTimeout : Nat := {_LEAN_NAME[c['delayTimeout']]}
def delayError : Nat := {_LEAN_NAME[c['delayError']]}
def delayNotExists : Nat := {_LEAN_NAME[c['delayNotExists']]}
/-- bit values of TrackingFlag -/
def flagRequested : Nat := {c['flags']['REQUESTED']}
def flagTransfer : Nat := {c['flags']['TRANSFER']}
def flagFriend : Nat := {c['flags']['FRIEND']}
end AioslskVerif.Generated.Track
'''
    p = lean_dir / 'AioslskVerif/Generated/TrackConstants.lean'
    if not p.exists() or p.read_text() != text:
        p.write_text(text)
    return str(p.relative_to(lean_dir))
