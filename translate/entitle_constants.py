"""Regenerates lean/AioslskVerif/Generated/EntitleConstants.lean — the data-like parts of the entitlement
decisions (C08) — from the working tree. Two readings:

* by AST, section by section (exact shapes; a shape that is not recognised is an error of that section, never skipped):

  transfer/manager.py
    _evaluate_aborted_state   the three predicates (constant / flag each one tests) and the ORDER of the
                              `conditions` tuple; the two closing statements
    manage_shares_changed     the states left alone (`not in (COMPLETE, FAILED)`), the loop; whether another shares cycle
                              is asked for when an upload's state lock is held
    _on_peer_transfer_queue   blocking flag + refusal reason; the state answered with CANCELLED; the states queued again
    _on_peer_transfer_request blocking flag + refusal reason; `fail_reason_map`
  search/manager.py  _query_shares_and_reply   blocking flag
  peer.py            _on_peer_shares_request / _on_peer_directory_contents_req   blocking flag
  shares/manager.py  query    whether the excluded phrase is lower-cased before the `in` test
  user/model.py      BlockingFlag values;   transfer/model.py  AbortReason / FailReason strings

* by behaviour (`extract_by_behaviour`): the REAL managers on one bus with a one-file index, every finite domain the
  constants encode enumerated completely (the cycle's decision over state x abort reason x blocked x shared with the state
  methods spied, the two upload handlers and the three reply gates for every single BlockingFlag bit and every state of an
  existing upload).

`extract_checked` = the AST reading where the source has the known shape, CROSS-CHECKED key by key against the behavioural
reading (a disagreement raises); the behavioural reading alone for a section that was rewritten (helpers, comprehensions,
early `continue`s). A real change of a table shows either as a different generated file (the theorems over it are
re-checked) or as an error.
"""
import ast
from pathlib import Path


class TranslateError(Exception):
    pass


def _src(node) -> str:
    return ast.unparse(node)


def _func(tree, name, cls=None):
    found = [n for n in ast.walk(tree) if isinstance(n, (ast.FunctionDef, ast.AsyncFunctionDef)) and n.name == name]
    if len(found) != 1:
        raise TranslateError(f'expected exactly one function {name}, found {len(found)}')
    return found[0]


def _attr_of(node, base: str, what: str) -> str:
    if not (isinstance(node, ast.Attribute) and _src(node.value) == base):
        raise TranslateError(f'{what}: expected {base}.<NAME>, got {_src(node)!r}')
    return node.attr


def _state_tuple(node, what) -> list[str]:
    if not isinstance(node, (ast.Tuple, ast.List, ast.Set)):
        raise TranslateError(f'{what}: expected a tuple of TransferState members, got {_src(node)!r}')
    return [_attr_of(e, 'TransferState', what) for e in node.elts]


def _is_blocked_calls(fn, what) -> list[tuple[ast.Call, str]]:
    out = []
    for n in ast.walk(fn):
        if isinstance(n, ast.Call) and isinstance(n.func, ast.Attribute) and n.func.attr == 'is_blocked':
            if _src(n.func.value) != 'self._settings.users' or len(n.args) != 2 or n.keywords:
                raise TranslateError(f'{what}: unsupported is_blocked call {_src(n)!r}')
            out.append((n, _attr_of(n.args[1], 'BlockingFlag', what)))
    return out


def _one_flag(fn, what, user_expr) -> str:
    calls = _is_blocked_calls(fn, what)
    if len(calls) != 1:
        raise TranslateError(f'{what}: expected exactly one is_blocked test, found {len(calls)}')
    call, flag = calls[0]
    if _src(call.args[0]) != user_expr:
        raise TranslateError(f'{what}: is_blocked is asked about {_src(call.args[0])!r}, expected {user_expr!r}')
    return flag


def _class_consts(tree, cls_name, typ):
    for n in ast.walk(tree):
        if isinstance(n, ast.ClassDef) and n.name == cls_name:
            out = {}
            for st in n.body:
                if isinstance(st, ast.Assign) and len(st.targets) == 1 and isinstance(st.targets[0], ast.Name):
                    if isinstance(st.value, ast.Constant) and type(st.value.value) is typ:
                        out[st.targets[0].id] = st.value.value
            return out
    raise TranslateError(f'class {cls_name} not found')


REASONS = {'REQUESTED': 'requested', 'BLOCKED': 'blocked', 'FILE_NOT_SHARED': 'notShared'}
FAILS = {'CANCELLED': 'cancelled', 'COMPLETE': 'complete', 'QUEUED': 'queued', 'FILE_NOT_SHARED': 'notShared',
         'FILE_READ_ERROR': 'readError'}
STATES = {'VIRGIN': 'virgin', 'QUEUED': 'queued', 'INITIALIZING': 'initializing', 'INCOMPLETE': 'incomplete',
          'DOWNLOADING': 'downloading', 'UPLOADING': 'uploading', 'COMPLETE': 'complete', 'FAILED': 'failed',
          'ABORTED': 'aborted', 'PAUSED': 'paused'}


def _m(table, key, what):
    if key not in table:
        raise TranslateError(f'{what}: {key!r} has no name in the model vocabulary')
    return table[key]



def _phrase_folded_by_behaviour(repo: Path) -> bool:
    """Whether an excluded search phrase is compared case-insensitively — read off the REAL `SharesManager.query` on a
    one-file index: `True` when a phrase excludes the file in any casing, `False` when only its lower-case spelling does
    (the pre-fix behaviour the model also knows); anything else is not one of the two behaviours the model has."""
    import asyncio
    import importlib
    import inspect
    import shutil
    import tempfile
    mod = importlib.import_module('aioslsk.shares.manager')
    src = repo / 'src/aioslsk/shares/manager.py'
    if Path(inspect.getsourcefile(mod)).resolve() != src.resolve():
        raise TranslateError(f'aioslsk.shares.manager is imported from {mod.__file__}, not from {src}')
    from aioslsk.events import EventBus
    from aioslsk.settings import Settings
    tmp = tempfile.mkdtemp(prefix='c08-phrase-')
    try:
        d = Path(tmp) / 'Music'
        (d / 'Live Set').mkdir(parents=True)
        (d / 'Live Set' / 'Abc Def song.mp3').write_bytes(b'x')
        (d / 'Live Set' / 'other song.mp3').write_bytes(b'x')
        mgr = mod.SharesManager(Settings(credentials={'username': 'u', 'password': 'p'}), EventBus(), None)
        loop = asyncio.new_event_loop()
        try:
            sd = mgr.add_shared_directory(str(d))
            loop.run_until_complete(mgr.scan_directory_files(sd))
        finally:
            loop.close()

        def names(phrases):
            res, locked = mgr.query('song', excluded_search_phrases=phrases)
            return sorted(i.filename for i in list(res) + list(locked))
        both, other = ['Abc Def song.mp3', 'other song.mp3'], ['other song.mp3']
        if names(None) != both or names([]) != both or names(['zzz']) != both:
            raise TranslateError('SharesManager.query: the probe index does not answer a plain query as expected')
        lower, upper, mixed = names(['abc def']), names(['ABC DEF']), names(['aBc dEf'])
        if lower == other and upper == other and mixed == other:
            return True
        if lower == other and upper == both and mixed == both:
            return False
        raise TranslateError(f'SharesManager.query: excluded phrases behave like neither model variant '
                             f'(lower {lower}, upper {upper}, mixed {mixed})')
    finally:
        shutil.rmtree(tmp, ignore_errors=True)


def _ast_sections(repo: Path) -> tuple[dict, dict]:
    """The AST reading, section by section: ({key: value}, {section: error}). A section whose source has a shape this walk
    does not know contributes no key and one error; the others are read all the same."""
    out: dict = {}
    errors: dict = {}
    tm = ast.parse((repo / 'src/aioslsk/transfer/manager.py').read_text())

    def section(name):
        def deco(fn):
            part: dict = {}
            try:
                fn(part)
            except TranslateError as e:
                errors[name] = str(e)
            else:
                out.update(part)
            return fn
        return deco

    # ---- _evaluate_aborted_state + manage_shares_changed (one section: the loop gives the table its meaning) --------
    @section('cycle')
    def _cycle(out):
        ev = _func(tm, '_evaluate_aborted_state')
        preds: dict[str, str] = {}
        for st in ev.body:
            if isinstance(st, ast.FunctionDef):
                body = [b for b in st.body if not (isinstance(b, ast.Expr) and isinstance(b.value, ast.Constant))]
                if len(body) != 1 or not isinstance(body[0], ast.Return):
                    raise TranslateError(f'_evaluate_aborted_state: predicate {st.name} is not a single return')
                r = body[0].value
                s = _src(r)
                if (isinstance(r, ast.Compare) and len(r.ops) == 1 and isinstance(r.ops[0], ast.Eq)
                        and _src(r.left) == 'transfer.abort_reason'):
                    out['requested_reason'] = _m(REASONS, _attr_of(r.comparators[0], 'AbortReason', st.name), st.name)
                    preds[st.name] = 'abortRequested'
                elif isinstance(r, ast.Call) and isinstance(r.func, ast.Attribute) and r.func.attr == 'is_blocked':
                    out['eval_flag'] = _one_flag(st, st.name, 'transfer.username')
                    preds[st.name] = 'userBlocked'
                elif s == 'not bool(self._shares_manager.find_shared_item_cache(transfer.remote_path, transfer.username))':
                    preds[st.name] = 'notShared'
                else:
                    raise TranslateError(f'_evaluate_aborted_state: predicate {st.name} not understood: {s!r}')
        conds = None
        tail = []
        for st in ev.body:
            if isinstance(st, ast.Assign) and _src(st.targets[0]) == 'conditions':
                if not isinstance(st.value, ast.Tuple):
                    raise TranslateError('_evaluate_aborted_state: `conditions` is not a tuple')
                conds = []
                for e in st.value.elts:
                    if not (isinstance(e, ast.Tuple) and len(e.elts) == 2 and isinstance(e.elts[0], ast.Name)):
                        raise TranslateError(f'_evaluate_aborted_state: condition entry {_src(e)!r}')
                    if e.elts[0].id not in preds:
                        raise TranslateError(f'_evaluate_aborted_state: unknown predicate {e.elts[0].id!r}')
                    conds.append((preds[e.elts[0].id],
                                  _m(REASONS, _attr_of(e.elts[1], 'AbortReason', 'conditions'), 'conditions')))
            elif not isinstance(st, (ast.FunctionDef, ast.Expr)):
                tail.append(_src(st))
        if conds is None:
            raise TranslateError('_evaluate_aborted_state: `conditions` not found')
        expected_tail = [
            'abort_reason = None',
            'for condition, reason in conditions:\n    if condition(upload):\n        abort_reason = reason\n        break',
            'aborted = upload.state.VALUE == TransferState.ABORTED',
            'should_change = aborted != bool(abort_reason)',
            'return (should_change, abort_reason)',
        ]
        # the same first-match search written as a generator expression
        alt_tail = ['abort_reason = next((reason for condition, reason in conditions if condition(upload)), None)'] + expected_tail[2:]
        if tail != expected_tail and tail != alt_tail:
            raise TranslateError(f'_evaluate_aborted_state: statements after the predicates not understood: {tail!r}')
        if 'requested_reason' not in out or 'eval_flag' not in out:
            raise TranslateError('_evaluate_aborted_state: no predicate on abort_reason / on the block list')
        out['conditions'] = conds

        ms = _func(tm, 'manage_shares_changed')
        skips = [n for n in ast.walk(ms) if isinstance(n, ast.Compare) and len(n.ops) == 1 and isinstance(n.ops[0], ast.NotIn)
                 and _src(n.left) == 'transfer.state.VALUE']
        if len(skips) != 1:
            raise TranslateError('manage_shares_changed: expected one `transfer.state.VALUE not in (...)` filter')
        out['skip_states'] = [_m(STATES, s, 'manage_shares_changed') for s in _state_tuple(skips[0].comparators[0], 'skip')]
        loops = [n for n in ms.body if isinstance(n, ast.For)]
        expected_loop = ('for upload in uploads:\n'
                         '    should_change, abort_reason = self._evaluate_aborted_state(upload)\n'
                         '    if should_change:\n'
                         '        if upload.state.VALUE == TransferState.ABORTED:\n'
                         '            tasks.append(upload.state.queue())\n'
                         '        else:\n'
                         '            tasks.append(upload.state.abort(reason=abort_reason))\n'
                         '    elif abort_reason:\n'
                         '        upload.abort_reason = abort_reason')
        # since 8a6456f the re-queue goes through a helper that first checks that the upload is still listed (C06: removed
        # meanwhile). The C08 model has no `remove`: every upload stays listed, the helper is `upload.state.queue()`.
        guarded_loop = expected_loop.replace('tasks.append(upload.state.queue())', 'tasks.append(self._requeue_if_listed(upload))')
        if len(loops) == 1 and _src(loops[0]) == guarded_loop:
            helper = _func(tm, '_requeue_if_listed')
            body = [b for b in helper.body
                    if not (isinstance(b, ast.Expr) and isinstance(b.value, ast.Constant) and isinstance(b.value.value, str))]
            if not (isinstance(helper, ast.AsyncFunctionDef) and [a.arg for a in helper.args.args] == ['self', 'upload']
                    and len(body) == 1 and isinstance(body[0], ast.If) and not body[0].orelse
                    and _src(body[0].test) in ('any((transfer is upload for transfer in self._transfers))',
                                               'any((transfer is upload for transfer in self.transfers))',
                                               'upload in self._transfers', 'upload in self.transfers')
                    and [_src(b) for b in body[0].body] == ['await upload.state.queue()']):
                raise TranslateError('_requeue_if_listed: not `if <upload still listed>: await upload.state.queue()`: '
                                     + repr(_src(helper)))
        elif len(loops) != 1 or _src(loops[0]) != expected_loop:
            raise TranslateError('manage_shares_changed: loop over the uploads not understood: '
                                 + repr([_src(l) for l in loops]))

    # ---- manage_shares_changed: does it ask for another cycle when it meets a held state lock? ----------
    @section('relook')
    def _relook(out):
        ms = _func(tm, 'manage_shares_changed')
        calls = [n for n in ast.walk(ms) if isinstance(n, ast.Call) and isinstance(n.func, ast.Attribute)
                 and n.func.attr == 'request_management_cycle']
        locked = [n for n in ast.walk(ms) if isinstance(n, ast.Call) and isinstance(n.func, ast.Attribute)
                  and n.func.attr == 'locked']
        if not calls and not locked:
            out['relook_when_locked'] = False
            return
        ifs = [n for n in ms.body if isinstance(n, ast.If)]
        if (len(calls) == 1 and len(locked) == 1 and len(ifs) == 1 and not ifs[0].orelse
                and _src(ifs[0].test) == 'any((transfer.is_upload() and transfer._state_lock.locked() '
                                         'for transfer in self.transfers))'
                and [_src(b) for b in ifs[0].body] == ['self.request_management_cycle(_RequestFlag.SHARES_CHANGE)']):
            out['relook_when_locked'] = True
            return
        raise TranslateError('manage_shares_changed: use of the state locks / request_management_cycle not understood')

    # ---- _on_peer_transfer_queue -------------------------------------------------------------------
    @section('queue')
    def _queue(out):
        pq = _func(tm, '_on_peer_transfer_queue')
        out['queue_flag'] = _one_flag(pq, '_on_peer_transfer_queue', 'username')
        blocked_if = [n for n in ast.walk(pq) if isinstance(n, ast.If) and 'is_blocked' in _src(n.test)]
        if len(blocked_if) != 1 or not isinstance(blocked_if[0].test, ast.Call):
            raise TranslateError('_on_peer_transfer_queue: blocked test not understood')
        rs = [n for n in ast.walk(blocked_if[0]) if isinstance(n, ast.Attribute) and _src(n.value) == 'FailReason']
        if len(rs) != 1 or not isinstance(blocked_if[0].body[-1], ast.Return):
            raise TranslateError('_on_peer_transfer_queue: blocked branch not understood')
        out['queue_blocked_reason'] = _m(FAILS, rs[0].attr, 'queue blocked')
        eqs = [n for n in ast.walk(pq) if isinstance(n, ast.If) and isinstance(n.test, ast.Compare)
               and _src(n.test.left) == 'transfer.state.VALUE']
        if len(eqs) != 2:
            raise TranslateError('_on_peer_transfer_queue: expected the ABORTED test and the requeue test')
        first, second = eqs[0], eqs[1]
        if not (isinstance(first.test.ops[0], ast.Eq) and len(first.body) == 1
                and isinstance(first.body[0], ast.Assign) and _src(first.body[0].targets[0]) == 'fail_reason'
                and first.orelse == [second] and isinstance(second.test.ops[0], ast.In)
                and [_src(b) for b in second.body] == ['await transfer.state.queue()'] and not second.orelse):
            raise TranslateError('_on_peer_transfer_queue: existing-transfer branch not understood')
        out['queue_cancel_state'] = _m(STATES, _attr_of(first.test.comparators[0], 'TransferState', 'queue'), 'queue')
        out['queue_cancel_reason'] = _m(FAILS, _attr_of(first.body[0].value, 'FailReason', 'queue'), 'queue')
        out['requeue_states'] = [_m(STATES, s, 'queue') for s in _state_tuple(second.test.comparators[0], 'requeue')]

    # ---- _on_peer_transfer_request -----------------------------------------------------------------
    @section('request')
    def _request(out):
        pr = _func(tm, '_on_peer_transfer_request')
        out['request_flag'] = _one_flag(pr, '_on_peer_transfer_request', 'username')
        blocked_if = [n for n in ast.walk(pr) if isinstance(n, ast.If) and 'is_blocked' in _src(n.test)]
        if (len(blocked_if) != 1 or _src(blocked_if[0].test) !=
                f'self._settings.users.is_blocked(username, BlockingFlag.{out["request_flag"]}) and '
                'direction == TransferDirection.UPLOAD'):
            raise TranslateError('_on_peer_transfer_request: blocked test not understood')
        rs = [n for n in ast.walk(blocked_if[0]) if isinstance(n, ast.Attribute) and _src(n.value) == 'FailReason']
        if len(rs) != 1 or not isinstance(blocked_if[0].body[-1], ast.Return):
            raise TranslateError('_on_peer_transfer_request: blocked branch not understood')
        out['request_blocked_reason'] = _m(FAILS, rs[0].attr, 'request blocked')
        maps = [n for n in ast.walk(pr) if isinstance(n, ast.Assign) and _src(n.targets[0]) == 'fail_reason_map']
        if len(maps) != 1 or not isinstance(maps[0].value, ast.Dict):
            raise TranslateError('_on_peer_transfer_request: fail_reason_map not found')
        frm = []
        for k, v in zip(maps[0].value.keys, maps[0].value.values):
            frm.append((_m(STATES, _attr_of(k, 'TransferState', 'fail_reason_map'), 'fail_reason_map'),
                        _m(FAILS, _attr_of(v, 'FailReason', 'fail_reason_map'), 'fail_reason_map')))
        if len({k for k, _ in frm}) != len(frm):
            raise TranslateError('fail_reason_map: duplicate key')
        out['fail_reason_map'] = frm

    # ---- other gates ---------------------------------------------------------------------------------
    @section('search')
    def _search(out):
        sm = ast.parse((repo / 'src/aioslsk/search/manager.py').read_text())
        out['search_flag'] = _one_flag(_func(sm, '_query_shares_and_reply'), '_query_shares_and_reply', 'username')

    @section('shares')
    def _shares(out):
        pm = ast.parse((repo / 'src/aioslsk/peer.py').read_text())
        out['shares_flag'] = _one_flag(_func(pm, '_on_peer_shares_request'), '_on_peer_shares_request', 'connection.username')

    @section('directory')
    def _directory(out):
        pm = ast.parse((repo / 'src/aioslsk/peer.py').read_text())
        out['dir_flag'] = _one_flag(_func(pm, '_on_peer_directory_contents_req'), '_on_peer_directory_contents_req',
                                    'connection.username')

    # ---- excluded phrase test ------------------------------------------------------------------------
    @section('phrase')
    def _phrase(out):
        sh = ast.parse((repo / 'src/aioslsk/shares/manager.py').read_text())
        q = _func(sh, 'query')
        loops = [n for n in ast.walk(q) if isinstance(n, ast.For) and _src(n.target) == 'excl_phrase']
        test = _src(loops[0].body[0].test) if (len(loops) == 1 and len(loops[0].body) == 1
                                               and isinstance(loops[0].body[0], ast.If)) else None
        if test == 'excl_phrase.lower() in found_item.get_query_path().lower()':
            out['phrase_folded'] = True
        elif test == 'excl_phrase in found_item.get_query_path().lower()':
            out['phrase_folded'] = False
        else:
            # a rewrite of the loop (a helper, a local for the path, a comprehension): the real code is asked
            raise TranslateError(f'SharesManager.query: excluded-phrase test not understood: {test!r}')

    # ---- constants -----------------------------------------------------------------------------------
    @section('constants')
    def _constants(out):
        um = ast.parse((repo / 'src/aioslsk/user/model.py').read_text())
        out['flag_values'] = _class_consts(um, 'BlockingFlag', int)
        mm = ast.parse((repo / 'src/aioslsk/transfer/model.py').read_text())
        out['abort_consts'] = _class_consts(mm, 'AbortReason', str)
        out['fail_consts'] = _class_consts(mm, 'FailReason', str)

    return out, errors


FLAG_KEYS = ('eval_flag', 'queue_flag', 'request_flag', 'search_flag', 'shares_flag', 'dir_flag')
KEYS = ('requested_reason', 'conditions', 'skip_states', 'queue_blocked_reason', 'queue_cancel_state',
        'queue_cancel_reason', 'requeue_states', 'request_blocked_reason', 'fail_reason_map', 'phrase_folded',
        'relook_when_locked', 'flag_values', 'abort_consts', 'fail_consts') + FLAG_KEYS


def _finish(out: dict) -> dict:
    """flag names -> (name, value); reason strings by model name; the vocabulary checks"""
    out = dict(out)
    flags = out.pop('flag_values')
    for key in FLAG_KEYS:
        name = out[key]
        if name not in flags:
            raise TranslateError(f'BlockingFlag.{name} has no integer value in user/model.py')
        v = flags[name]
        if v <= 0 or v & (v - 1):
            raise TranslateError(f'BlockingFlag.{name} = {v} is not a single bit')
        out[key] = (name, v)
    ar, fr = out.pop('abort_consts'), out.pop('fail_consts')
    if set(ar) != set(REASONS):
        raise TranslateError(f'AbortReason members {sorted(ar)} differ from the model vocabulary')
    if set(fr) != set(FAILS):
        raise TranslateError(f'FailReason members {sorted(fr)} differ from the model vocabulary')
    out['abort_text'] = {REASONS[k]: v for k, v in ar.items()}
    out['fail_text'] = {FAILS[k]: v for k, v in fr.items()}
    # sets / a dict in the source: written in the order of the State enum, however the source spells them
    order = list(STATES.values())
    out['skip_states'] = sorted(out['skip_states'], key=order.index)
    out['requeue_states'] = sorted(out['requeue_states'], key=order.index)
    out['fail_reason_map'] = sorted(out['fail_reason_map'], key=lambda kv: order.index(kv[0]))
    return out


def extract(repo: Path) -> dict:
    """the AST reading alone (raises on the first section it cannot read)"""
    out, errors = _ast_sections(repo)
    if errors:
        raise TranslateError('; '.join(f'[{k}] {v}' for k, v in errors.items()))
    return _finish(out)


# ------------------------------------------------------------------------------------------------
# the same constants read off the RUNNING code
# ------------------------------------------------------------------------------------------------

class _PConn:
    """stands for a peer connection: records what a handler queues / sends on it"""

    def __init__(self, username):
        self.username = username
        self.hostname = '10.0.0.9'
        self.port = 2234
        self.out: list = []

    def queue_message(self, message):
        self.out.append(message)

    async def send_message(self, message):
        self.out.append(message)


class _PNet:
    def __init__(self):
        self.peer: list = []

    async def send_peer_messages(self, username, *messages, **kw):
        for m in messages:
            self.peer.append((username, m))
        return [None for _ in messages]

    async def send_server_messages(self, *messages, **kw):
        return [None for _ in messages]

    def queue_server_messages(self, *messages):
        return []


def _require_tree(repo: Path, *modules):
    import importlib
    import inspect
    for name in modules:
        mod = importlib.import_module(name)
        src = repo / 'src' / (name.replace('.', '/') + '.py')
        if Path(inspect.getsourcefile(mod)).resolve() != src.resolve():
            raise TranslateError(f'{name} is imported from {mod.__file__}, not from {src}')


def _verdict(conds, requested, r, b, n):
    """the model's `verdict` (Model/Entitle.lean): the reason of the first condition that holds"""
    for cond, reason in conds:
        if {'abortRequested': r == requested, 'userBlocked': b, 'notShared': n}[cond]:
            return reason
    return None


def _condition_candidates(table: dict) -> list:
    """every (conditions, requested_reason) whose first-match verdict is the observed decision table
    `table[(reason, blocked, not_shared)] -> reason | None` (model names)"""
    import itertools
    names = ['requested', 'blocked', 'notShared']
    found = []
    for order in itertools.permutations(['abortRequested', 'userBlocked', 'notShared']):
        for rs in itertools.product(names, repeat=3):
            conds = list(zip(order, rs))
            for requested in names:
                if all(_verdict(conds, requested, r, b, n) == v for (r, b, n), v in table.items()):
                    found.append((conds, requested))
    return found


def extract_by_behaviour(repo: Path) -> dict:
    """The constants read off the RUNNING code, independent of how it is written (helpers, comprehensions, early
    `continue`s): every domain below is finite and enumerated completely.

      manage_shares_changed   one real upload per state (10) x abort_reason (none + 3) x user blocked? x file shared?,
                              the state methods it calls (spied on the state objects) and the reasons it assigns -> the
                              decision table; the states in which it calls / assigns nothing at all = skip states; the
                              (conditions, requested reason) are the ones whose first-match verdict IS that table; the
                              calls must be the model's (`queue()` out of ABORTED, `abort(reason=verdict)` otherwise, a
                              plain assignment when only the reason changes) and the uploads must end where those calls
                              lead; the blocking flag = the single bit for which a blocked user's upload is aborted
      the two upload handlers a PeerTransferQueue / PeerTransferRequest delivered on the bus: for a user blocked with each
                              single BlockingFlag bit (refused? with which reason), and for an existing upload of a shared
                              file in each state (reply reason, state method called)
      search / shares / directory gates   the single bit that silences the real handler
      constants               the classes themselves"""
    import asyncio
    import shutil
    import tempfile
    _require_tree(repo, 'aioslsk.transfer.manager', 'aioslsk.transfer.model', 'aioslsk.transfer.state',
                  'aioslsk.search.manager', 'aioslsk.peer', 'aioslsk.shares.manager', 'aioslsk.user.model',
                  'aioslsk.settings')
    tmp = tempfile.mkdtemp(prefix='c08-consts-')
    loop = asyncio.new_event_loop()
    try:
        out = loop.run_until_complete(asyncio.wait_for(_probe(Path(tmp)), 120))
    except asyncio.TimeoutError:
        raise TranslateError('the behavioural probe of the entitlement constants did not finish')
    finally:
        try:
            pending = [t for t in asyncio.all_tasks(loop) if not t.done()]
            for t in pending:
                t.cancel()
            if pending:
                loop.run_until_complete(asyncio.gather(*pending, return_exceptions=True))
        finally:
            loop.close()
            shutil.rmtree(tmp, ignore_errors=True)
    out['phrase_folded'] = _phrase_folded_by_behaviour(repo)
    return out


async def _probe(tmp: Path) -> dict:
    import asyncio
    import logging
    from aioslsk.events import EventBus, MessageReceivedEvent, SessionInitializedEvent
    from aioslsk.peer import PeerManager
    from aioslsk.protocol import messages as M
    from aioslsk.search.manager import SearchManager
    from aioslsk.session import Session
    from aioslsk.settings import Settings
    from aioslsk.shares.manager import SharesManager
    from aioslsk.transfer.manager import TransferManager
    from aioslsk.transfer.model import AbortReason, FailReason, Transfer, TransferDirection
    from aioslsk.transfer.state import TransferState
    from aioslsk.user.model import BlockingFlag, User

    logging.getLogger('aioslsk').setLevel(logging.CRITICAL)
    out: dict = {}

    def consts(cls, typ):
        return {k: v for k, v in vars(cls).items() if not k.startswith('_') and type(v) is typ}
    out['abort_consts'] = consts(AbortReason, str)
    out['fail_consts'] = consts(FailReason, str)
    out['flag_values'] = {k: int(v) for k, v in BlockingFlag.__members__.items()}
    abort_name = {v: _m(REASONS, k, 'AbortReason') for k, v in out['abort_consts'].items()}
    fail_name = {v: _m(FAILS, k, 'FailReason') for k, v in out['fail_consts'].items()}
    if len(abort_name) != len(out['abort_consts']) or len(fail_name) != len(out['fail_consts']):
        raise TranslateError('two AbortReason / FailReason members with one text')
    bits = [f for f in BlockingFlag.__members__.values() if int(f) and not int(f) & (int(f) - 1)]
    bit_name = {}
    for name, f in BlockingFlag.__members__.items():
        if f in bits:
            bit_name.setdefault(int(f), name)
    states = [s for s in TransferState.State if s.name != 'UNSET']
    if {s.name for s in states} != set(STATES):
        raise TranslateError(f'State members {sorted(s.name for s in states)} differ from the model vocabulary')

    class Users:
        def __init__(self):
            self.users: dict = {}

        def get_user_object(self, username):
            return self.users.setdefault(username, User(name=username))

        async def track_user(self, username, flag):
            pass

        async def untrack_user(self, username, flag):
            pass

    d = tmp / 'Music'
    (d / 'Live Set').mkdir(parents=True)
    (d / 'Live Set' / 'probe song.mp3').write_bytes(b'x')
    settings = Settings(credentials={'username': 'me', 'password': 'p'})
    settings.transfers.limits.upload_slots = 0
    bus = EventBus()
    net = _PNet()
    users = Users()
    shares = SharesManager(settings, bus, net)
    sd = shares.add_shared_directory(str(d))
    await shares.scan_directory_files(sd)
    items = list(sd.items)
    if len(items) != 1:
        raise TranslateError(f'the probe directory was indexed as {len(items)} items')
    shared_path = items[0].get_remote_path()
    shared_dir = items[0].get_remote_directory_path()
    unshared_path = shared_path + '.zzz'
    xfer = TransferManager(settings, bus, users, shares, net)
    search = SearchManager(settings, bus, shares, xfer, net)
    peer = PeerManager(settings, bus, users, shares, xfer, net)
    keep = [shares, xfer, search, peer]                  # the bus holds listeners weakly
    session = Session(user=User(name='me'), ip_address='1.2.3.4', greeting='', client_version=1, minor_version=1)
    await bus.emit(SessionInitializedEvent(session, raw_message=None))
    counter = [0]

    def fresh_user():
        counter[0] += 1
        return f'probe{counter[0]}'

    async def drain():
        for _ in range(8):
            await asyncio.sleep(0)

    def spy(t, log):
        st = t.state
        for name in ('abort', 'queue', 'fail', 'pause', 'initialize', 'complete', 'incomplete', 'start_transferring'):
            orig = getattr(st, name)

            async def w(*a, _o=orig, _n=name, **k):
                log.append((_n, tuple(a), tuple(sorted(k.items()))))
                return await _o(*a, **k)
            setattr(st, name, w)

    async def upload(user, path, state, reason):
        t = Transfer(user, path, TransferDirection.UPLOAD)
        t = await xfer.add(t)
        t.state = TransferState.init_from_state(state, t)
        t.abort_reason = reason
        log: list = []
        spy(t, log)
        return t, log

    async def twin_ends(state, reason, calls):
        """where the recorded calls lead a transfer that nothing else touches"""
        t = Transfer('twin', 'twin', TransferDirection.UPLOAD)
        t.state = TransferState.init_from_state(state, t)
        t.abort_reason = reason
        for name, a, k in calls:
            await getattr(t.state, name)(*a, **dict(k))
        return t.state.VALUE.name, t.abort_reason

    if not hasattr(xfer, 'manage_shares_changed'):
        raise TranslateError('TransferManager has no manage_shares_changed')

    # ---- the blocking flag of the cycle --------------------------------------------------------------
    rows = []
    for f in bits:
        u = fresh_user()
        settings.users.blocked[u] = f
        rows.append((f, await upload(u, shared_path, TransferState.QUEUED, None)))
    await xfer.manage_shares_changed()
    await drain()
    hit = [f for f, (t, log) in rows if log or t.state.VALUE != TransferState.QUEUED]
    if len(hit) != 1:
        raise TranslateError(f'manage_shares_changed: the upload of a blocked user is acted upon for the flags '
                             f'{[bit_name[int(f)] for f in hit]} (expected exactly one)')
    eval_flag = hit[0]
    out['eval_flag'] = bit_name[int(eval_flag)]

    # ---- the decision table ----------------------------------------------------------------------------
    reasons = [None] + list(out['abort_consts'].values())
    rows = []
    for s in states:
        for r in reasons:
            for b in (False, True):
                for n in (False, True):
                    u = fresh_user()
                    if b:
                        settings.users.blocked[u] = eval_flag
                    rows.append(((s, r, b, n), await upload(u, unshared_path if n else shared_path, s, r)))
    await xfer.manage_shares_changed()
    await drain()
    per_state: dict = {}
    for (s, r, b, n), (t, log) in rows:
        end = (t.state.VALUE.name, t.abort_reason)
        where = f'manage_shares_changed on an upload {s.name} / {r!r} (blocked {b}, not shared {n})'
        if len(log) > 1 or any(c[0] not in ('abort', 'queue') for c in log):
            raise TranslateError(f'{where}: calls {log}')
        if log:
            name, a, k = log[0]
            if name == 'queue' and (a or k) or name == 'abort' and (a or [x for x, _ in k] != ['reason']):
                raise TranslateError(f'{where}: calls {log}')
            if end != await twin_ends(s, r, log):
                raise TranslateError(f'{where}: called {log} and left the upload {end}')
            act = ('queue',) if name == 'queue' else ('abort', k[0][1])
        elif end == (s.name, r):
            act = ('nothing',)
        elif end[0] == s.name:
            act = ('assign', end[1])
        else:
            raise TranslateError(f'{where}: the upload is {end} without a state method having been called')
        per_state.setdefault(s, {})[(r, b, n)] = act
    skip = [s for s in states if all(a == ('nothing',) for a in per_state[s].values())]
    aborted = TransferState.ABORTED
    tables = {}
    for s in states:
        if s in skip:
            continue
        tab = {}
        for (r, b, n), act in per_state[s].items():
            where = f'manage_shares_changed on an upload {s.name} / {r!r} (blocked {b}, not shared {n})'
            if s == aborted:
                # ABORTED: `queue()` when nothing applies any more, else the reason is (re)assigned
                if act == ('queue',):
                    v = None
                elif act[0] == 'assign' or act == ('nothing',) and r is not None:
                    v = act[1] if act[0] == 'assign' else r
                else:
                    raise TranslateError(f'{where}: {act}')
            else:
                if act == ('nothing',):
                    v = None
                elif act[0] == 'abort' and act[1] is not None:
                    v = act[1]
                else:
                    raise TranslateError(f'{where}: {act}')
            if v is not None and v not in abort_name:
                raise TranslateError(f'{where}: reason {v!r} is not an AbortReason')
            tab[(None if r is None else abort_name[r], b, n)] = None if v is None else abort_name[v]
        tables[s] = tab
    if not tables:
        raise TranslateError('manage_shares_changed acts on no upload at all')
    first = next(iter(tables.values()))
    for s, tab in tables.items():
        if tab != first:
            raise TranslateError(f'manage_shares_changed: the decision for an upload depends on its state ({s.name}) in a '
                                 f'way the model does not have')
    if aborted not in tables:
        raise TranslateError('manage_shares_changed leaves ABORTED uploads alone')
    cands = _condition_candidates(first)
    if not cands:
        raise TranslateError(f'manage_shares_changed: the decision table is not a first-match search over the three '
                             f'conditions: {first}')
    out['condition_candidates'] = cands
    out['conditions'], out['requested_reason'] = cands[0]
    out['skip_states'] = [STATES[s.name] for s in skip]

    # ---- a held state lock: is another shares cycle asked for? ------------------------------------------
    class Gate:
        """a state listener that keeps the NEXT transition (and with it the transfer's state lock) waiting"""
        def __init__(self):
            self.fut = None

        async def on_transfer_state_changed(self, transfer, old, new):
            fut, self.fut = self.fut, None
            if fut is not None:
                await fut
    asked: list = []
    real_request = xfer.request_management_cycle

    def spying_request(flag, *a, **k):
        asked.append(getattr(flag, 'name', None) or str(flag))
        return real_request(flag, *a, **k)
    xfer.request_management_cycle = spying_request
    try:
        await xfer.manage_shares_changed()
        await drain()
        if any('SHARES' in str(f) for f in asked):
            raise TranslateError('manage_shares_changed asks for another shares cycle although no state lock is held')
        t, log = await upload(fresh_user(), shared_path, TransferState.QUEUED, None)
        gate = Gate()
        t.state_listeners.append(gate)
        gate.fut = asyncio.get_running_loop().create_future()
        fut = gate.fut
        pausing = asyncio.ensure_future(t.state.pause())
        await drain()
        if pausing.done() or t.state.VALUE != TransferState.PAUSED:
            raise TranslateError('the probe could not keep a transition (and the state lock) waiting in a state listener')
        del asked[:]
        job = asyncio.ensure_future(xfer.manage_shares_changed())
        await drain()
        relook = any('SHARES' in str(f) for f in asked)
        fut.set_result(None)
        await asyncio.wait_for(asyncio.gather(pausing, job), 30)
        if any('SHARES' in str(f) for f in asked) != relook:
            raise TranslateError('manage_shares_changed asks for another shares cycle only after the state lock was released '
                                 '(the model has: at the moment it looks, or never)')
        out['relook_when_locked'] = relook
    finally:
        del xfer.request_management_cycle

    # ---- the two upload handlers ---------------------------------------------------------------------
    ticket = [500]

    async def ask(kind, user, path):
        c = _PConn(user)
        ticket[0] += 1
        if kind == 'queue':
            msg = M.PeerTransferQueue.Request(path)
        else:
            msg = M.PeerTransferRequest.Request(TransferDirection.UPLOAD.value, ticket[0], path)
        await bus.emit(MessageReceivedEvent(message=msg, connection=c))
        await drain()
        want = M.PeerTransferQueueFailed.Request if kind == 'queue' else M.PeerTransferReply.Request
        if any(not isinstance(m, want) for m in c.out) or len(c.out) > 1:
            raise TranslateError(f'{kind} handler: answered with {c.out!r}')
        if not c.out:
            return None
        m = c.out[0]
        if kind == 'queue' and m.filename != path or kind != 'queue' and (m.ticket != ticket[0] or m.allowed):
            raise TranslateError(f'{kind} handler: answered with {m!r}')
        if m.reason not in fail_name:
            raise TranslateError(f'{kind} handler: reason {m.reason!r} is not a FailReason')
        return fail_name[m.reason]

    def find(user, path):
        return [t for t in xfer.transfers if t.username == user and t.remote_path == path and t.is_upload()]

    for kind, kflag, kreason in (('queue', 'queue_flag', 'queue_blocked_reason'),
                                 ('request', 'request_flag', 'request_blocked_reason')):
        refusing = []
        for f in bits:
            u = fresh_user()
            settings.users.blocked[u] = f
            reply = await ask(kind, u, shared_path)
            created = find(u, shared_path)
            if created and created[0].state.VALUE != TransferState.QUEUED:
                raise TranslateError(f'{kind} handler: a new upload is left {created[0].state.VALUE.name}')
            if not created:
                if reply is None:
                    raise TranslateError(f'{kind} handler: a user blocked with {bit_name[int(f)]} gets no upload and no answer')
                refusing.append((f, reply))
            elif reply != (None if kind == 'queue' else 'queued'):
                raise TranslateError(f'{kind} handler: upload created and answered {reply}')
        if len(refusing) != 1:
            raise TranslateError(f'{kind} handler: refuses users blocked with {[bit_name[int(f)] for f, _ in refusing]} '
                                 f'(expected exactly one flag)')
        out[kflag] = bit_name[int(refusing[0][0])]
        out[kreason] = refusing[0][1]
        per = {}
        for s in states:
            u = fresh_user()
            t, log = await upload(u, shared_path, s, None)
            reply = await ask(kind, u, shared_path)
            if len(log) > 1 or any(c != ('queue', (), ()) for c in log):
                raise TranslateError(f'{kind} handler on an existing {s.name} upload of a shared file: calls {log}')
            if (t.state.VALUE.name, t.abort_reason) != await twin_ends(s, None, log):
                raise TranslateError(f'{kind} handler on an existing {s.name} upload: called {log}, left it '
                                     f'{t.state.VALUE.name}')
            if log and reply is not None:
                raise TranslateError(f'{kind} handler on an existing {s.name} upload: queues it again AND answers {reply}')
            per[s] = ('queue',) if log else ('reply', reply) if reply is not None else ('nothing',)
        if kind == 'queue':
            cancel = [(s, a[1]) for s, a in per.items() if a[0] == 'reply']
            if len(cancel) != 1:
                raise TranslateError(f'queue handler: existing uploads are answered with a failure in '
                                     f'{[s.name for s, _ in cancel]} (the model has exactly one such state)')
            out['queue_cancel_state'] = STATES[cancel[0][0].name]
            out['queue_cancel_reason'] = cancel[0][1]
            out['requeue_states'] = [STATES[s.name] for s, a in per.items() if a == ('queue',)]
        else:
            if any(a == ('queue',) for a in per.values()):
                raise TranslateError(f'request handler: queues existing uploads again in '
                                     f'{[s.name for s, a in per.items() if a == ("queue",)]}')
            out['fail_reason_map'] = [(STATES[s.name], a[1]) for s, a in per.items() if a[0] == 'reply']

    # ---- search / shares / directory gates ---------------------------------------------------------------
    async def search_reply(user):
        before = len(net.peer)
        ticket[0] += 1
        await bus.emit(MessageReceivedEvent(message=M.FileSearch.Response(user, ticket[0], 'probe song'), connection=None))
        await drain()
        return [m for to, m in net.peer[before:] if to == user and isinstance(m, M.PeerSearchReply.Request)]

    async def shares_reply(user):
        c = _PConn(user)
        await bus.emit(MessageReceivedEvent(message=M.PeerSharesRequest.Request(), connection=c))
        await drain()
        return [m for m in c.out if isinstance(m, M.PeerSharesReply.Request)]

    async def dir_reply(user):
        c = _PConn(user)
        ticket[0] += 1
        await bus.emit(MessageReceivedEvent(message=M.PeerDirectoryContentsRequest.Request(ticket[0], shared_dir),
                                            connection=c))
        await drain()
        return [m for m in c.out if isinstance(m, M.PeerDirectoryContentsReply.Request)]

    for key, what, fn in (('search_flag', 'search', search_reply), ('shares_flag', 'shares', shares_reply),
                          ('dir_flag', 'directory', dir_reply)):
        if len(await fn(fresh_user())) != 1:
            raise TranslateError(f'{what} gate: a user who is not blocked gets no reply from the probe rig')
        silent = []
        for f in bits:
            u = fresh_user()
            settings.users.blocked[u] = f
            if not await fn(u):
                silent.append(f)
        if len(silent) != 1:
            raise TranslateError(f'{what} gate: silent for users blocked with {[bit_name[int(f)] for f in silent]} '
                                 f'(expected exactly one flag)')
        out[key] = bit_name[int(silent[0])]
    del keep
    return out


def _agree(key, a, b, beh) -> bool:
    if key == 'conditions':
        return a in [c for c, _ in beh['condition_candidates']]
    if key == 'requested_reason':
        return a in [r for _, r in beh['condition_candidates']]
    if key in ('skip_states', 'requeue_states'):
        return sorted(a) == sorted(b) and len(set(a)) == len(a)
    if key == 'fail_reason_map':
        return dict(a) == dict(b)
    if key == 'flag_values':
        return all(a.get(k) == v for k, v in b.items() if k in a) and set(a) <= set(b)
    return a == b


def extract_checked(repo: Path) -> dict:
    """AST reading cross-checked against the behavioural reading, key by key; for a section whose source has a shape the
    AST walk does not know (a refactoring) the behavioural reading alone — provided the running code is the tree under
    test. The two readings disagreeing is an error (never resolved silently)."""
    a, errors = _ast_sections(repo)
    try:
        beh = extract_by_behaviour(repo)
    except TranslateError as e:
        if 'is imported from' in str(e) and not errors:
            return _finish(a)                  # the tree under test is not the importable one: AST reading only
        shape = '; '.join(f'[{k}] {v}' for k, v in errors.items())
        raise TranslateError(f'{shape + "; and " if shape else ""}the behavioural reading failed: {e}')
    except Exception as e:  # noqa: BLE001
        shape = '; '.join(f'[{k}] {v}' for k, v in errors.items())
        raise TranslateError(f'{shape + "; and " if shape else ""}the behavioural reading failed: {e!r}')
    out = {}
    for key in KEYS:
        if key in a:
            if not _agree(key, a[key], beh[key], beh):
                raise TranslateError(f'AST and behavioural reading disagree on {key}: {a[key]!r} vs '
                                     f'{beh["condition_candidates"] if key in ("conditions", "requested_reason") else beh[key]!r}')
            out[key] = a[key]
        else:
            out[key] = beh[key]
    if ('conditions' in a) != ('requested_reason' in a) or \
            (out['conditions'], out['requested_reason']) not in beh['condition_candidates']:
        raise TranslateError(f'conditions {out["conditions"]} / requested reason {out["requested_reason"]} are not a reading '
                             f'of the observed decision table')
    return _finish(out)


def _lean_list(items) -> str:
    return '[' + ', '.join(items) + ']'


def generate(repo: Path, lean_dir: Path) -> str:
    c = extract_checked(repo)
    conds = _lean_list(f'(.{p}, .{r})' for p, r in c['conditions'])
    frm = '\n'.join(f'  | .{s} => some .{r}' for s, r in c['fail_reason_map'])
    at = '\n'.join(f'  | .{k} => "{v}"' for k, v in sorted(c['abort_text'].items()))
    ft = '\n'.join(f'  | .{k} => "{v}"' for k, v in sorted(c['fail_text'].items()))

    wild = '' if len(c['fail_reason_map']) >= len(STATES) else '\n  | _ => none'
    gates = _lean_list(f'("{g}", "{c[k][0]}", {c[k][1]})' for g, k in (
        ('evaluate', 'eval_flag'), ('queue', 'queue_flag'), ('request', 'request_flag'), ('search', 'search_flag'),
        ('shares', 'shares_flag'), ('directory', 'dir_flag')))

    def flag(key):
        return f'{c[key][1]}  -- BlockingFlag.{c[key][0]}'
    text = f'''-- GENERATED by translate/entitle_constants.py from /repo/src/aioslsk/{{transfer/manager.py, search/manager.py,
-- peer.py, shares/manager.py, user/model.py, transfer/model.py}} — do not edit.
import AioslskVerif.Model.TransferBase
import AioslskVerif.Model.EntitleBase
namespace AioslskVerif.Generated.Entitle
open AioslskVerif.Transfer AioslskVerif.Entitle

/-- `conditions` of `_evaluate_aborted_state`, in source order (first match wins) -/
def conditions : List (Cond × Reason) := {conds}
/-- the constant `_is_abort_requested` compares `abort_reason` with -/
def requestedReason : Reason := .{c['requested_reason']}
/-- uploads in these states are left alone by `manage_shares_changed` -/
def skipStates : List St := {_lean_list('.' + s for s in c['skip_states'])}
/-- `_on_peer_transfer_queue`, existing upload, file shared: answered with a failure in this state -/
def queueCancelState : St := .{c['queue_cancel_state']}
def queueCancelReason : FailR := .{c['queue_cancel_reason']}
/-- … and queued again in these states -/
def requeueStates : List St := {_lean_list('.' + s for s in c['requeue_states'])}
/-- `fail_reason_map` of `_on_peer_transfer_request` -/
def failReasonMap : St → Option FailR
{frm}{wild}
/-- reason sent to a user blocked for uploads -/
def queueBlockedReason : FailR := .{c['queue_blocked_reason']}
def requestBlockedReason : FailR := .{c['request_blocked_reason']}
/-- the blocking flag tested at each gate (bit value) -/
def evalFlag : Nat := {flag('eval_flag')}
def queueFlag : Nat := {flag('queue_flag')}
def requestFlag : Nat := {flag('request_flag')}
def searchFlag : Nat := {flag('search_flag')}
def sharesFlag : Nat := {flag('shares_flag')}
def dirFlag : Nat := {flag('dir_flag')}
/-- (gate, BlockingFlag member, value) as read from the source -/
def gateFlags : List (String × String × Nat) := {gates}
/-- `SharesManager.query`: is the excluded phrase lower-cased before `in path.lower()`? -/
def phraseFolded : Bool := {'true' if c['phrase_folded'] else 'false'}
/-- `manage_shares_changed`: does it ask for another shares cycle when it meets an upload whose state lock is held? -/
def relookWhenLocked : Bool := {'true' if c['relook_when_locked'] else 'false'}
/-- `AbortReason` strings -/
def abortText : Reason → String
{at}
/-- `FailReason` strings -/
def failText : FailR → String
{ft}
end AioslskVerif.Generated.Entitle
'''
    p = lean_dir / 'AioslskVerif/Generated/EntitleConstants.lean'
    if not p.exists() or p.read_text() != text:
        p.write_text(text)
    return str(p.relative_to(lean_dir))


if __name__ == '__main__':
    import sys
    print(generate(Path(sys.argv[1] if len(sys.argv) > 1 else '/repo'), Path(__file__).resolve().parent.parent / 'lean'))
