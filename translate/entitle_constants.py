"""Regenerates lean/AioslskVerif/Generated/EntitleConstants.lean — the data-like parts of the entitlement
decisions (C08) — from the working tree by AST. Anything not recognised raises (never skipped).

  transfer/manager.py
    _evaluate_aborted_state   the three predicates (constant / flag each one tests) and the ORDER of the
                              `conditions` tuple; the two closing statements
    manage_shares_changed     the states left alone (`not in (COMPLETE, FAILED)`)
    _on_peer_transfer_queue   blocking flag + refusal reason; the state answered with CANCELLED; the states queued again
    _on_peer_transfer_request blocking flag + refusal reason; `fail_reason_map`
  search/manager.py  _query_shares_and_reply   blocking flag
  peer.py            _on_peer_shares_request / _on_peer_directory_contents_req   blocking flag
  shares/manager.py  query    whether the excluded phrase is lower-cased before the `in` test
  user/model.py      BlockingFlag values;   transfer/model.py  AbortReason / FailReason strings
"""
import ast
from pathlib import Path


class TranslateError(Exception):
    pass


def _src(node) -> str:
    return ast.unparse(node)


def _func(tree, name, cls=None):
    found = [n for n in ast.walk(tree) if isinstance(n, (ast.FunctionDef, ast.AsyncFunctionDef)) and n.name == name]
    if len(found) != 1:
        raise TranslateError(f'expected exactly one function {name}, found {len(found)}')
    return found[0]


def _attr_of(node, base: str, what: str) -> str:
    if not (isinstance(node, ast.Attribute) and _src(node.value) == base):
        raise TranslateError(f'{what}: expected {base}.<NAME>, got {_src(node)!r}')
    return node.attr


def _state_tuple(node, what) -> list[str]:
    if not isinstance(node, (ast.Tuple, ast.List, ast.Set)):
        raise TranslateError(f'{what}: expected a tuple of TransferState members, got {_src(node)!r}')
    return [_attr_of(e, 'TransferState', what) for e in node.elts]


def _is_blocked_calls(fn, what) -> list[tuple[ast.Call, str]]:
    out = []
    for n in ast.walk(fn):
        if isinstance(n, ast.Call) and isinstance(n.func, ast.Attribute) and n.func.attr == 'is_blocked':
            if _src(n.func.value) != 'self._settings.users' or len(n.args) != 2 or n.keywords:
                raise TranslateError(f'{what}: unsupported is_blocked call {_src(n)!r}')
            out.append((n, _attr_of(n.args[1], 'BlockingFlag', what)))
    return out


def _one_flag(fn, what, user_expr) -> str:
    calls = _is_blocked_calls(fn, what)
    if len(calls) != 1:
        raise TranslateError(f'{what}: expected exactly one is_blocked test, found {len(calls)}')
    call, flag = calls[0]
    if _src(call.args[0]) != user_expr:
        raise TranslateError(f'{what}: is_blocked is asked about {_src(call.args[0])!r}, expected {user_expr!r}')
    return flag


def _class_consts(tree, cls_name, typ):
    for n in ast.walk(tree):
        if isinstance(n, ast.ClassDef) and n.name == cls_name:
            out = {}
            for st in n.body:
                if isinstance(st, ast.Assign) and len(st.targets) == 1 and isinstance(st.targets[0], ast.Name):
                    if isinstance(st.value, ast.Constant) and type(st.value.value) is typ:
                        out[st.targets[0].id] = st.value.value
            return out
    raise TranslateError(f'class {cls_name} not found')


REASONS = {'REQUESTED': 'requested', 'BLOCKED': 'blocked', 'FILE_NOT_SHARED': 'notShared'}
FAILS = {'CANCELLED': 'cancelled', 'COMPLETE': 'complete', 'QUEUED': 'queued', 'FILE_NOT_SHARED': 'notShared',
         'FILE_READ_ERROR': 'readError'}
STATES = {'VIRGIN': 'virgin', 'QUEUED': 'queued', 'INITIALIZING': 'initializing', 'INCOMPLETE': 'incomplete',
          'DOWNLOADING': 'downloading', 'UPLOADING': 'uploading', 'COMPLETE': 'complete', 'FAILED': 'failed',
          'ABORTED': 'aborted', 'PAUSED': 'paused'}


def _m(table, key, what):
    if key not in table:
        raise TranslateError(f'{what}: {key!r} has no name in the model vocabulary')
    return table[key]



def _phrase_folded_by_behaviour(repo: Path) -> bool:
    """Whether an excluded search phrase is compared case-insensitively — read off the REAL `SharesManager.query` on a
    one-file index: `True` when a phrase excludes the file in any casing, `False` when only its lower-case spelling does
    (the pre-fix behaviour the model also knows); anything else is not one of the two behaviours the model has."""
    import asyncio
    import importlib
    import inspect
    import shutil
    import tempfile
    mod = importlib.import_module('aioslsk.shares.manager')
    src = repo / 'src/aioslsk/shares/manager.py'
    if Path(inspect.getsourcefile(mod)).resolve() != src.resolve():
        raise TranslateError(f'aioslsk.shares.manager is imported from {mod.__file__}, not from {src}')
    from aioslsk.events import EventBus
    from aioslsk.settings import Settings
    tmp = tempfile.mkdtemp(prefix='c08-phrase-')
    try:
        d = Path(tmp) / 'Music'
        (d / 'Live Set').mkdir(parents=True)
        (d / 'Live Set' / 'Abc Def song.mp3').write_bytes(b'x')
        (d / 'Live Set' / 'other song.mp3').write_bytes(b'x')
        mgr = mod.SharesManager(Settings(credentials={'username': 'u', 'password': 'p'}), EventBus(), None)
        loop = asyncio.new_event_loop()
        try:
            sd = mgr.add_shared_directory(str(d))
            loop.run_until_complete(mgr.scan_directory_files(sd))
        finally:
            loop.close()

        def names(phrases):
            res, locked = mgr.query('song', excluded_search_phrases=phrases)
            return sorted(i.filename for i in list(res) + list(locked))
        both, other = ['Abc Def song.mp3', 'other song.mp3'], ['other song.mp3']
        if names(None) != both or names([]) != both or names(['zzz']) != both:
            raise TranslateError('SharesManager.query: the probe index does not answer a plain query as expected')
        lower, upper, mixed = names(['abc def']), names(['ABC DEF']), names(['aBc dEf'])
        if lower == other and upper == other and mixed == other:
            return True
        if lower == other and upper == both and mixed == both:
            return False
        raise TranslateError(f'SharesManager.query: excluded phrases behave like neither model variant '
                             f'(lower {lower}, upper {upper}, mixed {mixed})')
    finally:
        shutil.rmtree(tmp, ignore_errors=True)


def extract(repo: Path) -> dict:
    out: dict = {}
    tm = ast.parse((repo / 'src/aioslsk/transfer/manager.py').read_text())

    # ---- _evaluate_aborted_state -------------------------------------------------------------------
    ev = _func(tm, '_evaluate_aborted_state')
    preds: dict[str, str] = {}
    for st in ev.body:
        if isinstance(st, ast.FunctionDef):
            body = [b for b in st.body if not (isinstance(b, ast.Expr) and isinstance(b.value, ast.Constant))]
            if len(body) != 1 or not isinstance(body[0], ast.Return):
                raise TranslateError(f'_evaluate_aborted_state: predicate {st.name} is not a single return')
            r = body[0].value
            s = _src(r)
            if (isinstance(r, ast.Compare) and len(r.ops) == 1 and isinstance(r.ops[0], ast.Eq)
                    and _src(r.left) == 'transfer.abort_reason'):
                out['requested_reason'] = _m(REASONS, _attr_of(r.comparators[0], 'AbortReason', st.name), st.name)
                preds[st.name] = 'abortRequested'
            elif isinstance(r, ast.Call) and isinstance(r.func, ast.Attribute) and r.func.attr == 'is_blocked':
                out['eval_flag'] = _one_flag(st, st.name, 'transfer.username')
                preds[st.name] = 'userBlocked'
            elif s == 'not bool(self._shares_manager.find_shared_item_cache(transfer.remote_path, transfer.username))':
                preds[st.name] = 'notShared'
            else:
                raise TranslateError(f'_evaluate_aborted_state: predicate {st.name} not understood: {s!r}')
    conds = None
    tail = []
    for st in ev.body:
        if isinstance(st, ast.Assign) and _src(st.targets[0]) == 'conditions':
            if not isinstance(st.value, ast.Tuple):
                raise TranslateError('_evaluate_aborted_state: `conditions` is not a tuple')
            conds = []
            for e in st.value.elts:
                if not (isinstance(e, ast.Tuple) and len(e.elts) == 2 and isinstance(e.elts[0], ast.Name)):
                    raise TranslateError(f'_evaluate_aborted_state: condition entry {_src(e)!r}')
                if e.elts[0].id not in preds:
                    raise TranslateError(f'_evaluate_aborted_state: unknown predicate {e.elts[0].id!r}')
                conds.append((preds[e.elts[0].id],
                              _m(REASONS, _attr_of(e.elts[1], 'AbortReason', 'conditions'), 'conditions')))
        elif not isinstance(st, (ast.FunctionDef, ast.Expr)):
            tail.append(_src(st))
    if conds is None:
        raise TranslateError('_evaluate_aborted_state: `conditions` not found')
    expected_tail = [
        'abort_reason = None',
        'for condition, reason in conditions:\n    if condition(upload):\n        abort_reason = reason\n        break',
        'aborted = upload.state.VALUE == TransferState.ABORTED',
        'should_change = aborted != bool(abort_reason)',
        'return (should_change, abort_reason)',
    ]
    # the same first-match search written as a generator expression
    alt_tail = ['abort_reason = next((reason for condition, reason in conditions if condition(upload)), None)'] + expected_tail[2:]
    if tail != expected_tail and tail != alt_tail:
        raise TranslateError(f'_evaluate_aborted_state: statements after the predicates not understood: {tail!r}')
    out['conditions'] = conds

    # ---- manage_shares_changed ---------------------------------------------------------------------
    ms = _func(tm, 'manage_shares_changed')
    skips = [n for n in ast.walk(ms) if isinstance(n, ast.Compare) and len(n.ops) == 1 and isinstance(n.ops[0], ast.NotIn)
             and _src(n.left) == 'transfer.state.VALUE']
    if len(skips) != 1:
        raise TranslateError('manage_shares_changed: expected one `transfer.state.VALUE not in (...)` filter')
    out['skip_states'] = [_m(STATES, s, 'manage_shares_changed') for s in _state_tuple(skips[0].comparators[0], 'skip')]
    loops = [n for n in ms.body if isinstance(n, ast.For)]
    expected_loop = ('for upload in uploads:\n'
                     '    should_change, abort_reason = self._evaluate_aborted_state(upload)\n'
                     '    if should_change:\n'
                     '        if upload.state.VALUE == TransferState.ABORTED:\n'
                     '            tasks.append(upload.state.queue())\n'
                     '        else:\n'
                     '            tasks.append(upload.state.abort(reason=abort_reason))\n'
                     '    elif abort_reason:\n'
                     '        upload.abort_reason = abort_reason')
    # since 8a6456f the re-queue goes through a helper that first checks that the upload is still listed (C06: removed
    # meanwhile). The C08 model has no `remove`: every upload stays listed, the helper is `upload.state.queue()`.
    guarded_loop = expected_loop.replace('tasks.append(upload.state.queue())', 'tasks.append(self._requeue_if_listed(upload))')
    if len(loops) == 1 and _src(loops[0]) == guarded_loop:
        helper = _func(tm, '_requeue_if_listed')
        body = [b for b in helper.body
                if not (isinstance(b, ast.Expr) and isinstance(b.value, ast.Constant) and isinstance(b.value.value, str))]
        if not (isinstance(helper, ast.AsyncFunctionDef) and [a.arg for a in helper.args.args] == ['self', 'upload']
                and len(body) == 1 and isinstance(body[0], ast.If) and not body[0].orelse
                and _src(body[0].test) in ('any((transfer is upload for transfer in self._transfers))',
                                           'any((transfer is upload for transfer in self.transfers))',
                                           'upload in self._transfers', 'upload in self.transfers')
                and [_src(b) for b in body[0].body] == ['await upload.state.queue()']):
            raise TranslateError('_requeue_if_listed: not `if <upload still listed>: await upload.state.queue()`: '
                                 + repr(_src(helper)))
    elif len(loops) != 1 or _src(loops[0]) != expected_loop:
        raise TranslateError('manage_shares_changed: loop over the uploads not understood: '
                             + repr([_src(l) for l in loops]))

    # ---- _on_peer_transfer_queue -------------------------------------------------------------------
    pq = _func(tm, '_on_peer_transfer_queue')
    out['queue_flag'] = _one_flag(pq, '_on_peer_transfer_queue', 'username')
    blocked_if = [n for n in ast.walk(pq) if isinstance(n, ast.If) and 'is_blocked' in _src(n.test)]
    if len(blocked_if) != 1 or not isinstance(blocked_if[0].test, ast.Call):
        raise TranslateError('_on_peer_transfer_queue: blocked test not understood')
    rs = [n for n in ast.walk(blocked_if[0]) if isinstance(n, ast.Attribute) and _src(n.value) == 'FailReason']
    if len(rs) != 1 or not isinstance(blocked_if[0].body[-1], ast.Return):
        raise TranslateError('_on_peer_transfer_queue: blocked branch not understood')
    out['queue_blocked_reason'] = _m(FAILS, rs[0].attr, 'queue blocked')
    eqs = [n for n in ast.walk(pq) if isinstance(n, ast.If) and isinstance(n.test, ast.Compare)
           and _src(n.test.left) == 'transfer.state.VALUE']
    if len(eqs) != 2:
        raise TranslateError('_on_peer_transfer_queue: expected the ABORTED test and the requeue test')
    first, second = eqs[0], eqs[1]
    if not (isinstance(first.test.ops[0], ast.Eq) and len(first.body) == 1
            and isinstance(first.body[0], ast.Assign) and _src(first.body[0].targets[0]) == 'fail_reason'
            and first.orelse == [second] and isinstance(second.test.ops[0], ast.In)
            and [_src(b) for b in second.body] == ['await transfer.state.queue()'] and not second.orelse):
        raise TranslateError('_on_peer_transfer_queue: existing-transfer branch not understood')
    out['queue_cancel_state'] = _m(STATES, _attr_of(first.test.comparators[0], 'TransferState', 'queue'), 'queue')
    out['queue_cancel_reason'] = _m(FAILS, _attr_of(first.body[0].value, 'FailReason', 'queue'), 'queue')
    out['requeue_states'] = [_m(STATES, s, 'queue') for s in _state_tuple(second.test.comparators[0], 'requeue')]

    # ---- _on_peer_transfer_request -----------------------------------------------------------------
    pr = _func(tm, '_on_peer_transfer_request')
    out['request_flag'] = _one_flag(pr, '_on_peer_transfer_request', 'username')
    blocked_if = [n for n in ast.walk(pr) if isinstance(n, ast.If) and 'is_blocked' in _src(n.test)]
    if (len(blocked_if) != 1 or _src(blocked_if[0].test) !=
            f'self._settings.users.is_blocked(username, BlockingFlag.{out["request_flag"]}) and '
            'direction == TransferDirection.UPLOAD'):
        raise TranslateError('_on_peer_transfer_request: blocked test not understood')
    rs = [n for n in ast.walk(blocked_if[0]) if isinstance(n, ast.Attribute) and _src(n.value) == 'FailReason']
    if len(rs) != 1 or not isinstance(blocked_if[0].body[-1], ast.Return):
        raise TranslateError('_on_peer_transfer_request: blocked branch not understood')
    out['request_blocked_reason'] = _m(FAILS, rs[0].attr, 'request blocked')
    maps = [n for n in ast.walk(pr) if isinstance(n, ast.Assign) and _src(n.targets[0]) == 'fail_reason_map']
    if len(maps) != 1 or not isinstance(maps[0].value, ast.Dict):
        raise TranslateError('_on_peer_transfer_request: fail_reason_map not found')
    frm = []
    for k, v in zip(maps[0].value.keys, maps[0].value.values):
        frm.append((_m(STATES, _attr_of(k, 'TransferState', 'fail_reason_map'), 'fail_reason_map'),
                    _m(FAILS, _attr_of(v, 'FailReason', 'fail_reason_map'), 'fail_reason_map')))
    if len({k for k, _ in frm}) != len(frm):
        raise TranslateError('fail_reason_map: duplicate key')
    out['fail_reason_map'] = frm

    # ---- other gates ---------------------------------------------------------------------------------
    sm = ast.parse((repo / 'src/aioslsk/search/manager.py').read_text())
    out['search_flag'] = _one_flag(_func(sm, '_query_shares_and_reply'), '_query_shares_and_reply', 'username')
    pm = ast.parse((repo / 'src/aioslsk/peer.py').read_text())
    out['shares_flag'] = _one_flag(_func(pm, '_on_peer_shares_request'), '_on_peer_shares_request', 'connection.username')
    out['dir_flag'] = _one_flag(_func(pm, '_on_peer_directory_contents_req'), '_on_peer_directory_contents_req',
                                'connection.username')

    # ---- excluded phrase test ------------------------------------------------------------------------
    sh = ast.parse((repo / 'src/aioslsk/shares/manager.py').read_text())
    q = _func(sh, 'query')
    loops = [n for n in ast.walk(q) if isinstance(n, ast.For) and _src(n.target) == 'excl_phrase']
    test = _src(loops[0].body[0].test) if (len(loops) == 1 and len(loops[0].body) == 1
                                           and isinstance(loops[0].body[0], ast.If)) else None
    if test == 'excl_phrase.lower() in found_item.get_query_path().lower()':
        out['phrase_folded'] = True
    elif test == 'excl_phrase in found_item.get_query_path().lower()':
        out['phrase_folded'] = False
    else:
        # a rewrite of the loop (a helper, a local for the path, a comprehension): ask the real code
        shape_error = f'SharesManager.query: excluded-phrase test not understood: {test!r}'
        try:
            out['phrase_folded'] = _phrase_folded_by_behaviour(repo)
        except TranslateError as e:
            raise TranslateError(f'{shape_error}; and: {e}')
        except Exception as e:  # noqa: BLE001
            raise TranslateError(f'{shape_error}; behavioural probe failed: {e!r}')

    # ---- constants -----------------------------------------------------------------------------------
    um = ast.parse((repo / 'src/aioslsk/user/model.py').read_text())
    flags = _class_consts(um, 'BlockingFlag', int)
    for key in ('eval_flag', 'queue_flag', 'request_flag', 'search_flag', 'shares_flag', 'dir_flag'):
        name = out[key]
        if name not in flags:
            raise TranslateError(f'BlockingFlag.{name} has no integer value in user/model.py')
        v = flags[name]
        if v <= 0 or v & (v - 1):
            raise TranslateError(f'BlockingFlag.{name} = {v} is not a single bit')
        out[key] = (name, v)
    mm = ast.parse((repo / 'src/aioslsk/transfer/model.py').read_text())
    ar = _class_consts(mm, 'AbortReason', str)
    fr = _class_consts(mm, 'FailReason', str)
    if set(ar) != set(REASONS):
        raise TranslateError(f'AbortReason members {sorted(ar)} differ from the model vocabulary')
    if set(fr) != set(FAILS):
        raise TranslateError(f'FailReason members {sorted(fr)} differ from the model vocabulary')
    out['abort_text'] = {REASONS[k]: v for k, v in ar.items()}
    out['fail_text'] = {FAILS[k]: v for k, v in fr.items()}
    return out


def _lean_list(items) -> str:
    return '[' + ', '.join(items) + ']'


def generate(repo: Path, lean_dir: Path) -> str:
    c = extract(repo)
    conds = _lean_list(f'(.{p}, .{r})' for p, r in c['conditions'])
    frm = '\n'.join(f'  | .{s} => some .{r}' for s, r in c['fail_reason_map'])
    at = '\n'.join(f'  | .{k} => "{v}"' for k, v in sorted(c['abort_text'].items()))
    ft = '\n'.join(f'  | .{k} => "{v}"' for k, v in sorted(c['fail_text'].items()))

    wild = '' if len(c['fail_reason_map']) >= len(STATES) else '\n  | _ => none'
    gates = _lean_list(f'("{g}", "{c[k][0]}", {c[k][1]})' for g, k in (
        ('evaluate', 'eval_flag'), ('queue', 'queue_flag'), ('request', 'request_flag'), ('search', 'search_flag'),
        ('shares', 'shares_flag'), ('directory', 'dir_flag')))

    def flag(key):
        return f'{c[key][1]}  -- BlockingFlag.{c[key][0]}'
    text = f'''-- GENERATED by translate/entitle_constants.py from /repo/src/aioslsk/{{transfer/manager.py, search/manager.py,
-- peer.py, shares/manager.py, user/model.py, transfer/model.py}} — do not edit.
import AioslskVerif.Model.TransferBase
import AioslskVerif.Model.EntitleBase
namespace AioslskVerif.Generated.Entitle
open AioslskVerif.Transfer AioslskVerif.Entitle

/-- `conditions` of `_evaluate_aborted_state`, in source order (first match wins) -/
def conditions : List (Cond × Reason) := {conds}
/-- the constant `_is_abort_requested` compares `abort_reason` with -/
def requestedReason : Reason := .{c['requested_reason']}
/-- uploads in these states are left alone by `manage_shares_changed` -/
def skipStates : List St := {_lean_list('.' + s for s in c['skip_states'])}
/-- `_on_peer_transfer_queue`, existing upload, file shared: answered with a failure in this state -/
def queueCancelState : St := .{c['queue_cancel_state']}
def queueCancelReason : FailR := .{c['queue_cancel_reason']}
/-- … and queued again in these states -/
def requeueStates : List St := {_lean_list('.' + s for s in c['requeue_states'])}
/-- `fail_reason_map` of `_on_peer_transfer_request` -/
def failReasonMap : St → Option FailR
{frm}{wild}
/-- reason sent to a user blocked for uploads -/
def queueBlockedReason : FailR := .{c['queue_blocked_reason']}
def requestBlockedReason : FailR := .{c['request_blocked_reason']}
/-- the blocking flag tested at each gate (bit value) -/
def evalFlag : Nat := {flag('eval_flag')}
def queueFlag : Nat := {flag('queue_flag')}
def requestFlag : Nat := {flag('request_flag')}
def searchFlag : Nat := {flag('search_flag')}
def sharesFlag : Nat := {flag('shares_flag')}
def dirFlag : Nat := {flag('dir_flag')}
/-- (gate, BlockingFlag member, value) as read from the source -/
def gateFlags : List (String × String × Nat) := {gates}
/-- `SharesManager.query`: is the excluded phrase lower-cased before `in path.lower()`? -/
def phraseFolded : Bool := {'true' if c['phrase_folded'] else 'false'}
/-- `AbortReason` strings -/
def abortText : Reason → String
{at}
/-- `FailReason` strings -/
def failText : FailR → String
{ft}
end AioslskVerif.Generated.Entitle
'''
    p = lean_dir / 'AioslskVerif/Generated/EntitleConstants.lean'
    if not p.exists() or p.read_text() != text:
        p.write_text(text)
    return str(p.relative_to(lean_dir))


if __name__ == '__main__':
    import sys
    print(generate(Path(sys.argv[1] if len(sys.argv) > 1 else '/repo'), Path(__file__).resolve().parent.parent / 'lean'))
