"""Regenerates Generated/TaskSites.lean from /repo's working tree (ast only).  Used by C16.

Three tables are read from the source as it is NOW:

* `sites`     one key per *spawn site* of the library: every call `asyncio.create_task(...)`,
              `BackgroundTask(...)`, `Timer(...)` under src/aioslsk (protocol/ excluded: pure codec).
              key = "<file>|<Class.function>|<kind>|<what is run>" (line numbers are NOT part of the key).
              `ensure_future`, `loop.create_task`, `TaskGroup`, `call_later/call_at/call_soon` raise: the
              inventory idea (one constructor per site) would silently miss them.
* `services`  the attribute names listed in `SoulSeekClient.services` (what `stop()` iterates).
* `effects`   for every function on a shutdown / close path (list FUNCTIONS below) the ordered list of
              "cancel:<receiver>" (a call `<receiver>.cancel()`, loop variables replaced by `<iterable>[*]`)
              and "call:<dotted name>" (every other call through `self`, a loop variable or a local).
              Effects inside an `except asyncio.CancelledError:` handler are prefixed `oncancel:` (what the
              function does when it is itself cancelled); `asyncio.gather(*<tasks>)` is recorded as
              `gather:<tasks>`.  A `.cancel()` whose receiver cannot be resolved raises; a local that is
              re-bound by a tuple assignment of a shape other than `done, X = await asyncio.wait(X, ...)`
              loses its binding (a later `.cancel()` through it then raises).

The hand-written inventory (`Model/Session.lean`, `Site`, `Site.key`, `Site.path`) is checked against these
tables by `decide` obligations in `Props/C16.lean`.

Link resolution through helpers (robustness against helper extraction).  The lists above are what each function
does in its OWN body ("direct").  In addition a link `(F, e)` that the inventory asks for (the string pairs of
`Model/Session.lean`, read by `wanted_from_model`) and that is not direct is emitted for F when it can be *derived*
from the source as it is now (`_effects(..., derive=True)`):

* F calls `self.<h>(args)` / `cls.<h>(args)` where `<h>` is a method of F's own class, or `<g>(args)` where `<g>` is a
  function of the same module or of `aioslsk/utils.py` (`cancel_task`): the body of the callee is read with its
  parameters replaced by the text of the arguments (transitively, depth <= 6, no recursion); what the callee does
  counts for F, under the `oncancel:` prefix when the call stands in an `except asyncio.CancelledError:` handler;
* a loop / comprehension over a literal tuple / list / set (also through a local bound to one) is read once per
  element (`for t in (a.x, a.y): t.cancel()` cancels `a.x` and `a.y`) besides the `<iterable>[*]` reading;
* `a, b = x, y` binds element-wise; parameters of F are receivers of their own name.

Only pairs the inventory asks for are added (after the direct effects of F), so on a tree whose links are all
direct the table is exactly the direct table; a cancellation that is gone from F and from everything F calls is
derived from nothing and the obligation `covered_all` fails as before.  In the same way a spawn site found in a
helper `<Class>.<g>` that the inventory does not know is reported under the calling method `<Class>.<f>` of the same
class when the inventory has a site with that key and the scan has none (`what is run` taken from the argument
when the helper spawns a parameter).
"""
from __future__ import annotations

import ast
from pathlib import Path


class TranslateError(Exception):
    pass


SPAWN_KINDS = {'create_task', 'BackgroundTask', 'Timer'}
FORBIDDEN_SPAWNS = {'ensure_future', 'TaskGroup', 'call_later', 'call_at', 'call_soon', 'call_soon_threadsafe',
                    'run_coroutine_threadsafe'}

# (file, qualified function) whose cancel/call effects are tabulated
FUNCTIONS = [
    ('client.py', 'SoulSeekClient.stop'),
    ('network/network.py', 'Network.disconnect'),
    ('network/network.py', 'Network._cancel_all_tasks'),
    ('network/network.py', 'Network._on_server_connection_state_changed'),
    ('network/network.py', 'Network.stop_server_connection_watchdog'),
    ('network/network.py', 'Network.stop_upnp_job'),
    ('network/network.py', 'Network._create_peer_connection_race'),
    ('network/network.py', 'Network._make_direct_connection'),
    ('network/network.py', 'Network._make_indirect_connection'),
    ('network/connection.py', 'DataConnection.disconnect'),
    ('network/connection.py', 'DataConnection._cancel_queued_messages'),
    ('network/connection.py', 'DataConnection.stop_reader_task'),
    ('user/manager.py', 'UserManager.stop'),
    ('user/manager.py', 'UserTrackingManager.stop'),
    ('user/manager.py', 'UserTrackingManager._on_state_changed'),
    ('user/manager.py', 'UserTrackingManager._set_tracking_state'),
    ('user/manager.py', 'UserTrackingManager._tracking_task'),
    ('search/manager.py', 'SearchManager.stop'),
    ('search/manager.py', 'SearchManager._on_state_changed'),
    ('server.py', 'ServerManager._on_state_changed'),
    ('distributed.py', 'DistributedNetwork.stop'),
    ('distributed.py', 'DistributedNetwork._cancel_potential_parent_tasks'),
    ('transfer/manager.py', 'TransferManager.stop'),
    ('transfer/model.py', 'Transfer.cancel_tasks'),
    ('shares/manager.py', 'SharesManager.stop'),
]


def _callee_name(func) -> str:
    if isinstance(func, ast.Attribute):
        return func.attr
    if isinstance(func, ast.Name):
        return func.id
    return ''


def _target_text(node) -> str:
    """coroutine call -> dotted callee; partial(f, ...) -> f; otherwise unparse"""
    if isinstance(node, ast.Call):
        if _callee_name(node.func) == 'partial' and node.args:
            return ast.unparse(node.args[0])
        return ast.unparse(node.func)
    return ast.unparse(node)


def _what(call: ast.Call, kind: str) -> str:
    """What the spawned task runs (stable text)."""
    target = _target_text
    if kind == 'create_task':
        if not call.args:
            raise TranslateError(f'create_task without positional coroutine: {ast.unparse(call)}')
        return target(call.args[0])
    kwname = 'task_coro' if kind == 'BackgroundTask' else 'callback'
    for kw in call.keywords:
        if kw.arg == kwname:
            return target(kw.value)
    idx = 1
    if len(call.args) > idx:
        return target(call.args[idx])
    raise TranslateError(f'{kind}(...) without {kwname}: {ast.unparse(call)}')


class _Scan(ast.NodeVisitor):
    def __init__(self, rel: str):
        self.rel = rel
        self.stack: list[str] = []
        self.nodes: list = []
        self.sites: list[str] = []
        self.where: list[tuple] = []        # per site: (class node | None, function node | None, kind, what)

    def _enter(self, node):
        self.stack.append(node.name)
        self.nodes.append(node)
        self.generic_visit(node)
        self.nodes.pop()
        self.stack.pop()

    visit_ClassDef = _enter
    visit_FunctionDef = _enter
    visit_AsyncFunctionDef = _enter

    def visit_Call(self, node: ast.Call):
        name = _callee_name(node.func)
        if name in FORBIDDEN_SPAWNS:
            raise TranslateError(f'{self.rel}:{node.lineno}: spawn construct `{name}` is not covered by the '
                                 f'task inventory scan: {ast.unparse(node)[:120]}')
        if name in SPAWN_KINDS:
            # `loop.create_task(...)` would have a receiver other than `asyncio`
            if name == 'create_task' and isinstance(node.func, ast.Attribute):
                recv = ast.unparse(node.func.value)
                if recv != 'asyncio':
                    raise TranslateError(f'{self.rel}:{node.lineno}: create_task on `{recv}` (only asyncio.create_task '
                                         f'is known to the inventory)')
            qual = '.'.join(self.stack) or '<module>'
            what = _what(node, name)
            self.sites.append(f'{self.rel}|{qual}|{name}|{what}')
            cls = self.nodes[0] if len(self.nodes) == 2 and isinstance(self.nodes[0], ast.ClassDef) else None
            self.where.append((cls, self.nodes[1] if cls is not None else None, name, what))
        self.generic_visit(node)


def _callers(rel: str, cls: ast.ClassDef, helper, kind: str, what: str, wanted: set[str], have: set[str],
             seen: tuple = ()) -> list[str]:
    """Keys `<rel>|<Class>.<f>|<kind>|<what>` the inventory asks for, for methods f of the class that reach the spawn in
    `helper` through `self.<helper>(...)` calls (what is spawned is taken from the argument when it is a parameter)."""
    res: list[str] = []
    names = _params(helper)
    if 'staticmethod' not in _decorators(helper) and names:
        names = names[1:]
    for m in cls.body:
        if not _is_plain_function(m) or m is helper or m in seen:
            continue
        for node in ast.walk(m):
            if not (isinstance(node, ast.Call) and isinstance(node.func, ast.Attribute) and
                    isinstance(node.func.value, ast.Name) and node.func.value.id in ('self', 'cls') and
                    node.func.attr == helper.name):
                continue
            w = what
            if what in names:
                idx = names.index(what)
                arg = node.args[idx] if idx < len(node.args) and not any(isinstance(a, ast.Starred) for a in node.args) \
                    else next((k.value for k in node.keywords if k.arg == what), None)
                if arg is None:
                    continue
                w = _target_text(arg)
            key = f'{rel}|{cls.name}.{m.name}|{kind}|{w}'
            if key in wanted and key not in have:
                if key not in res:
                    res.append(key)
            elif len(seen) < MAX_INLINE_DEPTH:
                res += [k for k in _callers(rel, cls, m, kind, w, wanted, have, seen + (helper,)) if k not in res]
    return res


def scan_sites(repo: Path, wanted: set[str] = frozenset()) -> list[str]:
    base = repo / 'src' / 'aioslsk'
    out: list[str] = []
    where: list[tuple] = []
    for p in sorted(base.rglob('*.py')):
        rel = p.relative_to(base).as_posix()
        if rel.startswith('protocol/'):
            continue
        sc = _Scan(rel)
        sc.visit(ast.parse(p.read_text()))
        out += sc.sites
        where += [(rel,) + w for w in sc.where]
    if wanted:
        # a spawn in a helper method the inventory does not know: the site of the method(s) that call the helper
        have = set(out)
        res = []
        for k, (rel, cls, fn, kind, what) in zip(out, where):
            moved = _callers(rel, cls, fn, kind, what, wanted, have) if k not in wanted and cls is not None else []
            res += moved or [k]
        out = res
    dup = {k for k in out if out.count(k) > 1}
    if dup:
        # two sites with the same key in one function: disambiguate by ordinal
        seen: dict[str, int] = {}
        res = []
        for k in out:
            if k in dup:
                seen[k] = seen.get(k, 0) + 1
                res.append(f'{k}#{seen[k]}')
            else:
                res.append(k)
        out = res
    return out


def scan_services(repo: Path) -> list[str]:
    tree = ast.parse((repo / 'src/aioslsk/client.py').read_text())
    found = None
    for node in ast.walk(tree):
        tgt = None
        if isinstance(node, ast.AnnAssign):
            tgt, val = node.target, node.value
        elif isinstance(node, ast.Assign) and len(node.targets) == 1:
            tgt, val = node.targets[0], node.value
        if tgt is not None and ast.unparse(tgt) == 'self.services':
            if found is not None:
                raise TranslateError('self.services assigned more than once')
            if not isinstance(val, ast.List):
                raise TranslateError(f'self.services is not a list literal: {ast.unparse(val)[:80]}')
            names = []
            for e in val.elts:
                txt = ast.unparse(e)
                if not txt.startswith('self.') or '.' in txt[5:] or not txt[5:].isidentifier():
                    raise TranslateError(f'self.services element of unknown shape: {txt}')
                names.append(txt[5:])
            found = names
    if found is None:
        raise TranslateError('self.services not found in client.py')
    # later mutations of the list (append/remove/extend) would make the literal a lie
    for node in ast.walk(tree):
        if isinstance(node, ast.Call) and isinstance(node.func, ast.Attribute) and \
                ast.unparse(node.func.value) == 'self.services':
            raise TranslateError(f'self.services is modified through .{node.func.attr}(...)')
    return found


def _find_function(tree: ast.Module, qual: str):
    parts = qual.split('.')
    body = tree.body
    node = None
    for part in parts:
        node = next((n for n in body if isinstance(n, (ast.ClassDef, ast.FunctionDef, ast.AsyncFunctionDef))
                     and n.name == part), None)
        if node is None:
            return None
        body = node.body
    return node


def _params(fn) -> list[str]:
    a = fn.args
    return [x.arg for x in a.posonlyargs + a.args + a.kwonlyargs] + \
        ([a.vararg.arg] if a.vararg else []) + ([a.kwarg.arg] if a.kwarg else [])


def _is_plain_function(fn) -> bool:
    return isinstance(fn, (ast.FunctionDef, ast.AsyncFunctionDef))


def _decorators(fn) -> set[str]:
    return {ast.unparse(d) for d in fn.decorator_list}


_LITERALS = (ast.Tuple, ast.List, ast.Set)
MAX_INLINE_DEPTH = 6


def _effects(fn, cls: ast.ClassDef | None = None, module_funcs: dict | None = None, derive: bool = False) -> list[str]:
    """Ordered cancel/call effects of a function body.

    derive=False: what the body itself does (the table as it always was; a `.cancel()` through a parameter of the
    function is `cancel:<parameter>...`).  derive=True: a superset that also reads through helper calls, literal
    iterables and element-wise tuple assignments (see the module docstring); never raises on shapes it does not know
    (it simply derives nothing from them)."""
    out: list[str] = []
    prefix = ['']
    module_funcs = module_funcs or {}
    methods = {n.name: n for n in (cls.body if cls is not None else []) if _is_plain_function(n)}

    def emit(e: str):
        out.append(prefix[0] + e)

    def is_cancelled_handler(h: ast.ExceptHandler) -> bool:
        return h.type is not None and ast.unparse(h.type) in ('asyncio.CancelledError', 'CancelledError')

    def run(fn, bound: dict[str, str], stack: tuple):
        loopvars: dict[str, str] = {}       # name -> "<iterable>[*]"
        locals_: dict[str, str] = dict(bound)        # name -> text it was assigned from
        literal: dict[str, ast.AST] = {}    # derive: local bound to a literal tuple / list / set
        params = set(_params(fn)) - {'self', 'cls'}

        def subst(node) -> str:
            """Text of an expression with loop variables / walrus locals substituted."""
            if isinstance(node, ast.Name):
                if node.id in loopvars:
                    return loopvars[node.id]
                if node.id in locals_:
                    return locals_[node.id]
                return node.id
            if isinstance(node, ast.Attribute):
                return subst(node.value) + '.' + node.attr
            if isinstance(node, ast.Call):
                return subst(node.func) + '()'
            if derive and isinstance(node, ast.Await):
                return subst(node.value)
            return ast.unparse(node)

        def resolvable(node, through_params: bool = False) -> bool:
            root = node
            while isinstance(root, (ast.Attribute, ast.Call)):
                root = root.value if isinstance(root, ast.Attribute) else root.func
            return isinstance(root, ast.Name) and (
                root.id == 'self' or root.id in loopvars or root.id in locals_ or
                ((through_params or derive) and root.id in params))

        def unbind(name: str):
            locals_.pop(name, None)
            loopvars.pop(name, None)
            literal.pop(name, None)

        def bind_target(tgt, text):
            if isinstance(tgt, ast.Name):
                literal.pop(tgt.id, None)
                loopvars[tgt.id] = text
            elif isinstance(tgt, (ast.Tuple, ast.List)):
                for i, e in enumerate(tgt.elts):
                    bind_target(e, f'{text}.{i}')
            elif derive:
                return
            else:
                raise TranslateError(f'loop target of unknown shape: {ast.unparse(tgt)}')

        def as_literal(it, depth: int = 0):
            """derive: the literal tuple / list / set whose elements `it` ranges over: the literal itself, a local
            bound to one, `list|tuple|set|sorted|reversed(<it>)`, `filter(f, <it>)`, `[x for x in <it> if ...]`."""
            if depth > 4:
                return None
            if isinstance(it, _LITERALS):
                return it
            if isinstance(it, ast.Name):
                return literal.get(it.id)
            if isinstance(it, ast.Call) and isinstance(it.func, ast.Name) and not it.keywords:
                if it.func.id in ('list', 'tuple', 'set', 'sorted', 'reversed') and len(it.args) == 1:
                    return as_literal(it.args[0], depth + 1)
                if it.func.id == 'filter' and len(it.args) == 2:
                    return as_literal(it.args[1], depth + 1)
            if isinstance(it, (ast.ListComp, ast.SetComp, ast.GeneratorExp)) and len(it.generators) == 1 and \
                    isinstance(it.elt, ast.Name) and isinstance(it.generators[0].target, ast.Name) and \
                    it.elt.id == it.generators[0].target.id:
                return as_literal(it.generators[0].iter, depth + 1)
            return None

        def readings(it) -> list[str]:
            """What a loop variable over `it` stands for: `<iterable>[*]`; derive: also each element of a literal."""
            res = [subst(it) + '[*]']
            if derive:
                lit = as_literal(it)
                if lit is not None:
                    res += [subst(e) for e in lit.elts if not isinstance(e, ast.Starred)]
            return res

        def inline(node: ast.Call):
            """derive: what the callee (method of the same class / function of the module) does counts here."""
            f = node.func
            callee = None
            if isinstance(f, ast.Attribute) and isinstance(f.value, ast.Name) and f.value.id in ('self', 'cls') \
                    and f.attr in methods:
                callee = methods[f.attr]
                names = _params(callee)
                if 'staticmethod' not in _decorators(callee) and names:
                    names = names[1:]
            elif isinstance(f, ast.Name) and f.id in module_funcs and f.id not in locals_ and f.id not in loopvars:
                callee = module_funcs[f.id]
                names = _params(callee)
            if callee is None or callee in stack or len(stack) >= MAX_INLINE_DEPTH:
                return
            if _decorators(callee) - {'staticmethod', 'classmethod'}:
                return      # property / contextmanager / ...: not a plain call of the body
            inner: dict[str, str] = {}
            positional = [n for n in names if n not in {x.arg for x in callee.args.kwonlyargs}]
            for name, a in zip(positional, node.args):
                if isinstance(a, ast.Starred):
                    break
                if resolvable(a) or isinstance(a, _LITERALS):
                    inner[name] = subst(a)
            for k in node.keywords:
                if k.arg in names and (resolvable(k.value) or isinstance(k.value, _LITERALS)):
                    inner[k.arg] = subst(k.value)
            run(callee, inner, stack + (callee,))

        def walk(node):
            if isinstance(node, (ast.FunctionDef, ast.AsyncFunctionDef, ast.Lambda)) and node is not fn:
                return      # nested definitions are not executed here
            if isinstance(node, ast.Try):
                for s_ in node.body:
                    walk(s_)
                for h in node.handlers:
                    if is_cancelled_handler(h) and not (derive and prefix[0]):
                        if prefix[0]:
                            raise TranslateError(f'{fn.name}: nested CancelledError handlers')
                        prefix[0] = 'oncancel:'
                        for s_ in h.body:
                            walk(s_)
                        prefix[0] = ''
                    else:
                        for s_ in h.body:
                            walk(s_)
                for s_ in node.orelse + node.finalbody:
                    walk(s_)
                return
            if isinstance(node, ast.Assign) and len(node.targets) == 1 and isinstance(node.targets[0], (ast.Tuple, ast.List)):
                walk(node.value)
                elts = node.targets[0].elts
                if isinstance(node.value, (ast.Tuple, ast.List)) and len(node.value.elts) == len(elts) and \
                        not any(isinstance(e, ast.Starred) for e in list(elts) + list(node.value.elts)):
                    # `a, b = x, y`: element-wise, the right-hand side is read before anything is bound
                    texts = [(subst(v) if resolvable(v) else None) for v in node.value.elts]
                    for t, txt in zip(elts, texts):
                        if isinstance(t, ast.Name):
                            unbind(t.id)
                            if txt is not None:
                                locals_[t.id] = txt
                    return
                names = [e.id for e in elts if isinstance(e, ast.Name)]
                val = node.value.value if isinstance(node.value, ast.Await) else node.value
                waited = None
                if isinstance(val, ast.Call) and ast.unparse(val.func) == 'asyncio.wait' and val.args and \
                        isinstance(val.args[0], ast.Name):
                    waited = val.args[0].id
                for i, nm in enumerate(names):
                    if waited is not None and len(names) == 2 and i == 1 and nm == waited:
                        continue        # `done, X = await asyncio.wait(X, ...)`: X stays a subset of itself
                    if waited is not None and len(names) == 2 and i == 0 and waited in locals_:
                        locals_[nm] = locals_[waited]      # `done` is a subset of X as well
                        continue
                    unbind(nm)
                return
            if isinstance(node, (ast.For, ast.AsyncFor)):
                walk(node.iter)
                for text in readings(node.iter):
                    bind_target(node.target, text)
                    for s in node.body + node.orelse:
                        walk(s)
                return
            if isinstance(node, (ast.ListComp, ast.SetComp, ast.GeneratorExp)):
                def gen(i: int):
                    if i == len(node.generators):
                        walk(node.elt)
                        return
                    g = node.generators[i]
                    walk(g.iter)
                    for text in readings(g.iter):
                        bind_target(g.target, text)
                        for c in g.ifs:
                            walk(c)
                        gen(i + 1)
                gen(0)
                return
            if isinstance(node, ast.NamedExpr):
                walk(node.value)
                literal.pop(node.target.id, None)
                if isinstance(node.value, ast.Call) and _callee_name(node.value.func) == 'cancel':
                    locals_[node.target.id] = subst(node.value.func.value) + '.cancel()'
                else:
                    locals_[node.target.id] = subst(node.value)
                return
            if isinstance(node, ast.Assign) and len(node.targets) == 1 and isinstance(node.targets[0], ast.Name):
                walk(node.value)
                locals_[node.targets[0].id] = subst(node.value)
                literal.pop(node.targets[0].id, None)
                if derive and as_literal(node.value) is not None:
                    literal[node.targets[0].id] = as_literal(node.value)
                return
            if isinstance(node, ast.Call):
                for a in node.args:
                    walk(a)
                for k in node.keywords:
                    walk(k.value)
                name = _callee_name(node.func)
                if isinstance(node.func, ast.Attribute):
                    walk(node.func.value)
                    if name == 'cancel':
                        if resolvable(node.func.value, through_params=True):
                            emit('cancel:' + subst(node.func.value))
                        elif not derive:
                            raise TranslateError(f'{fn.name}: cannot resolve the receiver of `{ast.unparse(node)}`')
                    elif ast.unparse(node.func) == 'asyncio.gather':
                        if len(node.args) == 1 and isinstance(node.args[0], ast.Starred) and \
                                isinstance(node.args[0].value, ast.Name) and \
                                (node.args[0].value.id in locals_ or node.args[0].value.id in loopvars):
                            emit('gather:' + subst(node.args[0].value))
                    elif resolvable(node.func.value) and name not in ('append', 'extend', 'info', 'debug', 'warning',
                                                                      'values', 'items', 'keys', 'set', 'is_set'):
                        emit('call:' + subst(node.func))
                if derive:
                    inline(node)
                return
            if isinstance(node, ast.Raise) and node.exc is None and prefix[0]:
                emit('reraise')
                return
            for child in ast.iter_child_nodes(node):
                walk(child)

        for stmt in fn.body:
            walk(stmt)

    run(fn, {}, (fn,))
    return out


def _find_class(tree: ast.Module, qual: str):
    parts = qual.split('.')
    if len(parts) < 2:
        return None
    node = _find_function(tree, '.'.join(parts[:-1]))
    return node if isinstance(node, ast.ClassDef) else None


def _module_functions(base: Path, tree: ast.Module, cache: dict) -> dict:
    """Plain functions a body can call by bare name: those of its module and of aioslsk/utils.py."""
    if 'utils.py' not in cache:
        cache['utils.py'] = ast.parse((base / 'utils.py').read_text()) if (base / 'utils.py').exists() else ast.Module([], [])
    funcs = {n.name: n for n in cache['utils.py'].body if _is_plain_function(n)}
    funcs.update({n.name: n for n in tree.body if _is_plain_function(n)})
    return funcs


def wanted_from_model(model: Path | None) -> tuple[set[tuple[str, str]], set[str]]:
    """The (function, effect) links and the site keys the hand-written inventory asks for: every string pair
    `("<file>|<function>", "<effect>")` and every string `"<file>|<function>|<kind>|<what>"` of Model/Session.lean.
    Without the file nothing is asked for and the tables are the direct ones."""
    import re
    if model is None or not model.exists():
        return set(), set()
    text = model.read_text()
    lit = r'"((?:[^"\\\n]|\\.)*)"'
    unq = lambda x: x.replace('\\"', '"').replace('\\\\', '\\')
    links = {(unq(a), unq(b)) for a, b in re.findall(r'\(\s*' + lit + r'\s*,\s*' + lit + r'\s*\)', text)
             if a.count('|') == 1}
    keys = {unq(k) for k in re.findall(lit, text) if k.count('|') == 3}
    return links, keys


def scan_effects(repo: Path, wanted: set[tuple[str, str]] = frozenset()) -> list[tuple[str, str]]:
    base = repo / 'src' / 'aioslsk'
    out: list[tuple[str, str]] = []
    cache: dict[str, ast.Module] = {}
    for rel, qual in FUNCTIONS:
        if rel not in cache:
            cache[rel] = ast.parse((base / rel).read_text())
        fn = _find_function(cache[rel], qual)
        if fn is None:
            # a function that no longer exists has no effects; the obligations that need it then fail
            continue
        key = f'{rel}|{qual}'
        direct = _effects(fn)
        for e in direct:
            out.append((key, e))
        asked = {e for f, e in wanted if f == key} - set(direct)
        if asked:
            # links the inventory asks of this function that its own body does not have: through helpers?
            derived = _effects(fn, cls=_find_class(cache[rel], qual),
                               module_funcs=_module_functions(base, cache[rel], cache), derive=True)
            for e in dict.fromkeys(derived):
                if e in asked:
                    out.append((key, e))
    return out


def _lean_str(s: str) -> str:
    return '"' + s.replace('\\', '\\\\').replace('"', '\\"') + '"'


def generate(repo: Path, out_path: Path, model: Path | None = None) -> str:
    if model is None:
        model = out_path.parent.parent / 'Model' / 'Session.lean'
    wanted_links, wanted_keys = wanted_from_model(model)
    sites = scan_sites(repo, wanted_keys)
    services = scan_services(repo)
    effects = scan_effects(repo, wanted_links)
    lines = [
        '/-! GENERATED by translate/task_sites.py from /repo — do not edit. -/',
        'namespace AioslskVerif.Generated.TaskSites',
        '',
        '/-- every `asyncio.create_task(` / `BackgroundTask(` / `Timer(` call site under src/aioslsk (protocol/ excluded):',
        '    "<file>|<Class.function>|<kind>|<what is run>" -/',
        'def sites : List String := [',
    ]
    lines += [f'  {_lean_str(s)}{"," if i + 1 < len(sites) else ""}' for i, s in enumerate(sites)]
    lines += [']', '', '/-- attribute names listed in `SoulSeekClient.services` (client.py) -/',
              'def services : List String := [' + ', '.join(_lean_str(s) for s in services) + ']', '',
              '/-- (function, effect): `cancel:<receiver>` for `<receiver>.cancel()`, `call:<callee>` for calls through',
              '    self / loop variables / locals, in source order, for the functions on the shutdown and close paths -/',
              'def effects : List (String × String) := [']
    lines += [f'  ({_lean_str(f)}, {_lean_str(e)}){"," if i + 1 < len(effects) else ""}' for i, (f, e) in enumerate(effects)]
    lines += [']', '', 'end AioslskVerif.Generated.TaskSites', '']
    text = '\n'.join(lines)
    if not out_path.exists() or out_path.read_text() != text:
        out_path.write_text(text)
    return str(out_path)


if __name__ == '__main__':
    import os
    import sys
    repo = Path(os.environ.get('VERIF_REPO', '/repo'))
    here = Path(__file__).resolve().parent.parent
    print(generate(repo, here / 'lean/AioslskVerif/Generated/TaskSites.lean'))
    if '-v' in sys.argv:
        print((here / 'lean/AioslskVerif/Generated/TaskSites.lean').read_text())
