"""Regenerates Generated/TaskSites.lean from /repo's working tree (ast only).  Used by C16.

Three tables are read from the source as it is NOW:

* `sites`     one key per *spawn site* of the library: every call `asyncio.create_task(...)`,
              `BackgroundTask(...)`, `Timer(...)` under src/aioslsk (protocol/ excluded: pure codec).
              key = "<file>|<Class.function>|<kind>|<what is run>" (line numbers are NOT part of the key).
              `ensure_future`, `loop.create_task`, `TaskGroup`, `call_later/call_at/call_soon` raise: the
              inventory idea (one constructor per site) would silently miss them.
* `services`  the attribute names listed in `SoulSeekClient.services` (what `stop()` iterates).
* `effects`   for every function on a shutdown / close path (list FUNCTIONS below) the ordered list of
              "cancel:<receiver>" (a call `<receiver>.cancel()`, loop variables replaced by `<iterable>[*]`)
              and "call:<dotted name>" (every other call through `self`, a loop variable or a local).
              Effects inside an `except asyncio.CancelledError:` handler are prefixed `oncancel:` (what the
              function does when it is itself cancelled); `asyncio.gather(*<tasks>)` is recorded as
              `gather:<tasks>`.  A `.cancel()` whose receiver cannot be resolved raises; a local that is
              re-bound by a tuple assignment of a shape other than `done, X = await asyncio.wait(X, ...)`
              loses its binding (a later `.cancel()` through it then raises).

The hand-written inventory (`Model/Session.lean`, `Site`, `Site.key`, `Site.path`) is checked against these
tables by `decide` obligations in `Props/C16.lean`.
"""
from __future__ import annotations

import ast
from pathlib import Path


class TranslateError(Exception):
    pass


SPAWN_KINDS = {'create_task', 'BackgroundTask', 'Timer'}
FORBIDDEN_SPAWNS = {'ensure_future', 'TaskGroup', 'call_later', 'call_at', 'call_soon', 'call_soon_threadsafe',
                    'run_coroutine_threadsafe'}

# (file, qualified function) whose cancel/call effects are tabulated
FUNCTIONS = [
    ('client.py', 'SoulSeekClient.stop'),
    ('network/network.py', 'Network.disconnect'),
    ('network/network.py', 'Network._cancel_all_tasks'),
    ('network/network.py', 'Network._on_server_connection_state_changed'),
    ('network/network.py', 'Network.stop_server_connection_watchdog'),
    ('network/network.py', 'Network.stop_upnp_job'),
    ('network/network.py', 'Network._create_peer_connection_race'),
    ('network/network.py', 'Network._make_direct_connection'),
    ('network/network.py', 'Network._make_indirect_connection'),
    ('network/connection.py', 'DataConnection.disconnect'),
    ('network/connection.py', 'DataConnection._cancel_queued_messages'),
    ('network/connection.py', 'DataConnection.stop_reader_task'),
    ('user/manager.py', 'UserManager.stop'),
    ('user/manager.py', 'UserTrackingManager.stop'),
    ('user/manager.py', 'UserTrackingManager._on_state_changed'),
    ('search/manager.py', 'SearchManager.stop'),
    ('search/manager.py', 'SearchManager._on_state_changed'),
    ('server.py', 'ServerManager._on_state_changed'),
    ('distributed.py', 'DistributedNetwork.stop'),
    ('distributed.py', 'DistributedNetwork._cancel_potential_parent_tasks'),
    ('transfer/manager.py', 'TransferManager.stop'),
    ('transfer/model.py', 'Transfer.cancel_tasks'),
    ('shares/manager.py', 'SharesManager.stop'),
]


def _callee_name(func) -> str:
    if isinstance(func, ast.Attribute):
        return func.attr
    if isinstance(func, ast.Name):
        return func.id
    return ''


def _what(call: ast.Call, kind: str) -> str:
    """What the spawned task runs (stable text)."""
    def target(node):
        # coroutine call -> dotted callee; partial(f, ...) -> f; otherwise unparse
        if isinstance(node, ast.Call):
            if _callee_name(node.func) == 'partial' and node.args:
                return ast.unparse(node.args[0])
            return ast.unparse(node.func)
        return ast.unparse(node)
    if kind == 'create_task':
        if not call.args:
            raise TranslateError(f'create_task without positional coroutine: {ast.unparse(call)}')
        return target(call.args[0])
    kwname = 'task_coro' if kind == 'BackgroundTask' else 'callback'
    for kw in call.keywords:
        if kw.arg == kwname:
            return target(kw.value)
    idx = 1
    if len(call.args) > idx:
        return target(call.args[idx])
    raise TranslateError(f'{kind}(...) without {kwname}: {ast.unparse(call)}')


class _Scan(ast.NodeVisitor):
    def __init__(self, rel: str):
        self.rel = rel
        self.stack: list[str] = []
        self.sites: list[str] = []

    def _enter(self, node):
        self.stack.append(node.name)
        self.generic_visit(node)
        self.stack.pop()

    visit_ClassDef = _enter
    visit_FunctionDef = _enter
    visit_AsyncFunctionDef = _enter

    def visit_Call(self, node: ast.Call):
        name = _callee_name(node.func)
        if name in FORBIDDEN_SPAWNS:
            raise TranslateError(f'{self.rel}:{node.lineno}: spawn construct `{name}` is not covered by the '
                                 f'task inventory scan: {ast.unparse(node)[:120]}')
        if name in SPAWN_KINDS:
            # `loop.create_task(...)` would have a receiver other than `asyncio`
            if name == 'create_task' and isinstance(node.func, ast.Attribute):
                recv = ast.unparse(node.func.value)
                if recv != 'asyncio':
                    raise TranslateError(f'{self.rel}:{node.lineno}: create_task on `{recv}` (only asyncio.create_task '
                                         f'is known to the inventory)')
            qual = '.'.join(self.stack) or '<module>'
            self.sites.append(f'{self.rel}|{qual}|{name}|{_what(node, name)}')
        self.generic_visit(node)


def scan_sites(repo: Path) -> list[str]:
    base = repo / 'src' / 'aioslsk'
    out: list[str] = []
    for p in sorted(base.rglob('*.py')):
        rel = p.relative_to(base).as_posix()
        if rel.startswith('protocol/'):
            continue
        sc = _Scan(rel)
        sc.visit(ast.parse(p.read_text()))
        out += sc.sites
    dup = {k for k in out if out.count(k) > 1}
    if dup:
        # two sites with the same key in one function: disambiguate by ordinal
        seen: dict[str, int] = {}
        res = []
        for k in out:
            if k in dup:
                seen[k] = seen.get(k, 0) + 1
                res.append(f'{k}#{seen[k]}')
            else:
                res.append(k)
        out = res
    return out


def scan_services(repo: Path) -> list[str]:
    tree = ast.parse((repo / 'src/aioslsk/client.py').read_text())
    found = None
    for node in ast.walk(tree):
        tgt = None
        if isinstance(node, ast.AnnAssign):
            tgt, val = node.target, node.value
        elif isinstance(node, ast.Assign) and len(node.targets) == 1:
            tgt, val = node.targets[0], node.value
        if tgt is not None and ast.unparse(tgt) == 'self.services':
            if found is not None:
                raise TranslateError('self.services assigned more than once')
            if not isinstance(val, ast.List):
                raise TranslateError(f'self.services is not a list literal: {ast.unparse(val)[:80]}')
            names = []
            for e in val.elts:
                txt = ast.unparse(e)
                if not txt.startswith('self.') or '.' in txt[5:] or not txt[5:].isidentifier():
                    raise TranslateError(f'self.services element of unknown shape: {txt}')
                names.append(txt[5:])
            found = names
    if found is None:
        raise TranslateError('self.services not found in client.py')
    # later mutations of the list (append/remove/extend) would make the literal a lie
    for node in ast.walk(tree):
        if isinstance(node, ast.Call) and isinstance(node.func, ast.Attribute) and \
                ast.unparse(node.func.value) == 'self.services':
            raise TranslateError(f'self.services is modified through .{node.func.attr}(...)')
    return found


def _find_function(tree: ast.Module, qual: str):
    parts = qual.split('.')
    body = tree.body
    node = None
    for part in parts:
        node = next((n for n in body if isinstance(n, (ast.ClassDef, ast.FunctionDef, ast.AsyncFunctionDef))
                     and n.name == part), None)
        if node is None:
            return None
        body = node.body
    return node


def _effects(fn) -> list[str]:
    """Ordered cancel/call effects of a function body."""
    loopvars: dict[str, str] = {}       # name -> "<iterable>[*]"
    locals_: dict[str, str] = {}        # name -> text it was assigned from
    out: list[str] = []

    def subst(node) -> str:
        """Text of an expression with loop variables / walrus locals substituted."""
        if isinstance(node, ast.Name):
            if node.id in loopvars:
                return loopvars[node.id]
            if node.id in locals_:
                return locals_[node.id]
            return node.id
        if isinstance(node, ast.Attribute):
            return subst(node.value) + '.' + node.attr
        if isinstance(node, ast.Call):
            return subst(node.func) + '()'
        return ast.unparse(node)

    def resolvable(node) -> bool:
        root = node
        while isinstance(root, (ast.Attribute, ast.Call)):
            root = root.value if isinstance(root, ast.Attribute) else root.func
        return isinstance(root, ast.Name) and (root.id == 'self' or root.id in loopvars or root.id in locals_)

    def bind_target(tgt, text):
        if isinstance(tgt, ast.Name):
            loopvars[tgt.id] = text
        elif isinstance(tgt, (ast.Tuple, ast.List)):
            for i, e in enumerate(tgt.elts):
                bind_target(e, f'{text}.{i}')
        else:
            raise TranslateError(f'loop target of unknown shape: {ast.unparse(tgt)}')

    prefix = ['']

    def emit(e: str):
        out.append(prefix[0] + e)

    def is_cancelled_handler(h: ast.ExceptHandler) -> bool:
        return h.type is not None and ast.unparse(h.type) in ('asyncio.CancelledError', 'CancelledError')

    def walk(node):
        if isinstance(node, (ast.FunctionDef, ast.AsyncFunctionDef, ast.Lambda)) and node is not fn:
            return      # nested definitions are not executed here
        if isinstance(node, ast.Try):
            for s_ in node.body:
                walk(s_)
            for h in node.handlers:
                if is_cancelled_handler(h):
                    if prefix[0]:
                        raise TranslateError(f'{fn.name}: nested CancelledError handlers')
                    prefix[0] = 'oncancel:'
                    for s_ in h.body:
                        walk(s_)
                    prefix[0] = ''
                else:
                    for s_ in h.body:
                        walk(s_)
            for s_ in node.orelse + node.finalbody:
                walk(s_)
            return
        if isinstance(node, ast.Assign) and len(node.targets) == 1 and isinstance(node.targets[0], (ast.Tuple, ast.List)):
            walk(node.value)
            names = [e.id for e in node.targets[0].elts if isinstance(e, ast.Name)]
            val = node.value.value if isinstance(node.value, ast.Await) else node.value
            waited = None
            if isinstance(val, ast.Call) and ast.unparse(val.func) == 'asyncio.wait' and val.args and \
                    isinstance(val.args[0], ast.Name):
                waited = val.args[0].id
            for i, nm in enumerate(names):
                if waited is not None and len(names) == 2 and i == 1 and nm == waited:
                    continue        # `done, X = await asyncio.wait(X, ...)`: X stays a subset of itself
                if waited is not None and len(names) == 2 and i == 0 and waited in locals_:
                    locals_[nm] = locals_[waited]      # `done` is a subset of X as well
                    continue
                locals_.pop(nm, None)
                loopvars.pop(nm, None)
            return
        if isinstance(node, (ast.For, ast.AsyncFor)):
            walk(node.iter)
            bind_target(node.target, subst(node.iter) + '[*]')
            for s in node.body + node.orelse:
                walk(s)
            return
        if isinstance(node, (ast.ListComp, ast.SetComp, ast.GeneratorExp)):
            for g in node.generators:
                walk(g.iter)
                bind_target(g.target, subst(g.iter) + '[*]')
                for c in g.ifs:
                    walk(c)
            walk(node.elt)
            return
        if isinstance(node, ast.NamedExpr):
            walk(node.value)
            if isinstance(node.value, ast.Call) and _callee_name(node.value.func) == 'cancel':
                locals_[node.target.id] = subst(node.value.func.value) + '.cancel()'
            else:
                locals_[node.target.id] = subst(node.value)
            return
        if isinstance(node, ast.Assign) and len(node.targets) == 1 and isinstance(node.targets[0], ast.Name):
            walk(node.value)
            locals_[node.targets[0].id] = subst(node.value)
            return
        if isinstance(node, ast.Call):
            for a in node.args:
                walk(a)
            for k in node.keywords:
                walk(k.value)
            name = _callee_name(node.func)
            if isinstance(node.func, ast.Attribute):
                walk(node.func.value)
                if name == 'cancel':
                    if not resolvable(node.func.value):
                        raise TranslateError(f'{fn.name}: cannot resolve the receiver of `{ast.unparse(node)}`')
                    emit('cancel:' + subst(node.func.value))
                elif ast.unparse(node.func) == 'asyncio.gather':
                    if len(node.args) == 1 and isinstance(node.args[0], ast.Starred) and \
                            isinstance(node.args[0].value, ast.Name) and \
                            (node.args[0].value.id in locals_ or node.args[0].value.id in loopvars):
                        emit('gather:' + subst(node.args[0].value))
                elif resolvable(node.func.value) and name not in ('append', 'extend', 'info', 'debug', 'warning',
                                                                  'values', 'items', 'keys', 'set', 'is_set'):
                    emit('call:' + subst(node.func))
            return
        if isinstance(node, ast.Raise) and node.exc is None and prefix[0]:
            emit('reraise')
            return
        for child in ast.iter_child_nodes(node):
            walk(child)

    for stmt in fn.body:
        walk(stmt)
    return out


def scan_effects(repo: Path) -> list[tuple[str, str]]:
    base = repo / 'src' / 'aioslsk'
    out: list[tuple[str, str]] = []
    cache: dict[str, ast.Module] = {}
    for rel, qual in FUNCTIONS:
        if rel not in cache:
            cache[rel] = ast.parse((base / rel).read_text())
        fn = _find_function(cache[rel], qual)
        if fn is None:
            # a function that no longer exists has no effects; the obligations that need it then fail
            continue
        for e in _effects(fn):
            out.append((f'{rel}|{qual}', e))
    return out


def _lean_str(s: str) -> str:
    return '"' + s.replace('\\', '\\\\').replace('"', '\\"') + '"'


def generate(repo: Path, out_path: Path) -> str:
    sites = scan_sites(repo)
    services = scan_services(repo)
    effects = scan_effects(repo)
    lines = [
        '/-! GENERATED by translate/task_sites.py from /repo — do not edit. -/',
        'namespace AioslskVerif.Generated.TaskSites',
        '',
        '/-- every `asyncio.create_task(` / `BackgroundTask(` / `Timer(` call site under src/aioslsk (protocol/ excluded):',
        '    "<file>|<Class.function>|<kind>|<what is run>" -/',
        'def sites : List String := [',
    ]
    lines += [f'  {_lean_str(s)}{"," if i + 1 < len(sites) else ""}' for i, s in enumerate(sites)]
    lines += [']', '', '/-- attribute names listed in `SoulSeekClient.services` (client.py) -/',
              'def services : List String := [' + ', '.join(_lean_str(s) for s in services) + ']', '',
              '/-- (function, effect): `cancel:<receiver>` for `<receiver>.cancel()`, `call:<callee>` for calls through',
              '    self / loop variables / locals, in source order, for the functions on the shutdown and close paths -/',
              'def effects : List (String × String) := [']
    lines += [f'  ({_lean_str(f)}, {_lean_str(e)}){"," if i + 1 < len(effects) else ""}' for i, (f, e) in enumerate(effects)]
    lines += [']', '', 'end AioslskVerif.Generated.TaskSites', '']
    text = '\n'.join(lines)
    if not out_path.exists() or out_path.read_text() != text:
        out_path.write_text(text)
    return str(out_path)


if __name__ == '__main__':
    import os
    import sys
    repo = Path(os.environ.get('VERIF_REPO', '/repo'))
    here = Path(__file__).resolve().parent.parent
    print(generate(repo, here / 'lean/AioslskVerif/Generated/TaskSites.lean'))
    if '-v' in sys.argv:
        print((here / 'lean/AioslskVerif/Generated/TaskSites.lean').read_text())
