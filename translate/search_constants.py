"""Regenerates Generated/SearchConstants.lean from /repo's working tree (ast; behavioural probe of the real generator as a fallback).

Reads
  * utils.py `ticket_generator`: the default of `initial`, the wrap literal, and checks that the body still
    has the shape the Lean model `Search.nextTicket` transcribes
        idx = initial
        while True:
            idx += 1
            if idx > LIT: idx = initial
            yield idx
    (any other shape raises: the hand-written model would no longer be a transcription);
  * constants.py `DEFAULT_WISHLIST_INTERVAL`;
  * settings.py `SearchSendSettings` defaults (`request_timeout`, `wishlist_request_timeout`, `store_results`).
"""
from __future__ import annotations

import ast
from pathlib import Path


class TranslateError(Exception):
    pass


def _const(node) -> int:
    if isinstance(node, ast.Constant) and isinstance(node.value, (int, bool)):
        return int(node.value)
    if isinstance(node, ast.UnaryOp) and isinstance(node.op, ast.USub):
        return -_const(node.operand)
    raise TranslateError(f'not an integer literal: {ast.dump(node)}')


def _ticket_generator_by_shape(repo: Path) -> tuple[int, int]:
    tree = ast.parse((repo / 'src/aioslsk/utils.py').read_text())
    fn = next((n for n in tree.body if isinstance(n, ast.FunctionDef) and n.name == 'ticket_generator'), None)
    if fn is None:
        raise TranslateError('utils.ticket_generator not found')
    if [a.arg for a in fn.args.args] != ['initial'] or len(fn.args.defaults) != 1:
        raise TranslateError('ticket_generator signature changed')
    initial = _const(fn.args.defaults[0])
    body = [n for n in fn.body if not (isinstance(n, ast.Expr) and isinstance(n.value, ast.Constant))]
    want = ("[Assign(targets=[Name(id='idx', ctx=Store())], value=Name(id='initial', ctx=Load())), "
            "While(test=Constant(value=True), body=[AugAssign(target=Name(id='idx', ctx=Store()), op=Add(), "
            "value=Constant(value=1)), If(test=Compare(left=Name(id='idx', ctx=Load()), ops=[Gt()], "
            "comparators=[Constant(value=LIT)]), body=[Assign(targets=[Name(id='idx', ctx=Store())], "
            "value=Name(id='initial', ctx=Load()))], orelse=[]), Expr(value=Yield(value=Name(id='idx', ctx=Load())))], "
            "orelse=[])]")
    try:
        lit = _const(body[1].body[1].test.comparators[0])
    except Exception as e:  # noqa
        raise TranslateError(f'ticket_generator body has an unknown shape: {e!r}')
    got = '[' + ', '.join(ast.dump(n) for n in body) + ']'
    if got != want.replace('LIT', str(lit)):
        raise TranslateError('ticket_generator body is no longer the loop the model transcribes: ' + got)
    return initial, lit


def _ticket_generator_by_behaviour(repo: Path) -> tuple[int, int]:
    """The body is not the loop the model transcribes literally (a rewrite): find the wrap literal among the integer
    constants of utils.py and accept it only if the REAL generator behaves exactly like `Search.nextTicket` with it —
    `next = idx + 1 if idx + 1 <= max else initial` — around the wrap and away from it (any other behaviour raises)."""
    import importlib
    import inspect
    import itertools
    src = repo / 'src/aioslsk/utils.py'
    utils = importlib.import_module('aioslsk.utils')
    if Path(inspect.getsourcefile(utils)).resolve() != src.resolve():
        raise TranslateError(f'aioslsk.utils is imported from {utils.__file__}, not from {src}')
    gen = getattr(utils, 'ticket_generator', None)
    if gen is None:
        raise TranslateError('utils.ticket_generator not found')
    params = list(inspect.signature(gen).parameters.values())
    if [q.name for q in params] != ['initial'] or not isinstance(params[0].default, int):
        raise TranslateError('ticket_generator signature changed')
    initial = params[0].default

    def model(init, mx, n):
        out, idx = [], init
        for _ in range(n):
            idx = idx + 1 if idx + 1 <= mx else init
            out.append(idx)
        return out

    def real(init, n):
        return list(itertools.islice(gen(init), n))
    cands = sorted({n.value for n in ast.walk(ast.parse(src.read_text()))
                    if isinstance(n, ast.Constant) and isinstance(n.value, int) and not isinstance(n.value, bool)
                    and n.value >= 0xFFFF}, reverse=True)
    for mx in cands:
        probes = [(mx - 2, 9), (mx - 1, 5), (mx, 4), (initial, 6), (7, 5), (mx // 2, 4)]
        if all(real(i, n) == model(i, mx, n) for i, n in probes):
            # nothing wraps earlier than the model says: a run across every smaller candidate stays on +1
            if all(real(c - 2, 5) == model(c - 2, mx, 5) for c in cands if c < mx):
                return initial, mx
    raise TranslateError(f'ticket_generator does not behave like the model (idx+1, wrap to `initial` above a literal) '
                         f'for any integer constant of utils.py {cands[:6]}')


def _ticket_generator(repo: Path) -> tuple[int, int]:
    try:
        return _ticket_generator_by_shape(repo)
    except TranslateError as shape_error:
        try:
            return _ticket_generator_by_behaviour(repo)
        except TranslateError as e:
            raise TranslateError(f'{shape_error}; and: {e}')
        except Exception as e:  # noqa: BLE001
            raise TranslateError(f'{shape_error}; behavioural probe failed: {e!r}')


def _module_int(repo: Path, rel: str, name: str) -> int:
    tree = ast.parse((repo / rel).read_text())
    for n in tree.body:
        if isinstance(n, ast.AnnAssign) and isinstance(n.target, ast.Name) and n.target.id == name and n.value is not None:
            return _const(n.value)
        if isinstance(n, ast.Assign) and any(isinstance(t, ast.Name) and t.id == name for t in n.targets):
            return _const(n.value)
    raise TranslateError(f'{name} not found in {rel}')


def _class_defaults(repo: Path, rel: str, cls: str, names: list[str]) -> dict[str, int]:
    tree = ast.parse((repo / rel).read_text())
    c = next((n for n in tree.body if isinstance(n, ast.ClassDef) and n.name == cls), None)
    if c is None:
        raise TranslateError(f'{cls} not found in {rel}')
    out = {}
    for n in c.body:
        if isinstance(n, ast.AnnAssign) and isinstance(n.target, ast.Name) and n.target.id in names and n.value is not None:
            out[n.target.id] = _const(n.value)
    missing = [x for x in names if x not in out]
    if missing:
        raise TranslateError(f'{cls}: defaults not found for {missing}')
    return out


def generate(repo: Path, lean: Path) -> str:
    initial, lit = _ticket_generator(repo)
    dwi = _module_int(repo, 'src/aioslsk/constants.py', 'DEFAULT_WISHLIST_INTERVAL')
    d = _class_defaults(repo, 'src/aioslsk/settings.py', 'SearchSendSettings',
                        ['request_timeout', 'wishlist_request_timeout', 'store_results'])
    if dwi < 0 or lit < 0 or initial < 0:
        raise TranslateError('negative constant')
    text = f"""/-! GENERATED by translate/search_constants.py from /repo — do not edit. -/
namespace AioslskVerif.Generated.Search

/-- utils.py `ticket_generator`: `if idx > {lit:#x}: idx = initial` -/
def maxTicket : Nat := {lit}
/-- utils.py `ticket_generator(initial={initial})` -/
def defaultInitial : Nat := {initial}
/-- constants.py DEFAULT_WISHLIST_INTERVAL -/
def defaultWishlistInterval : Nat := {dwi}
/-- settings.py SearchSendSettings defaults -/
def defaultRequestTimeout : Int := {d['request_timeout']}
def defaultWishlistRequestTimeout : Int := {d['wishlist_request_timeout']}
def defaultStoreResults : Bool := {'true' if d['store_results'] else 'false'}

end AioslskVerif.Generated.Search
"""
    out = lean / 'AioslskVerif/Generated/SearchConstants.lean'
    if not out.exists() or out.read_text() != text:
        out.write_text(text)
    return 'Generated/SearchConstants.lean'


if __name__ == '__main__':
    import sys
    print(generate(Path(sys.argv[1] if len(sys.argv) > 1 else '/repo'), Path(__file__).resolve().parent.parent / 'lean'))
