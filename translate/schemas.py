"""Message-schema translator: introspects aioslsk.protocol.messages (from the repo's working tree)
and emits (a) a JSON-able table used by the harness and (b) lean/AioslskVerif/Generated/Schemas.lean.

Unknown constructs raise TranslateError (never skipped silently).
"""
from __future__ import annotations

import dataclasses
import importlib
import inspect
import sys
from pathlib import Path


class TranslateError(Exception):
    pass


PRIMS = {'uint8': 'u8', 'uint16': 'u16', 'uint32': 'u32', 'uint64': 'u64', 'int32': 'i32',
         'boolean': 'bool', 'string': 'str', 'bytearr': 'bytes', 'ipaddr': 'ip',
         '_PeerInitTicket': 'ticket'}


def _load(repo: Path):
    src = str(repo / 'src')
    # fresh import of the protocol package from the given tree
    for k in [k for k in sys.modules if k == 'aioslsk' or k.startswith('aioslsk.')]:
        mod = sys.modules[k]
        f = getattr(mod, '__file__', '') or ''
        if not f.startswith(src):
            del sys.modules[k]
    if src not in sys.path:
        sys.path.insert(0, src)
    m = importlib.import_module('aioslsk.protocol.messages')
    p = importlib.import_module('aioslsk.protocol.primitives')
    if not (m.__file__ or '').startswith(src):
        raise TranslateError(f'aioslsk imported from {m.__file__}, expected under {src}')
    return m, p


def _ty(t, sub, prims, depth=0):
    """Wire type of a field as a nested tuple/dict."""
    name = t.__name__
    if name == 'array':
        if sub is None:
            raise TranslateError('array without subtype')
        return {'arr': _ty(sub, None, prims, depth + 1)}
    if dataclasses.is_dataclass(t):
        if not issubclass(t, prims.ProtocolDataclass):
            raise TranslateError(f'dataclass {name} is not a ProtocolDataclass')
        sub_fields = _fields(t, prims, depth + 1)
        for sf in sub_fields:
            if sf['optional'] or sf['cond'][0] != 'always':
                raise TranslateError(f'nested record {name}.{sf["name"]} has a guard/optional: not supported by the model')
        return {'record': name, 'fields': sub_fields}
    if name in PRIMS and (getattr(prims, name, None) is t or name == '_PeerInitTicket'):
        return {'prim': PRIMS[name]}
    raise TranslateError(f'unknown wire type {t!r}')


def _fields(cls, prims, depth=0):
    out = []
    flds = dataclasses.fields(cls)
    names = [f.name for f in flds]
    for f in flds:
        md = dict(f.metadata)
        if 'type' not in md:
            raise TranslateError(f'{cls.__qualname__}.{f.name}: no type metadata')
        known = {'type', 'subtype', 'if_true', 'if_false', 'optional'}
        if set(md) - known:
            raise TranslateError(f'{cls.__qualname__}.{f.name}: unknown metadata keys {set(md) - known}')
        cond = ['always']
        if 'if_true' in md and 'if_false' in md:
            raise TranslateError(f'{cls.__qualname__}.{f.name}: both if_true and if_false')
        for key in ('if_true', 'if_false'):
            if key in md:
                if md[key] not in names:
                    raise TranslateError(f'{cls.__qualname__}.{f.name}: guard {md[key]!r} is not a field')
                cond = [key, names.index(md[key])]
        optional = 'optional' in md     # the engine tests key presence, not the value
        default_none = f.default is None
        has_default = f.default is not dataclasses.MISSING or f.default_factory is not dataclasses.MISSING
        if f.default_factory is not dataclasses.MISSING:
            raise TranslateError(f'{cls.__qualname__}.{f.name}: default_factory not supported by the model')
        if f.default is dataclasses.MISSING:
            dflt = ['missing']
        elif f.default is None:
            dflt = ['none']
        elif isinstance(f.default, bool):
            # a bool default on an integer wire type is that integer (Python: False == 0)
            tname = md['type'].__name__
            dflt = ['bool', f.default] if tname == 'boolean' else ['nat', int(f.default)]
        elif isinstance(f.default, int) and f.default >= 0:
            dflt = ['nat', int(f.default)]
        else:
            raise TranslateError(f'{cls.__qualname__}.{f.name}: default {f.default!r} not supported by the model')
        out.append({'name': f.name, 'ty': _ty(md['type'], md.get('subtype'), prims, depth),
                    'cond': cond, 'optional': optional, 'default_none': default_none,
                    'has_default': has_default, 'dflt': dflt})
    return out


FAMILIES = [('ServerMessage', 'server'), ('PeerInitializationMessage', 'peerinit'),
            ('PeerMessage', 'peer'), ('DistributedMessage', 'distributed')]


def extract(repo: Path) -> list[dict]:
    m, prims = _load(repo)
    table = []
    for famcls, fam in FAMILIES:
        base = getattr(m, famcls)
        for msg in base.__subclasses__():
            for direction in ('Request', 'Response'):
                cls = getattr(msg, direction, None)
                if cls is None:
                    continue
                if not (dataclasses.is_dataclass(cls) and issubclass(cls, prims.MessageDataclass)):
                    raise TranslateError(f'{msg.__name__}.{direction} is not a MessageDataclass')
                mid = cls.MESSAGE_ID
                tname = type(mid).__name__
                if tname not in ('uint8', 'uint32'):
                    raise TranslateError(f'{cls.__qualname__}.MESSAGE_ID has type {tname}')
                # compression defaults of the public entry points
                sc = inspect.signature(cls.serialize).parameters.get('compress')
                dc = inspect.signature(cls.deserialize).parameters.get('decompress')
                if sc is None or dc is None or sc.default not in (True, False) or dc.default not in (True, False):
                    raise TranslateError(f'{cls.__qualname__}: unexpected serialize/deserialize signature')
                own = set(vars(cls)) & {'serialize_into', '_get_value_for_field', '_field_needs_deserialization'}
                if own:
                    raise TranslateError(f'{cls.__qualname__} overrides engine methods {own}')
                table.append({'family': fam, 'dir': direction.lower(), 'name': msg.__name__,
                              'id_width': 1 if tname == 'uint8' else 4, 'id': int(mid),
                              'compress': bool(sc.default), 'decompress': bool(dc.default),
                              'fields': _fields(cls, prims)})
    return table


# ------------------------------------------------------------------------------------------------
# Lean emission
# ------------------------------------------------------------------------------------------------

def _lean_ty(t) -> str:
    if 'prim' in t:
        return f'.prim .{t["prim"]}'
    if 'arr' in t:
        return f'.arr ({_lean_ty(t["arr"])})'
    return '.record [' + ', '.join(_lean_ty(f['ty']) for f in t['fields']) + ']'


def _lean_cond(c) -> str:
    if c[0] == 'always':
        return '.always'
    return f'.{"ifTrue" if c[0] == "if_true" else "ifFalse"} {c[1]}'


def _lean_field(f) -> str:
    d = f['dflt']
    dl = {'missing': '.missing', 'none': '.none'}.get(d[0]) or \
        (f'.bool {str(d[1]).lower()}' if d[0] == 'bool' else f'.nat {d[1]}')
    return f'⟨{_lean_ty(f["ty"])}, {_lean_cond(f["cond"])}, {str(f["optional"]).lower()}, {dl}⟩'


def emit_lean(table: list[dict], defname: str, namespace: str, header: str) -> str:
    lines = [header, 'import AioslskVerif.Model.Wire', f'namespace {namespace}',
             'open AioslskVerif.Wire', '', f'def {defname} : List MsgSchema := [']
    rows = []
    for s in table:
        rows.append(f'  -- {s["family"]} {s["name"]}.{s["dir"]}\n'
                    f'  ⟨.{s["family"]}, .{s["dir"]}, {s["id_width"]}, {s["id"]}, '
                    f'{str(s["compress"]).lower()}, {str(s["decompress"]).lower()},\n    ['
                    + ',\n     '.join(_lean_field(f) for f in s['fields']) + ']⟩')
    lines.append(',\n'.join(rows))
    lines += [']', '', f'end {namespace}', '']
    return '\n'.join(lines)


def generate(repo: Path, lean_dir: Path) -> tuple[str, list[dict]]:
    table = extract(repo)
    text = emit_lean(table, 'schemas', 'AioslskVerif.Generated.Schemas',
                     '-- GENERATED by translate/schemas.py from /repo/src/aioslsk/protocol/messages.py — do not edit.')
    p = lean_dir / 'AioslskVerif/Generated/Schemas.lean'
    if not p.exists() or p.read_text() != text:
        p.write_text(text)
    return str(p.relative_to(lean_dir)), table


if __name__ == '__main__':
    import json
    t = extract(Path(sys.argv[1] if len(sys.argv) > 1 else '/repo'))
    print(json.dumps(t, indent=1)[:3000])
    print(len(t))
