"""Regenerates lean/AioslskVerif/Generated/TransferTable.lean from transfer/state.py (AST walk).

For every `TransferState` subclass: its `VALUE`, and for every public method it overrides the ordered
effect list and the target state of `self.transfer.transition(XState(self.transfer))`, per transfer
direction (`if self.transfer.is_upload()/is_download()` is resolved per direction). Methods a class does
not override are "refuse, no effect" (the base-class methods are checked to be exactly that).
`_stop_transfer()` / `_cancel_transfer_tasks()` are expanded to what their bodies say.

A construct that is not recognised raises TranslateError — it is never skipped.
"""
from __future__ import annotations

import ast
from pathlib import Path

SRC = 'src/aioslsk/transfer/state.py'

# vocabulary of lean/AioslskVerif/Model/TransferBase.lean
ST = {'VIRGIN': 'virgin', 'QUEUED': 'queued', 'INITIALIZING': 'initializing', 'INCOMPLETE': 'incomplete',
      'DOWNLOADING': 'downloading', 'UPLOADING': 'uploading', 'COMPLETE': 'complete', 'FAILED': 'failed',
      'ABORTED': 'aborted', 'PAUSED': 'paused'}
METH = {'fail': 'fail', 'abort': 'abort', 'queue': 'queue', 'initialize': 'initialize', 'complete': 'complete',
        'incomplete': 'incomplete', 'start_transferring': 'start', 'pause': 'pause'}
# parameters (after self) each public method must keep: the model passes exactly these
PARAMS = {'fail': ['reason'], 'abort': ['reason'], 'queue': ['remotely'], 'initialize': [], 'complete': [],
          'incomplete': [], 'start_transferring': [], 'pause': []}
CALL_EFFECTS = {'set_start_time': 'setStartTime', 'set_complete_time': 'setCompleteTime',
                'reset_queue_vars': 'resetQueueVars', 'reset_time_vars': 'resetTimeVars',
                'reset_progress_vars': 'resetProgressVars', 'reset_local_vars': 'resetLocalVars'}
# (field, value source) -> effect
ASSIGN_EFFECTS = {('remotely_queued', 'remotely'): 'setRemotelyQueued',
                  ('fail_reason', 'reason'): 'setFailReason', ('abort_reason', 'reason'): 'setAbortReason',
                  ('fail_reason', None): 'clearFailReason', ('abort_reason', None): 'clearAbortReason'}
DIRS = ('upload', 'download')


class TranslateError(Exception):
    pass


def _err(node, msg):
    raise TranslateError(f'{SRC}:{getattr(node, "lineno", "?")}: {msg}')


def _is_self_transfer(node) -> bool:
    """`self.transfer`"""
    return (isinstance(node, ast.Attribute) and node.attr == 'transfer'
            and isinstance(node.value, ast.Name) and node.value.id == 'self')


def _is_docstring(st) -> bool:
    return isinstance(st, ast.Expr) and isinstance(st.value, ast.Constant) and isinstance(st.value.value, str)


def _direction_test(test):
    """`self.transfer.is_upload()` -> 'upload', `self.transfer.is_download()` -> 'download', else None."""
    if (isinstance(test, ast.Call) and not test.args and not test.keywords
            and isinstance(test.func, ast.Attribute) and _is_self_transfer(test.func.value)):
        if test.func.attr == 'is_upload':
            return 'upload'
        if test.func.attr == 'is_download':
            return 'download'
    return None


class _Ctx:
    def __init__(self, helpers, class_values):
        self.helpers = helpers            # private helper name -> list of effects (already expanded)
        self.class_values = class_values  # state class name -> lean St constructor


def _stmt_effects(st, direction, ctx: _Ctx, allow_transition: bool):
    """Returns (effects, target or None) for one statement."""
    # if self.transfer.is_upload()/is_download(): ... [else: ...]
    if isinstance(st, ast.If):
        d = _direction_test(st.test)
        if d is None:
            _err(st, 'unrecognised condition (only self.transfer.is_upload()/is_download() is understood): '
                 + ast.unparse(st.test))
        body = st.body if d == direction else st.orelse
        return _body_effects(body, direction, ctx, allow_transition, need_return=False)
    # self.transfer.<field> = reason | remotely | None
    if isinstance(st, ast.Assign):
        if len(st.targets) != 1:
            _err(st, 'multiple assignment targets')
        t = st.targets[0]
        if not (isinstance(t, ast.Attribute) and _is_self_transfer(t.value)):
            _err(st, 'unrecognised assignment target: ' + ast.unparse(t))
        if isinstance(st.value, ast.Name):
            src = st.value.id
        elif isinstance(st.value, ast.Constant) and st.value.value is None:
            src = None
        else:
            _err(st, 'unrecognised assigned value: ' + ast.unparse(st.value))
        eff = ASSIGN_EFFECTS.get((t.attr, src))
        if eff is None:
            _err(st, f'unrecognised field assignment: {ast.unparse(st)}')
        return [eff], None
    if isinstance(st, ast.Expr):
        v = st.value
        awaited = isinstance(v, ast.Await)
        if awaited:
            v = v.value
        if not (isinstance(v, ast.Call) and not v.keywords):
            _err(st, 'unrecognised expression statement: ' + ast.unparse(st))
        f = v.func
        # self.transfer.set_start_time() etc.
        if not awaited and isinstance(f, ast.Attribute) and _is_self_transfer(f.value) and not v.args:
            eff = CALL_EFFECTS.get(f.attr)
            if eff is None:
                _err(st, f'unrecognised call on the transfer: {f.attr}()')
            return [eff], None
        # await self._helper()
        if awaited and isinstance(f, ast.Attribute) and isinstance(f.value, ast.Name) and f.value.id == 'self' \
                and not v.args:
            if f.attr not in ctx.helpers:
                _err(st, f'unrecognised helper: self.{f.attr}()')
            return list(ctx.helpers[f.attr]), None
        # await _remove_local_file(self.transfer)
        if awaited and isinstance(f, ast.Name) and f.id == '_remove_local_file' and len(v.args) == 1 \
                and _is_self_transfer(v.args[0]):
            return ['removeLocalFile'], None
        # await self.transfer.transition(XState(self.transfer))
        if awaited and isinstance(f, ast.Attribute) and f.attr == 'transition' and _is_self_transfer(f.value):
            if not allow_transition:
                _err(st, 'transition() not allowed here')
            if len(v.args) != 1:
                _err(st, 'transition() takes one state object')
            a = v.args[0]
            if not (isinstance(a, ast.Call) and isinstance(a.func, ast.Name) and len(a.args) == 1
                    and not a.keywords and _is_self_transfer(a.args[0])):
                _err(st, 'unrecognised transition argument: ' + ast.unparse(a))
            if a.func.id not in ctx.class_values:
                _err(st, f'transition to unknown state class {a.func.id}')
            return [], ctx.class_values[a.func.id]
        _err(st, 'unrecognised call: ' + ast.unparse(st))
    if isinstance(st, ast.Pass):
        return [], None
    _err(st, f'unrecognised statement ({type(st).__name__}): ' + ast.unparse(st)[:80])


def _body_effects(stmts, direction, ctx, allow_transition, need_return):
    effects, target = [], None
    stmts = [s for s in stmts if not _is_docstring(s)]
    returned = False
    for i, st in enumerate(stmts):
        if isinstance(st, ast.Return):
            if not need_return:
                _err(st, 'return inside a conditional block is not understood')
            if i != len(stmts) - 1:
                _err(st, 'statements after return')
            if not (isinstance(st.value, ast.Constant) and st.value.value is True):
                _err(st, 'a state method that performs a transition must `return True`')
            returned = True
            continue
        if target is not None:
            _err(st, 'statement after transition(): the model assumes the transition is the last step')
        e, t = _stmt_effects(st, direction, ctx, allow_transition)
        effects += e
        if t is not None:
            target = t
    if need_return and not returned:
        _err(stmts[-1] if stmts else None, 'method does not end with `return True`')
    return effects, target


def _check_params(fn, name):
    a = fn.args
    if a.vararg or a.kwarg or a.kwonlyargs or a.posonlyargs:
        _err(fn, f'{name}: unusual signature')
    names = [x.arg for x in a.args]
    if names != ['self'] + PARAMS[name]:
        _err(fn, f'{name}: parameters {names} (expected self + {PARAMS[name]})')


def _check_refusing(fn):
    """Base-class method: may log and compute local names, must `return False`, touches nothing."""
    stmts = [s for s in fn.body if not _is_docstring(s)]
    if not stmts or not (isinstance(stmts[-1], ast.Return) and isinstance(stmts[-1].value, ast.Constant)
                         and stmts[-1].value.value is False):
        _err(fn, f'base method {fn.name} does not end with `return False`')
    for st in stmts[:-1]:
        ok = False
        if isinstance(st, ast.Expr) and isinstance(st.value, ast.Call) and isinstance(st.value.func, ast.Attribute) \
                and isinstance(st.value.func.value, ast.Name) and st.value.func.value.id == 'logger':
            ok = True
        if isinstance(st, ast.Assign) and all(isinstance(t, ast.Name) for t in st.targets):
            ok = True
        if not ok:
            _err(st, f'base method {fn.name}: unrecognised statement ' + ast.unparse(st)[:80])
        for n in ast.walk(st):
            if isinstance(n, ast.Await):
                _err(st, f'base method {fn.name} awaits')
            if isinstance(n, ast.Call) and isinstance(n.func, ast.Attribute) and _is_self_transfer(n.func.value) \
                    and n.func.attr not in ('is_upload', 'is_download'):
                _err(st, f'base method {fn.name} calls self.transfer.{n.func.attr}()')


def extract(repo: Path) -> dict:
    tree = ast.parse((repo / SRC).read_text())
    classes = {n.name: n for n in tree.body if isinstance(n, ast.ClassDef)}
    funcs = {n.name for n in tree.body if isinstance(n, (ast.FunctionDef, ast.AsyncFunctionDef))}
    if 'TransferState' not in classes:
        raise TranslateError(f'{SRC}: class TransferState not found')
    for need in ('_with_state_lock', '_remove_local_file'):
        if need not in funcs:
            raise TranslateError(f'{SRC}: function {need} not found')
    base = classes['TransferState']

    # --- State enum
    enum_vals = {}
    for st in base.body:
        if isinstance(st, ast.ClassDef) and st.name == 'State':
            for a in st.body:
                if isinstance(a, ast.Assign) and len(a.targets) == 1 and isinstance(a.targets[0], ast.Name):
                    enum_vals[a.targets[0].id] = ast.literal_eval(a.value)
                elif not _is_docstring(a):
                    _err(a, 'unrecognised statement in State enum')
    if set(enum_vals) != set(ST) | {'UNSET'}:
        raise TranslateError(f'{SRC}: State members {sorted(enum_vals)} differ from the model vocabulary '
                             f'{sorted(set(ST) | {"UNSET"})}')
    if len(set(enum_vals.values())) != len(enum_vals):
        raise TranslateError(f'{SRC}: State values are not distinct: {enum_vals}')

    # --- base class: public methods refuse; helpers
    base_public = {}
    helper_nodes = {}
    for st in base.body:
        if isinstance(st, ast.AsyncFunctionDef):
            if st.name.startswith('_'):
                helper_nodes[st.name] = st
            else:
                base_public[st.name] = st
    if set(base_public) != set(METH):
        raise TranslateError(f'{SRC}: public async methods of TransferState {sorted(base_public)} differ from '
                             f'the model vocabulary {sorted(METH)}')
    for name, fn in base_public.items():
        _check_params(fn, name)
        _check_refusing(fn)

    helpers: dict[str, list[str]] = {}
    # _cancel_transfer_tasks: await asyncio.gather(*self.transfer.cancel_tasks(), return_exceptions=True)
    fn = helper_nodes.get('_cancel_transfer_tasks')
    if fn is None:
        raise TranslateError(f'{SRC}: helper _cancel_transfer_tasks not found')
    body = [s for s in fn.body if not _is_docstring(s)]
    expected = 'await asyncio.gather(*self.transfer.cancel_tasks(), return_exceptions=True)'
    if len(body) != 1 or ast.unparse(body[0]) != expected:
        _err(fn, f'_cancel_transfer_tasks is not `{expected}`')
    helpers['_cancel_transfer_tasks'] = ['cancelTasks']
    ctx = _Ctx(helpers, {})
    for name, fn in helper_nodes.items():
        if name in helpers:
            continue
        if fn.args.args and [a.arg for a in fn.args.args] != ['self']:
            _err(fn, f'helper {name} takes parameters')
        effs, tgt = _body_effects(fn.body, 'upload', ctx, allow_transition=False, need_return=False)
        effs_d, _ = _body_effects(fn.body, 'download', ctx, allow_transition=False, need_return=False)
        if effs != effs_d:
            _err(fn, f'helper {name} depends on the direction')
        helpers[name] = effs

    # --- subclasses
    sub = {}
    for name, c in classes.items():
        if name == 'TransferState':
            continue
        bases = [ast.unparse(b) for b in c.bases]
        if bases == ['TransferState']:
            sub[name] = c
        elif 'TransferState' in bases or any(b in sub for b in bases):
            _err(c, f'class {name}: unusual bases {bases}')
    class_values = {}
    for name, c in sub.items():
        val = None
        for st in c.body:
            if isinstance(st, ast.Assign) and len(st.targets) == 1 and isinstance(st.targets[0], ast.Name) \
                    and st.targets[0].id == 'VALUE':
                v = st.value
                if isinstance(v, ast.Attribute) and isinstance(v.value, ast.Name) and v.value.id == 'TransferState' \
                        and v.attr in ST:
                    val = v.attr
                else:
                    _err(st, f'class {name}: unrecognised VALUE ' + ast.unparse(v))
        if val is None:
            _err(c, f'class {name} has no VALUE')
        if val in [x for x in class_values.values()]:
            _err(c, f'two classes with VALUE {val}')
        class_values[name] = val
    if set(class_values.values()) != set(ST):
        raise TranslateError(f'{SRC}: states without a class: {sorted(set(ST) - set(class_values.values()))}')
    ctx = _Ctx(helpers, {k: ST[v] for k, v in class_values.items()})

    table = {}   # (state name, method) -> {dir: (target, effects)}
    for cname, c in sub.items():
        sname = class_values[cname]
        for st in c.body:
            if _is_docstring(st):
                continue
            if isinstance(st, ast.Assign):
                if len(st.targets) == 1 and isinstance(st.targets[0], ast.Name) and st.targets[0].id == 'VALUE':
                    continue
                _err(st, f'class {cname}: unrecognised class attribute')
            if isinstance(st, ast.AsyncFunctionDef):
                if st.decorator_list:
                    _err(st, f'{cname}.{st.name}: decorators are not understood')
                if st.name not in METH:
                    _err(st, f'{cname}.{st.name}: not a known public state method')
                _check_params(st, st.name)
                per = {}
                for d in DIRS:
                    effs, tgt = _body_effects(st.body, d, ctx, allow_transition=True, need_return=True)
                    if tgt is None:
                        _err(st, f'{cname}.{st.name}: returns True without a transition ({d})')
                    per[d] = (tgt, effs)
                table[(sname, st.name)] = per
                continue
            _err(st, f'class {cname}: unrecognised member ({type(st).__name__})')
    return {'enum': enum_vals, 'classes': class_values, 'helpers': helpers, 'table': table}


def extract_by_behaviour(repo: Path) -> dict:
    """The same table read off the RUNNING code: for every direction x state class x public method the method is called on a
    real `Transfer` whose collaborators are spies, and the ordered effects and the target of `transition()` are recorded.
    The domain is finite (2 x 10 x 8), so this is a complete reading, independent of how the code is written (helpers,
    shared implementations). Used to cross-check the AST reading and as the reading itself when the source has a shape
    the AST walk does not know."""
    import asyncio
    import importlib
    import inspect
    st_mod = importlib.import_module('aioslsk.transfer.state')
    md_mod = importlib.import_module('aioslsk.transfer.model')
    if Path(inspect.getsourcefile(st_mod)).resolve() != (repo / SRC).resolve():
        raise TranslateError(f'aioslsk.transfer.state is imported from {st_mod.__file__}, not from {repo / SRC}')
    TS = st_mod.TransferState
    enum_vals = {m.name: m.value for m in TS.State}
    if set(enum_vals) != set(ST) | {'UNSET'}:
        raise TranslateError(f'State members {sorted(enum_vals)} differ from the model vocabulary')
    class_values = {}
    for c in TS.__subclasses__():
        if c.VALUE.name in class_values.values():
            raise TranslateError(f'two classes with VALUE {c.VALUE.name}')
        class_values[c.__name__] = c.VALUE.name
    if set(class_values.values()) != set(ST):
        raise TranslateError(f'states without a class: {sorted(set(ST) - set(class_values.values()))}')
    REASON, REMOTELY = 'reason-sentinel', 'remotely-sentinel'
    FIELDS = {'remotely_queued': REMOTELY, 'fail_reason': REASON, 'abort_reason': REASON}
    table = {}

    async def probe(cls, meth, direction):
        log, depth = [], [0]
        Base = md_mod.Transfer

        class Spy(Base):
            def __setattr__(self, k, v):
                if k in FIELDS and depth[0] == 0 and self.__dict__.get('_spy_on'):
                    if v == FIELDS[k]:
                        log.append(ASSIGN_EFFECTS[(k, 'remotely' if k == 'remotely_queued' else 'reason')])
                    elif v is None and (k, None) in ASSIGN_EFFECTS:
                        log.append(ASSIGN_EFFECTS[(k, None)])
                    else:
                        raise TranslateError(f'{cls.__name__}.{meth}: assigns {k} = {v!r} (neither the parameter nor None)')
                object.__setattr__(self, k, v)
        t = Spy('user', 'remote\\path', md_mod.TransferDirection.UPLOAD if direction == 'upload'
                else md_mod.TransferDirection.DOWNLOAD)
        t.state = cls(t)
        target = []

        def wrap_call(name, eff):
            orig = getattr(t, name)

            def f(*a, **k):
                log.append(eff)
                depth[0] += 1
                try:
                    return orig(*a, **k)
                finally:
                    depth[0] -= 1
            object.__setattr__(t, name, f)
        for name, eff in CALL_EFFECTS.items():
            wrap_call(name, eff)

        def cancel_tasks():
            log.append('cancelTasks')
            return []
        object.__setattr__(t, 'cancel_tasks', cancel_tasks)

        async def transition(state):
            target.append(type(state).VALUE.name)
            object.__setattr__(t, 'state', state)
        object.__setattr__(t, 'transition', transition)

        async def remove_local_file(transfer):
            if transfer is not t:
                raise TranslateError('_remove_local_file called for another transfer')
            log.append('removeLocalFile')
            # the effect statement is the call; what the call answers its caller is what the real helper answers when the
            # file system raises nothing (the probe transfer has no local_path: nothing is looked up, nothing removed) —
            # None today, but a helper that reports success must be heard saying so
            depth[0] += 1
            try:
                return await saved(transfer)
            finally:
                depth[0] -= 1
        saved = st_mod._remove_local_file
        st_mod._remove_local_file = remove_local_file
        object.__setattr__(t, '_spy_on', True)
        try:
            kwargs = {q: (REASON if q == 'reason' else REMOTELY) for q in PARAMS[meth]}
            res = await getattr(t.state, meth)(**kwargs)
        finally:
            st_mod._remove_local_file = saved
        if res is False or res is None and not target:
            if log or target:
                raise TranslateError(f'{cls.__name__}.{meth} ({direction}): refused (returned {res!r}) but had effects {log}')
            return None
        if res is not True or len(target) != 1:
            raise TranslateError(f'{cls.__name__}.{meth} ({direction}): returned {res!r} with transitions {target}')
        return (ST[target[0]], log)

    async def run_all():
        for c in TS.__subclasses__():
            for meth in METH:
                per = {}
                for d in DIRS:
                    per[d] = await probe(c, meth, d)
                if per['upload'] is None and per['download'] is None:
                    continue
                if per['upload'] is None or per['download'] is None:
                    raise TranslateError(f'{c.__name__}.{meth}: refused for one direction only')
                table[(c.VALUE.name, meth)] = per
    loop = asyncio.new_event_loop()
    try:
        loop.run_until_complete(run_all())
    finally:
        loop.close()
    return {'enum': enum_vals, 'classes': class_values, 'helpers': {}, 'table': table}


def extract_checked(repo: Path) -> dict:
    """AST reading cross-checked against the behavioural reading; the behavioural reading alone when the source has a
    shape the AST walk does not know (a refactoring), provided the running code can be probed at all."""
    try:
        info = extract(repo)
    except TranslateError as shape_error:
        try:
            return extract_by_behaviour(repo)
        except TranslateError as e:
            raise TranslateError(f'{shape_error}; and the behavioural reading failed: {e}')
        except Exception as e:  # noqa: BLE001
            raise TranslateError(f'{shape_error}; and the behavioural reading failed: {e!r}')
    try:
        beh = extract_by_behaviour(repo)
    except TranslateError as e:
        if 'is imported from' in str(e):
            return info                       # the tree under test is not the importable one: AST reading only
        raise
    for k in ('enum', 'classes'):
        if info[k] != beh[k]:
            raise TranslateError(f'AST and behavioural reading disagree on {k}: {info[k]} vs {beh[k]}')
    a = {k: {d: (t, list(e)) for d, (t, e) in per.items()} for k, per in info['table'].items()}
    b = {k: {d: (t, list(e)) for d, (t, e) in per.items()} for k, per in beh['table'].items()}
    if a != b:
        diff = sorted(k for k in set(a) | set(b) if a.get(k) != b.get(k))
        raise TranslateError(f'AST and behavioural reading of state.py disagree on {diff[:4]}: '
                             f'{[(a.get(k), b.get(k)) for k in diff[:2]]}')
    return info


STATE_CLASS_HINTS = ('TransferState', 'init_from_state')


def outside_sites(repo: Path) -> list:
    """Where a transfer's state is written OUTSIDE the state classes: per source file (transfer/state.py excluded — that
    file is what the table above is read from), the number of direct assignments to a `.state` attribute and of calls of a
    `.transition(…)` method. Outside `transfer/` an assignment only counts when its right-hand side names the transfer
    state classes (connections and tracked users have a `state` attribute of their own).
    Sorted list of (file relative to src/aioslsk, 'assign' | 'transition', count)."""
    root = repo / 'src/aioslsk'
    out = []
    for f in sorted(root.rglob('*.py')):
        rel = f.relative_to(root).as_posix()
        if rel == 'transfer/state.py':
            continue
        try:
            tree = ast.parse(f.read_text())
        except SyntaxError as e:
            raise TranslateError(f'{rel}: {e}')
        in_transfer = rel.startswith('transfer/')
        n_assign = n_trans = 0
        for n in ast.walk(tree):
            targets, value = [], None
            if isinstance(n, ast.Assign):
                targets, value = n.targets, n.value
            elif isinstance(n, (ast.AnnAssign, ast.AugAssign)):
                targets, value = [n.target], n.value
            elif isinstance(n, ast.NamedExpr):
                targets, value = [n.target], n.value
            for t in targets:
                for tt in (t.elts if isinstance(t, (ast.Tuple, ast.List)) else [t]):
                    if isinstance(tt, ast.Attribute) and tt.attr == 'state':
                        src = ast.unparse(value) if value is not None else ''
                        names_states = any(h in src for h in STATE_CLASS_HINTS) or \
                            any(isinstance(x, ast.Name) and x.id.endswith('State') and x.id != 'ConnectionState'
                                for x in ast.walk(value)) if value is not None else False
                        if in_transfer or names_states:
                            n_assign += 1
            if isinstance(n, ast.Call) and isinstance(n.func, ast.Attribute) and n.func.attr == 'transition':
                n_trans += 1
            # setattr(x, 'state', …)
            if isinstance(n, ast.Call) and isinstance(n.func, ast.Name) and n.func.id == 'setattr' and len(n.args) >= 2 \
                    and isinstance(n.args[1], ast.Constant) and n.args[1].value == 'state' and in_transfer:
                n_assign += 1
        if n_assign:
            out.append((rel, 'assign', n_assign))
        if n_trans:
            out.append((rel, 'transition', n_trans))
    return out


def edges(info: dict) -> set:
    """(direction, from, to) triples of the table (used by the harness for reporting)."""
    out = set()
    for (s, _m), per in info['table'].items():
        for d, (t, _e) in per.items():
            out.add((d, ST[s], t))
    return out


def render(info: dict) -> str:
    L = []
    L.append('-- GENERATED by translate/transfer_table.py from /repo/src/aioslsk/transfer/state.py — do not edit.')
    L.append('import AioslskVerif.Model.TransferBase')
    L.append('namespace AioslskVerif.Generated.Transfer')
    L.append('open AioslskVerif.Transfer')
    L.append('')
    L.append('/-- `XState.VALUE.value` -/')
    L.append('def stateValue : St → Int')
    for py, lean in ST.items():
        L.append(f'  | .{lean} => {info["enum"][py]}')
    L.append('')
    L.append('/-- name of the state class -/')
    L.append('def className : St → String')
    inv = {v: k for k, v in info['classes'].items()}
    for py, lean in ST.items():
        L.append(f'  | .{lean} => "{inv[py]}"')
    L.append('')
    L.append('/-- What the method does when dispatched on an object of the state class: `none` = not overridden')
    L.append('(base class: log a warning, `return False`), `some (target, effects)` = the ordered effect')
    L.append('statements followed by `await self.transfer.transition(Target(self.transfer)); return True`. -/')
    L.append('def implStep : Dir → St → Meth → Option (St × List Eff)')
    n = 0
    for py in ST:
        for m in METH:
            per = info['table'].get((py, m))
            if per is None:
                continue
            n += 1
            fmt = lambda te: f'some (.{te[0]}, [{", ".join("." + e for e in te[1])}])'
            if per['upload'] == per['download']:
                L.append(f'  | _, .{ST[py]}, .{METH[m]} => {fmt(per["upload"])}')
            else:
                for d in DIRS:
                    L.append(f'  | .{d}, .{ST[py]}, .{METH[m]} => {fmt(per[d])}')
    L.append('  | _, _, _ => none')
    L.append('')
    L.append(f'/-- number of overridden (state, method) pairs -/')
    L.append(f'def overriddenCount : Nat := {n}')
    if 'outside' in info:
        L.append('')
        L.append('/-- state writes outside the state classes: (file under src/aioslsk, kind, count); kind `assign` = direct')
        L.append('assignment to a `.state` attribute, `transition` = call of `.transition(…)`; transfer/state.py excluded -/')
        L.append('def outsideSites : List (String × String × Nat) :=')
        L.append('  [' + ', '.join(f'("{a}", "{b}", {c})' for a, b, c in info['outside']) + ']')
    L.append('end AioslskVerif.Generated.Transfer')
    return '\n'.join(L) + '\n'


def generate(repo: Path, lean_dir: Path) -> str:
    info = dict(extract_checked(repo))
    info['outside'] = outside_sites(repo)
    text = render(info)
    p = lean_dir / 'AioslskVerif/Generated/TransferTable.lean'
    if not p.exists() or p.read_text() != text:
        p.write_text(text)
    return str(p.relative_to(lean_dir))


if __name__ == '__main__':
    import sys
    print(render(extract(Path(sys.argv[1] if len(sys.argv) > 1 else '/repo'))))
