#!/bin/sh
# MANIFEST.setup_cmd — offline build of the Lean library (models, drivers, theorems) from files on disk.
set -e
cd "$(dirname "$0")/lean"
lake build 2>&1 | tail -n 5
