#!/bin/sh
# MANIFEST.setup_cmd — offline build of the Lean library (models, drivers, theorems) from files on disk.
set -e
cd "$(dirname "$0")/lean"
# shellcheck disable=SC2046
lake build $(cat targets.txt) 2>&1 | tail -n 5
