"""Entry point: ./check Cxx [--tier quick|thorough] [--replay PATH]"""
import argparse
import importlib
import os
import sys
from pathlib import Path

HERE = Path(__file__).resolve().parent
sys.path.insert(0, str(HERE))
REPO = os.environ.get('VERIF_REPO', '/repo')
sys.path.insert(0, str(Path(REPO) / 'src'))
os.environ.setdefault('AIOSLSK_VERIF', '1')


def main() -> int:
    ap = argparse.ArgumentParser()
    ap.add_argument('prop')
    ap.add_argument('--tier', default=os.environ.get('VERIF_TIER', 'quick'))
    ap.add_argument('--replay')
    a = ap.parse_args()
    if os.environ.get('PYTHONHASHSEED') is None:
        # str/bytes hashing decides the iteration order of the library's sets: derive it from the seed (a replay: from the
        # seed recorded in the replay file) so that a run is reproducible and different seeds explore different orders
        seed = os.environ.get('VERIF_SEED', '0')
        if a.replay:
            try:
                import json
                seed = str(json.loads(Path(a.replay).read_text()).get('seed', seed))
            except (OSError, ValueError):
                pass
        try:
            hs = str(int(seed) % 4294967295)
        except ValueError:
            hs = '0'
        os.execve(sys.executable, [sys.executable] + sys.argv, dict(os.environ, PYTHONHASHSEED=hs))
    from vlib import common
    try:
        mod = importlib.import_module(f'props.{a.prop.lower()}')
    except ModuleNotFoundError as e:
        print(f'no check for {a.prop}: {e}', file=sys.stderr)
        return 2
    prop = mod.PROPERTY
    if a.replay:
        return common.run_replay(prop, a.replay)
    return common.run_check(prop, a.tier, common.env_seed())


if __name__ == '__main__':
    try:
        sys.exit(main())
    except KeyboardInterrupt:
        sys.exit(2)
