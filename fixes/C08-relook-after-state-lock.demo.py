"""Side observation (C08, outside the alphabet of the check): a peer's PeerTransferQueue for a FAILED upload arrives while the
upload's state lock is still held (the `fail()` transition is telling its listeners); the user is blocked for uploads; the
management cycle looks at the upload (FAILED: skipped); the listeners return, the handler's `queue()` gets the lock."""
import asyncio, logging, os, sys, tempfile
from unittest.mock import AsyncMock, MagicMock, Mock
from aioslsk.events import EventBus, MessageReceivedEvent
from aioslsk.protocol.messages import PeerTransferQueue
from aioslsk.settings import Settings
from aioslsk.shares.manager import SharesManager
from aioslsk.transfer.manager import TransferManager
from aioslsk.transfer.model import TransferDirection
from aioslsk.user.manager import UserManager
from aioslsk.user.model import BlockingFlag
logging.disable(logging.CRITICAL)

class SlowListener:
    def __init__(self): self.gate = None
    async def on_transfer_state_changed(self, transfer, old, new):
        if self.gate is not None:
            g, self.gate = self.gate, None
            await g.wait()

async def main():
    with tempfile.TemporaryDirectory() as tmp:
        d = os.path.join(os.path.realpath(tmp), 'music'); os.makedirs(d)
        open(os.path.join(d, 'song.mp3'), 'wb').write(b'x' * 1000)
        settings = Settings(credentials={'username': 'me', 'password': 'pw'})
        settings.transfers.limits.upload_slots = 0
        bus = EventBus(); net = AsyncMock(); net.queue_server_messages = Mock()
        users = UserManager(settings, bus, net); users.track_user = AsyncMock(); users.untrack_user = AsyncMock()
        shares = SharesManager(settings, bus, net)
        xfer = TransferManager(settings, bus, users, shares, net)
        shares.add_shared_directory(d); await shares.scan()
        await users.start(); await xfer.start()
        (item,) = shares.shared_directories[0].items
        path = item.get_remote_path()
        conn = Mock(); conn.username = 'leech'
        await bus.emit(MessageReceivedEvent(PeerTransferQueue.Request(path), conn))
        up = xfer.find_transfer('leech', path, TransferDirection.UPLOAD)
        listener = SlowListener(); up.state_listeners.append(listener)
        await up.state.initialize()
        listener.gate = asyncio.Event(); gate = listener.gate
        failing = asyncio.create_task(up.state.fail('Connection broke'))     # the upload's task reports a failure
        await asyncio.sleep(0.05)
        print('fail() under way: shows', up.state.VALUE.name, 'lock held:', up._state_lock.locked())
        asking = asyncio.create_task(bus.emit(MessageReceivedEvent(PeerTransferQueue.Request(path), conn)))   # the peer asks again
        await asyncio.sleep(0.05)
        settings.users.blocked['leech'] = BlockingFlag.UPLOADS               # ... and is blocked
        await asyncio.sleep(1.5)                                             # poll + management cycle
        gate.set()                                                           # the listener returns
        await asyncio.gather(failing, asking)
        await asyncio.sleep(1.5)
        print('end: upload to blocked user', up.state.VALUE.name, up.abort_reason, '| cycle requested:', bool(xfer._management_flags))
        ts = await xfer.stop() + await users.stop()
        await asyncio.gather(*ts, return_exceptions=True)
        return 1 if up.state.VALUE.name == 'QUEUED' else 0
sys.exit(asyncio.run(main()))
