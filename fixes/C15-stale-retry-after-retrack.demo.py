"""Stand-alone replay for fixes/C15-stale-retry-after-retrack.patch (no /verif machinery).

The real `UserManager` runs against an in-memory stand-in for the network on a virtual-time event loop. The first
AddUser cannot be sent (RETRY_PENDING, retry due 10 s later). An application task that is running while the retry timer
fires calls `untrack_user` + `track_user` in the loop iteration before the retry task wakes up: both requests are put on
the queue ahead of the retry request, and the worker they wake runs after the retry task.

Usage: PYTHONPATH=<tree>/src /venv/bin/python C15-stale-retry-after-retrack.demo.py     exit 1 = duplicate AddUser
"""
import asyncio
import logging
import sys

from aioslsk.events import EventBus
from aioslsk.exceptions import ConnectionWriteError
from aioslsk.protocol.messages import AddUser
from aioslsk.settings import Settings
from aioslsk.user.manager import UserManager
from aioslsk.user.model import TrackingFlag

logging.disable(logging.CRITICAL)


class VirtualTimeLoop(asyncio.SelectorEventLoop):
    def __init__(self):
        super().__init__()
        self._vtime = 0.0

    def time(self):
        return self._vtime

    def passes(self, when):
        self._vtime = max(self._vtime, when)

    def _run_once(self):
        if not self._ready and self._scheduled and self._scheduled[0]._when > self._vtime:
            self._vtime = self._scheduled[0]._when
        super()._run_once()


class Network:
    def __init__(self):
        self.wire = []

    async def send_server_messages(self, *messages, raise_on_error=True):
        loop = asyncio.get_running_loop()
        for message in messages:
            self.wire.append((loop.time(), type(message).__qualname__.split('.')[0], message.username))
        await asyncio.sleep(0)
        if len(self.wire) == 1:
            raise ConnectionWriteError('the first request cannot be written')

    async def wait_for_server_message(self, message_class, fields=None, timeout=10):
        await asyncio.sleep(0)
        return AddUser.Response(fields['username'], exists=True, status=2, country_code='XX')


async def main():
    network = Network()
    users = UserManager(Settings(credentials={'username': 'me', 'password': 'pw'}), EventBus(), network)

    async def application():
        # busy elsewhere until just before the retry is due; the clock passes that instant while this task is running
        # (a real clock does that by itself, the virtual one is told), the task gives way twice — first the timer handle
        # runs, then this task is ahead of the retry task it has woken — and changes its mind about bob twice
        await asyncio.sleep(10 - 1e-6)
        loop.passes(10.0)
        await asyncio.sleep(0)
        await asyncio.sleep(0)
        await users.untrack_user('bob', TrackingFlag.REQUESTED)
        await users.track_user('bob', TrackingFlag.REQUESTED)

    loop = asyncio.get_running_loop()
    await users.track_user('bob', TrackingFlag.REQUESTED)
    app = asyncio.ensure_future(application())
    await asyncio.sleep(60)
    await app
    print('state :', users.get_tracking_state('bob').name, users.get_tracking_flags('bob'))
    for entry in network.wire:
        print('wire  :', entry)
    adds_after_remove = [e for e in network.wire[2:] if e[1] == 'AddUser']
    tasks = users.stop() if hasattr(users, 'stop') and not asyncio.iscoroutinefunction(users.stop) else await users.stop()
    for task in tasks or []:
        task.cancel()
    return len(adds_after_remove)


if __name__ == '__main__':
    loop = VirtualTimeLoop()
    asyncio.set_event_loop(loop)
    try:
        n = loop.run_until_complete(main())
    finally:
        loop.close()
    if n != 1:
        print(f'RESULT: {n} AddUser requests after the RemoveUser: the retry that was called off was honoured')
        sys.exit(1)
    print('RESULT: one AddUser per empty -> non-empty change')
