import asyncio, logging
from unittest.mock import AsyncMock, Mock
from aioslsk.events import EventBus
from aioslsk.protocol.messages import PeerTransferRequest
from aioslsk.settings import Settings
from aioslsk.transfer.manager import TransferManager
from aioslsk.transfer.model import Transfer, TransferDirection
from aioslsk.user.manager import UserManager
logging.disable(logging.CRITICAL)

class Net:
    def __init__(self): self.log=[]
    async def send_peer_messages(self, u, *m, raise_on_error=True):
        try:
            await asyncio.get_running_loop().create_future()
        except asyncio.CancelledError:
            await asyncio.sleep(0); await asyncio.sleep(0)
            raise

async def main():
    s = Settings(credentials={'username':'me','password':'pw'})
    eb = EventBus(); um = UserManager(s, eb, AsyncMock()); um.track_user=AsyncMock(); um.untrack_user=AsyncMock()
    net = Net(); m = TransferManager(s, eb, um, AsyncMock(), net)
    t = await m.add(Transfer('p','f',TransferDirection.DOWNLOAD)); await t.state.queue()
    m.manage_transfers(); await asyncio.sleep(0); await asyncio.sleep(0)
    conn = Mock(); conn.username='p'; sent=[]
    async def send_message(msg): sent.append(msg)
    conn.send_message = send_message
    ab = asyncio.create_task(m.abort(t))
    await asyncio.sleep(0)   # abort holds the lock, waits for cancelled task
    print('locked', t._state_lock.locked(), t.state.VALUE)
    await m._on_peer_transfer_request(PeerTransferRequest.Request(1, 77, 'f', filesize=10), conn)
    await ab
    print('abort returned', t.state.VALUE, t.filesize)
    for _ in range(10): await asyncio.sleep(0)
    print('after', t.state.VALUE, t.filesize, sent, t._transfer_task)
    t.cancel_tasks()
asyncio.run(main())
