"""side observation: the application reconnects by hand while the watchdog is in its reconnect delay."""
import sys, asyncio, logging, tempfile, shutil
sys.path.insert(0, '/verif')
from vlib import simloop, fakenet
import props.c16 as P
def run():
    from aioslsk.client import SoulSeekClient
    from aioslsk.settings import Settings
    from aioslsk.protocol import messages as m
    logging.disable(logging.CRITICAL)
    tmp = tempfile.mkdtemp(prefix='c16x-')
    async def main(loop):
        net = fakenet.FakeNet().install()
        srv = P._Server(m)
        net.endpoints[('srv', P.SERVER_PORT)] = fakenet.Endpoint('accept', srv.handler)
        settings = Settings(credentials={'username': 'me', 'password': 'pw'},
            network={'server': {'hostname': 'srv', 'port': P.SERVER_PORT, 'reconnect': {'auto': True, 'timeout': 10}},
                     'listening': {'port': 60000, 'obfuscated_port': 60001, 'error_mode': 'clear'}, 'upnp': {'enabled': False}},
            users={'friends': ['f1']}, shares={'scan_on_start': False, 'download': tmp})
        client = SoulSeekClient(settings)
        sconn = client.network.server_connection
        def snap(tag):
            print(tag, dict(state=sconn.state.name, session=client.session is not None, open=net.open_sockets(), att=len(net.attempts),
                            logins=sum(1 for x in srv.received if isinstance(x, m.Login.Request))))
        await client.start(); await client.login(); await simloop.settle(); snap('logged in')
        srv.writers[-1].reset(); await simloop.settle(); snap('lost')
        await asyncio.sleep(2); snap('2 s later (watchdog sleeping)')
        await client.network.connect_server(); await client.login(); await simloop.settle(); snap('manual reconnect + login')
        await asyncio.sleep(12); await simloop.settle(); snap('12 s later')
        await client.stop(); snap('stop returned')
        net.uninstall()
    try: simloop.run(main, wall_timeout=60)
    finally: shutil.rmtree(tmp, ignore_errors=True)
run()
