import AioslskVerif.Proofs.ExpectLife
/-!
# C12 — a reply completes exactly the requests it answers; a timeout is a timeout

Property theorems only (model: `Model/Expect.lean`, helpers: `Proofs/Expect.lean`).  The model is the
code **with** `fixes/C12-done-guards.patch`, `fixes/C12-predicate-fields.patch` and
`fixes/C12-execute-cancel-during-send.patch` applied.
`run ops` is the state after any list of operations (requests created, callers starting to await,
messages *entering* `on_message_received` (`arrive`), their handlers *having returned* (`finish` = the
completion loop), connections changing state, timeouts, task/future cancellations, failing sends,
scheduled callbacks run one at a time) — i.e. any schedule; a waiter's identity is its index in `ws`, a
message's number is the index of its call in `hs`.

What the handlers of a message (the Network's own handler, the listeners of `MessageReceivedEvent`) do
between `arrive c μ` and `finish h` is not restricted in any way: they are the ops in between — they may
suspend for any number of steps, close the connection the message came on (`connState c true`) or any
other, create new requests, cancel or time out pending ones, await a nested request whose reply arrives
(`arrive` … `finish`) on another connection or on the same one while the outer call is still running.
Every theorem below quantifies over all such op lists.
-/
namespace AioslskVerif.C12
open AioslskVerif.Expect

/-- `matches` is exactly: connection class, message class, peer name and **every** expected field
(constant or predicate) agree. -/
theorem C12_matcher_spec (m : Matcher) (μ : Msg) :
    m.matches μ = true ↔
      (μ.conn.cls = m.cls ∧ μ.cls = m.msg ∧ peerOk m μ.conn = true ∧ ∀ fe ∈ m.fields, fieldOk μ fe = true) := by
  unfold Matcher.matches
  rw [← fieldsMatch_iff]
  by_cases h1 : μ.conn.cls = m.cls <;> by_cases h2 : μ.cls = m.msg <;>
    by_cases h3 : peerOk m μ.conn = true <;> simp [h1, h2, h3]

/-- No schedule makes `on_message_received` raise or hands a caller `InvalidStateError`. -/
theorem C12_no_internal_error (ops : List Op) :
    (run ops).err = 0 ∧ ∀ (k : Nat) (w : Waiter), (run ops).ws[k]? = some w → w.out ≠ .invalidState := by
  have hi := inv_run ops
  exact ⟨hi.e, fun k w hk => (hi.w k w hk).2.2.2.2.2.2.2.2.1⟩

/-- A pending request is never dropped from the list (so every later message is tried on it). -/
theorem C12_pending_is_listed (ops : List Op) (k : Nat) (w : Waiter)
    (hk : (run ops).ws[k]? = some w) (hp : w.fut = .pending) : w.listed = true :=
  ((inv_run ops).w k w hk).1 hp

/-- The handlers of a message have returned, in any reachable state — whatever they did meanwhile,
whatever state any connection is in, whichever other calls are still running: **every** pending request
the message answers is completed with it, and no other request is touched. -/
theorem C12_all_pending_matching_resolved (ops : List Op) (h : Nat) (hd : Handling)
    (hh : (run ops).hs[h]? = some hd) (hnd : hd.done = false) (k : Nat) (w : Waiter)
    (hk : (run ops).ws[k]? = some w) :
    ∃ w', (run (ops ++ [.finish h])).ws[k]? = some w' ∧
      (w.fut = .pending → w.m.matches hd.μ = true → w'.fut = .result h) ∧
      (¬ (w.fut = .pending ∧ w.m.matches hd.μ = true) → w'.fut = w.fut) := by
  have hi := inv_run ops
  have hrun : (run (ops ++ [.finish h])).ws = (run ops).ws.map (resolveW hd.μ h) := by
    have : run (ops ++ [.finish h]) = step (run ops) (.finish h) := by simp [run, List.foldl_append]
    rw [this]
    simp only [step, hh, hnd, Bool.false_eq_true, if_false, deliver_eq]
  refine ⟨resolveW hd.μ h w, by rw [hrun]; simp [hk], ?_⟩
  have hiff := resolveW_hit_iff hi hk hd.μ
  constructor
  · intro hp hm
    simp [resolveW, hiff.mpr ⟨hp, hm⟩]
  · intro hn
    have : ¬ hit hd.μ w = true := fun h => hn (hiff.mp h)
    simp [resolveW, this]

/-- The completion loop consults the call's own message and the list of requests — nothing else: the
same requests are completed whatever the state of the connections (the one the message came on
included: closed *while* the message was handled) and whatever other calls of `on_message_received` are
running or finished (no serialisation across connections). -/
theorem C12_completion_ignores_connections_and_other_calls (s : State) (h : Nat) (hd : Handling)
    (hh : s.hs[h]? = some hd) (cl : List Nat) (hs' : List Handling) (hh' : hs'[h]? = some hd) :
    (step { s with closing := cl, hs := hs' } (.finish h)).ws = (step s (.finish h)).ws ∧
    (step { s with closing := cl, hs := hs' } (.finish h)).cbq = (step s (.finish h)).cbq := by
  simp only [step, hh, hh']
  by_cases hdn : hd.done = true <;> simp [hdn]

/-- Handlers first: entering `on_message_received` completes nothing, it only opens the call (numbered
by arrival); the call is completed by its own `finish` and by nothing else, once. -/
theorem C12_handlers_first (s : State) (c : Nat) (μ : Msg) :
    (step s (.arrive c μ)).ws = s.ws ∧ (step s (.arrive c μ)).cbq = s.cbq ∧
    (step s (.arrive c μ)).hs[s.nmsg]? = some { μ := μ, c := c, done := false } := by
  simp [step, State.nmsg]

theorem C12_finish_once (s : State) (h : Nat) : step (step s (.finish h)) (.finish h) = step s (.finish h) := by
  cases hh : s.hs[h]? with
  | none => simp [step, hh]
  | some hd =>
    have hlt : h < s.hs.length := (List.getElem?_eq_some_iff.mp hh).1
    by_cases hdn : hd.done = true
    · simp [step, hh, hdn]
    · have hdf : hd.done = false := by simpa using hdn
      have h1 : (step s (.finish h)).hs[h]? = some { hd with done := true } := by
        simp only [step, hh, hdf, Bool.false_eq_true, if_false]
        simp [hlt]
      generalize step s (.finish h) = s1 at h1 ⊢
      simp only [step, h1, if_true]

/-- Every call record is the arrival of exactly that message on exactly that connection; its number is
the number of messages that had arrived before. -/
theorem C12_call_is_arrival (ops : List Op) (h : Nat) (hd : Handling) (hh : (run ops).hs[h]? = some hd) :
    ∃ pre post, ops = pre ++ Op.arrive hd.c hd.μ :: post ∧ (run pre).nmsg = h :=
  arrival_foldl ops {} h hd (by simp) hh

/-- A completed / cancelled request never changes again, whatever happens later; the caller's
answer, once given, is final; the matcher is fixed. -/
theorem C12_at_most_once (ops ops' : List Op) (k : Nat) (w : Waiter) (hk : (run ops).ws[k]? = some w) :
    ∃ w', (run (ops ++ ops')).ws[k]? = some w' ∧ w'.m = w.m ∧
      (w.fut ≠ .pending → w'.fut = w.fut) ∧ (w.out ≠ .none → w'.out = w.out) := by
  have := stable_foldl ops' (run ops) k w (inv_run ops) hk
  simpa [run, List.foldl_append] using this

/-- A request completed with message number `i` was completed *by* that message: by the completion
loop of call `i` (which ran once its handlers had returned), while the request was pending and listed, and the
message matches. -/
theorem C12_resolved_by_first_match (ops : List Op) (k i : Nat) (w : Waiter)
    (hk : (run ops).ws[k]? = some w) (hr : w.fut = .result i) :
    ∃ pre post hd w0, ops = pre ++ Op.finish i :: post ∧
      (run pre).hs[i]? = some hd ∧ hd.done = false ∧
      (run pre).ws[k]? = some w0 ∧ w0.fut = .pending ∧ w0.listed = true ∧ w0.m.matches hd.μ = true :=
  first_match_foldl ops {} k i w inv_init (by simp) hk hr

/-- … and it is the *first* such message: once the handlers of a matching message have returned while the
request is pending, the request holds that message for ever (no later message can complete it). -/
theorem C12_first_match_wins (pre : List Op) (h : Nat) (hd : Handling) (post : List Op) (k : Nat) (w0 : Waiter)
    (hh : (run pre).hs[h]? = some hd) (hnd : hd.done = false)
    (hk : (run pre).ws[k]? = some w0) (hp : w0.fut = .pending) (hm : w0.m.matches hd.μ = true) :
    ∃ w, (run (pre ++ Op.finish h :: post)).ws[k]? = some w ∧ w.fut = .result h := by
  obtain ⟨w1, hk1, h1, _⟩ := C12_all_pending_matching_resolved pre h hd hh hnd k w0 hk
  obtain ⟨w2, hk2, _, h2, _⟩ := C12_at_most_once (pre ++ [.finish h]) post k w1 hk1
  refine ⟨w2, by simpa using hk2, ?_⟩
  rw [h2 (by rw [h1 hp hm]; simp), h1 hp hm]

/-- Requests made from inside handlers: in ANY reachable state — in particular while any number of calls of
`on_message_received` are still running, the one whose listener makes the request included — a request that is
created and awaited now is completed by a matching message that arrives next, on whatever connection `c`, as
soon as that message's own handlers have returned; every other call is exactly as it was (still running if it
was running: nobody had to wait for anybody). -/
theorem C12_nested_request_answered (ops : List Op) (kd : Kind) (m : Matcher) (c : Nat) (μ : Msg)
    (hm : m.matches μ = true) :
    let k := (run ops).ws.length
    let h := (run ops).nmsg
    let s' := run (ops ++ [.create kd m, .awaitF k, .arrive c μ, .finish h])
    (∃ w, s'.ws[k]? = some w ∧ w.fut = .result h) ∧
    (∀ (h0 : Nat) (hd : Handling), (run ops).hs[h0]? = some hd → s'.hs[h0]? = some hd) := by
  intro k h s'
  have hs' : s' = step (step (step (step (run ops) (.create kd m)) (.awaitF (run ops).ws.length)) (.arrive c μ))
      (.finish (run ops).hs.length) := by
    simp [s', k, h, State.nmsg, run, List.foldl_append]
  rw [hs']
  exact nested_step (run ops) kd m c μ hm

/-- Once a caller's timeout has fired (and nobody cancelled the caller) the only answer it can get
is `TimeoutError`; when the scheduled callbacks have run it has got it. -/
theorem C12_timeout_is_timeout (ops : List Op) (k : Nat) (w : Waiter) (hk : (run ops).ws[k]? = some w)
    (he : w.expired = true) (hc : w.cancelReq = false) :
    (w.out = .none ∨ w.out = .timeout) ∧ ((run ops).cbq = [] → w.out = .timeout) := by
  have hi := inv_run ops
  obtain ⟨_, _, h3, h4, h5, _, _, h8, _⟩ := hi.w k w hk
  refine ⟨h8 he hc, fun hq => ?_⟩
  rcases h8 he hc with hn | ht
  · have ha := h5 (h4 he).2 hn
    have := h3 ha (h4 he).1
    rw [hq] at this
    cases this
  · exact ht

/-- firing a timeout on a waiting caller does put it in the state the previous theorem speaks of,
and cancels the request -/
theorem C12_timeout_fires (ops : List Op) (k : Nat) (w : Waiter) (hk : (run ops).ws[k]? = some w)
    (ha : w.awaiting = true) (he : w.expired = false) :
    ∃ w', (run (ops ++ [.timeout k])).ws[k]? = some w' ∧ w'.expired = true ∧ w'.cancelReq = w.cancelReq ∧
      w'.fut ≠ .pending := by
  have hlt : k < (run ops).ws.length := (List.getElem?_eq_some_iff.mp hk).1
  have hrun : run (ops ++ [.timeout k]) = step (run ops) (.timeout k) := by simp [run, List.foldl_append]
  refine ⟨{ (cancelW k w).1 with expired := true }, ?_, rfl, ?_, ?_⟩
  · rw [hrun]
    simp only [step, hk, ha, he, Bool.not_false, Bool.and_self, if_true, State.put]
    simp [hlt]
  · rcases cancelW_cases k w with ⟨_, hc⟩ | ⟨_, hc⟩ <;> rw [hc]
  · rcases cancelW_cases k w with ⟨_, hc⟩ | ⟨hp, hc⟩ <;> rw [hc]
    · simp
    · exact hp

/-- No residue: after the scheduled callbacks have run, only pending requests are in the list. -/
theorem C12_no_residue (ops : List Op) :
    let s := run (ops ++ List.replicate (run ops).cbq.length Op.cb)
    s.cbq = [] ∧ ∀ (k : Nat) (w : Waiter), s.ws[k]? = some w → w.listed = true → w.fut = .pending := by
  intro s
  have hq : s.cbq = [] := by
    show (run (ops ++ _)).cbq = []
    rw [run, List.foldl_append]
    exact drain_foldl _ _ (inv_run ops) rfl
  refine ⟨hq, fun k w hk hl => ?_⟩
  have hi : Inv s := inv_run _
  obtain ⟨_, h2, _⟩ := hi.w k w hk
  apply Classical.byContradiction
  intro hp
  have := h2 hl hp
  rw [hq] at this
  cases this

/-- A request whose caller has got its answer (result, `TimeoutError`, `CancelledError`, the error of
a failed / cancelled `send`) is never left pending — in particular `execute()` cancelled while it is
suspended in `command.send` (`sendFails k true`) does not leave a request that nobody waits for. -/
theorem C12_caller_gone_not_pending (ops : List Op) (k : Nat) (w : Waiter)
    (hk : (run ops).ws[k]? = some w) (ho : w.out ≠ .none) : w.fut ≠ .pending :=
  ((inv_run ops).w k w hk).2.2.2.2.2.2.2.2.2.1 ho

/-- … hence, once the scheduled callbacks have run, it is not in the list any more. -/
theorem C12_caller_gone_not_listed (ops : List Op) :
    let s := run (ops ++ List.replicate (run ops).cbq.length Op.cb)
    ∀ (k : Nat) (w : Waiter), s.ws[k]? = some w → w.out ≠ .none → w.listed = false := by
  intro s k w hk ho
  have hres := (C12_no_residue ops).2 k w hk
  have hnp := C12_caller_gone_not_pending _ k w hk ho
  cases hl : w.listed with
  | false => rfl
  | true => exact absurd (hres hl) hnp

/-- `command.send` raising (or being cancelled) inside `execute` ends the request at once. -/
theorem C12_aborted_send_ends_request (ops : List Op) (k : Nat) (w : Waiter) (c : Bool)
    (hk : (run ops).ws[k]? = some w) (hkind : w.kind = .exec) (hs : w.started = false) :
    ∃ w', (run (ops ++ [.sendFails k c])).ws[k]? = some w' ∧ w'.fut ≠ .pending ∧
      w'.out = (if c then .cancelled else .sendError) := by
  have hlt : k < (run ops).ws.length := (List.getElem?_eq_some_iff.mp hk).1
  have hrun : run (ops ++ [.sendFails k c]) = step (run ops) (.sendFails k c) := by simp [run, List.foldl_append]
  refine ⟨{ (cancelW k w).1 with started := true, out := if c then .cancelled else .sendError }, ?_, ?_, rfl⟩
  · rw [hrun]
    simp only [step, hk, hkind, hs, decide_true, Bool.not_false, Bool.and_self, if_true, State.put]
    simp [hlt]
  · rcases cancelW_cases k w with ⟨_, hc⟩ | ⟨hp, hc⟩ <;> rw [hc]
    · simp
    · exact hp

/-! ### What ends a request (round 5)

"Completes **iff**": a pending request leaves the pending state only by one of its own events (`OwnEvent`): the completion
loop of a message that matches it, its timeout, a cancellation of the request or of its caller, the failure of its own
`send`.  Nothing else that happens meanwhile ends it — in particular not the life of the connections: the one the request
went out on, the last one of that peer, the server's (`connState c true` = CLOSING / CLOSED reported by
`Connection.set_state`, `connState c false` = a connection object that is (again) open: a new connection of the peer
accepted / connected to and ESTABLISHED).  Requests are matched by peer *name*: the reply may arrive over a connection
that did not exist when the request was made. -/

/-- `Connection.set_state` reports reach `Network.on_state_changed` (network.py:1060-1126): no request, no scheduled
callback, no running call of `on_message_received` is touched. -/
theorem C12_connection_events_touch_no_request (s : State) (c : Nat) (b : Bool) :
    (step s (.connState c b)).ws = s.ws ∧ (step s (.connState c b)).cbq = s.cbq ∧
    (step s (.connState c b)).hs = s.hs ∧ (step s (.connState c b)).err = s.err := by
  simp [step]

/-- A request that was pending and is not any more: in between lies (a first) one of its own events, and it was still
pending right before it. -/
theorem C12_request_ends_only_by_own_event (ops ops' : List Op) (k : Nat) (w w' : Waiter)
    (hk : (run ops).ws[k]? = some w) (hp : w.fut = .pending)
    (hk' : (run (ops ++ ops')).ws[k]? = some w') (hnp : w'.fut ≠ .pending) :
    ∃ a op b w1, ops' = a ++ op :: b ∧ (run (ops ++ a)).ws[k]? = some w1 ∧ w1.fut = .pending ∧
      OwnEvent (run (ops ++ a)) k w1 op := by
  have hk2 : (ops'.foldl step (run ops)).ws[k]? = some w' := by simpa [run, List.foldl_append] using hk'
  obtain ⟨a, op, b, w1, he, hk1, hp1, ho⟩ := ends_by_own_event_foldl ops' (run ops) k w w' (inv_run ops) hk hp hk2 hnp
  refine ⟨a, op, b, w1, he, ?_, hp1, ?_⟩
  · simpa [run, List.foldl_append] using hk1
  · simpa [run, List.foldl_append] using ho

/-- Whatever happens that is not one of its own events — any number of connections closed, lost, opened; other
requests made, answered, timed out, cancelled; other messages handled; callbacks run — the request is exactly as pending
as before: still pending, same matcher, still awaited, its timeout still armed, its caller not cancelled. -/
theorem C12_pending_survives_foreign_events (ops ops' : List Op) (k : Nat) (w : Waiter)
    (hk : (run ops).ws[k]? = some w) (hp : w.fut = .pending) (hf : NoOwnEvent k (run ops) ops') :
    ∃ w', (run (ops ++ ops')).ws[k]? = some w' ∧ w'.fut = .pending ∧ w'.m = w.m ∧
      (w.awaiting = true → w'.awaiting = true) ∧ w'.expired = w.expired ∧ w'.cancelReq = w.cancelReq := by
  obtain ⟨w', hk', h⟩ := kept_foldl ops' (run ops) k w (inv_run ops) hk hp hf
  exact ⟨w', by simpa [run, List.foldl_append] using hk', h⟩

/-- Connection events are nobody's own events: any list of them, from any state. -/
theorem C12_connection_events_are_foreign (k : Nat) (cs : List (Nat × Bool)) (s : State) :
    NoOwnEvent k s (cs.map fun x => Op.connState x.1 x.2) :=
  connEvents_foreign k cs s

/-- The reply arrives over a connection `c` that may not have existed when the request was made (after anything
foreign to the request: e.g. every connection of the peer closed, a new one opened): once its handlers have returned
the request is completed with it. -/
theorem C12_reply_over_new_connection (ops ops' : List Op) (k : Nat) (w : Waiter)
    (hk : (run ops).ws[k]? = some w) (hp : w.fut = .pending) (hf : NoOwnEvent k (run ops) ops')
    (c : Nat) (μ : Msg) (hm : w.m.matches μ = true) :
    ∃ w', (run (ops ++ ops' ++ [.arrive c μ, .finish (run (ops ++ ops')).nmsg])).ws[k]? = some w' ∧
      w'.fut = .result (run (ops ++ ops')).nmsg := by
  obtain ⟨w1, hk1, hp1, hm1, _⟩ := C12_pending_survives_foreign_events ops ops' k w hk hp hf
  have harr : run (ops ++ ops' ++ [.arrive c μ]) = step (run (ops ++ ops')) (.arrive c μ) := by
    simp [run, List.foldl_append]
  obtain ⟨hws, _, hhs⟩ := C12_handlers_first (run (ops ++ ops')) c μ
  obtain ⟨w2, hk2, h2, _⟩ := C12_all_pending_matching_resolved (ops ++ ops' ++ [.arrive c μ]) (run (ops ++ ops')).nmsg
    { μ := μ, c := c, done := false } (by rw [harr]; exact hhs) rfl k w1 (by rw [harr, hws]; exact hk1)
  refine ⟨w2, ?_, h2 hp1 (by rw [hm1]; exact hm)⟩
  have : ops ++ ops' ++ [Op.arrive c μ, .finish (run (ops ++ ops')).nmsg] =
      ops ++ ops' ++ [.arrive c μ] ++ [.finish (run (ops ++ ops')).nmsg] := by simp
  rw [this]; exact hk2

/-- … and when no reply arrives: the caller's timeout fires (whatever foreign happened before — the disconnect of the
peer's last connection included) and, once the scheduled callbacks have run, the caller has got `TimeoutError` — not
`CancelledError`, and not before. -/
theorem C12_unanswered_request_times_out (ops ops' : List Op) (k : Nat) (w : Waiter)
    (hk : (run ops).ws[k]? = some w) (hp : w.fut = .pending) (ha : w.awaiting = true) (he : w.expired = false)
    (hc : w.cancelReq = false) (hf : NoOwnEvent k (run ops) ops') :
    (∃ w1, (run (ops ++ ops')).ws[k]? = some w1 ∧ w1.out = .none ∧ w1.fut = .pending) ∧
    ∃ w', (run (ops ++ ops' ++ [.timeout k] ++
        List.replicate (run (ops ++ ops' ++ [.timeout k])).cbq.length Op.cb)).ws[k]? = some w' ∧ w'.out = .timeout := by
  obtain ⟨w1, hk1, hp1, _, ha1, he1, hc1⟩ := C12_pending_survives_foreign_events ops ops' k w hk hp hf
  have hnone : w1.out = .none := by
    apply Classical.byContradiction
    intro hn
    exact C12_caller_gone_not_pending (ops ++ ops') k w1 hk1 hn hp1
  refine ⟨⟨w1, hk1, hnone, hp1⟩, ?_⟩
  obtain ⟨w2, hk2, he2, hc2, _⟩ := C12_timeout_fires (ops ++ ops') k w1 hk1 (ha1 ha) (by rw [he1]; exact he)
  have hk2' : (run (ops ++ ops' ++ [.timeout k])).ws[k]? = some w2 := by simpa using hk2
  obtain ⟨w3, hk3, he3, hc3⟩ := cb_flags_foldl (run (ops ++ ops' ++ [.timeout k])).cbq.length
    (run (ops ++ ops' ++ [.timeout k])) k w2 hk2'
  have hk3' : (run (ops ++ ops' ++ [.timeout k] ++
      List.replicate (run (ops ++ ops' ++ [.timeout k])).cbq.length Op.cb)).ws[k]? = some w3 := by
    simpa [run, List.foldl_append] using hk3
  refine ⟨w3, hk3', ?_⟩
  have hq := (C12_no_residue (ops ++ ops' ++ [.timeout k])).1
  exact (C12_timeout_is_timeout _ k w3 hk3' (by rw [he3]; exact he2) (by rw [hc3, hc2, hc1]; exact hc)).2 hq

/-! Non-vacuity: concrete reachable states (matcher with a predicate field followed by a constant). -/

def exMatcher : Matcher := { cls := .server, msg := 1, peer := none, fields := [(4, .pred fun _ => true), (5, .const (.v 7))] }
def exGood : Msg := { conn := .server, cls := 1, attrs := [(4, .v 1), (5, .v 7)] }
def exBad : Msg := { conn := .server, cls := 1, attrs := [(4, .v 1), (5, .v 8)] }

-- the second field counts (the pinned code answered `true` here)
example : exMatcher.matches exBad = false := by decide
example : exMatcher.matches exGood = true := by decide
-- two waiters, one reply twice back-to-back: both complete with the first, nothing raises
example : ((run ([.create .wait exMatcher, .awaitF 0, .create .raw exMatcher, .awaitF 1] ++ Op.message 0 exGood 0 ++
    Op.message 0 exGood 1)).ws.map (·.fut)) = [.result 0, .result 0] := by decide
-- a timeout, then the reply while the timed-out request is still listed: caller gets TimeoutError
example : ((run ([.create .wait exMatcher, .awaitF 0, .timeout 0] ++ Op.message 0 exGood 0 ++ [.cb, .cb])).ws.map
    fun w => (w.fut, w.listed, w.expired, w.cancelReq, w.out)) = [(.cancelled, false, true, false, .timeout)] := by decide
-- reply and timeout in the same iteration
example : ((run ([.create .wait exMatcher, .awaitF 0] ++ Op.message 0 exGood 0 ++ [.timeout 0, .cb, .cb])).ws.map
    fun w => (w.fut, w.listed, w.out)) = [(.result 0, false, .timeout)] := by decide

-- execute(): registered, suspended in send, task cancelled there; the reply arrives afterwards: nobody is listed
example : ((run ([.create .exec exMatcher, .sendFails 0 true, .cb] ++ Op.message 0 exGood 0)).ws.map
    fun w => (w.fut, w.listed, w.out)) = [(.cancelled, false, .cancelled)] := by decide

def exPeer : Matcher := { cls := .peer, msg := 0, peer := some 1, fields := [(0, .const (.v 3))] }
def exPeerReply : Msg := { conn := .peer (some 1), cls := 0, attrs := [(0, .v 3)] }

-- a handler of the reply closes the connection it came on before it returns: the request is completed all the same
example : ((run [.create .wait exPeer, .awaitF 0, .arrive 2 exPeerReply, .connState 2 true, .finish 0, .cb, .cb]).ws.map
    fun w => (w.fut, w.listed, w.out)) = [(.result 0, false, .result 0)] := by decide
-- a listener of server message #0 awaits a nested request inline; its reply (#1) arrives on a peer connection and
-- completes it while call #0 is still running; afterwards call #0 finishes and completes the outer request
example : ((run [.create .raw exMatcher, .awaitF 0, .arrive 0 exGood, .create .wait exPeer, .awaitF 1,
    .arrive 2 exPeerReply, .finish 1, .cb, .cb, .finish 0, .cb, .cb]).ws.map
    fun w => (w.fut, w.listed, w.out)) = [(.result 0, false, .result 0), (.result 1, false, .result 1)] := by decide
-- a request registered by a handler of the message it matches is completed by that message; one cancelled by a
-- handler is not
example : ((run [.create .raw exMatcher, .awaitF 0, .arrive 0 exGood, .cancelFut 0, .create .raw exMatcher,
    .finish 0]).ws.map (·.fut)) = [.cancelled, .result 0] := by decide

-- every connection of the peer is closed (2, 4), a new one (6) comes about, the reply arrives over it: completed
example : ((run [.create .wait exPeer, .awaitF 0, .connState 4 true, .connState 2 true, .connState 6 false,
    .arrive 6 exPeerReply, .finish 0, .cb, .cb]).ws.map fun w => (w.fut, w.listed, w.out)) =
    [(.result 0, false, .result 0)] := by decide
-- … nothing arrives: still pending after the disconnects, TimeoutError when (and only when) the timeout fires
example : ((run [.create .exec exPeer, .awaitF 0, .connState 2 true, .connState 4 true]).ws.map
    fun w => (w.fut, w.listed, w.out)) = [(.pending, true, .none)] := by decide
example : ((run [.create .exec exPeer, .awaitF 0, .connState 2 true, .connState 4 true, .timeout 0, .cb, .cb]).ws.map
    fun w => (w.fut, w.listed, w.out)) = [(.cancelled, false, .timeout)] := by decide
-- the hypotheses of `C12_unanswered_request_times_out` / `C12_reply_over_new_connection` are satisfiable
example : NoOwnEvent 0 (run [.create .exec exPeer, .awaitF 0]) [.connState 2 true, .connState 4 true, .connState 6 false] :=
  C12_connection_events_are_foreign 0 [(2, true), (4, true), (6, false)] _

end AioslskVerif.C12
