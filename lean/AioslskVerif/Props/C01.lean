import AioslskVerif.Proofs.WireTop
import AioslskVerif.Proofs.Obfs
import AioslskVerif.Proofs.WireDomain
import AioslskVerif.Generated.Schemas
import AioslskVerif.Spec.Pinned
/-!
# C01 — every message survives encode → wire → decode, byte-compatibly

Property theorems only. Model: `Model/Wire.lean` (engine), `Generated/Schemas.lean` (schemas,
regenerated from the source on every run), `Spec/Pinned.lean` (frozen layout),
`Spec/WireSpec.lean` (`inDomain`, `tableWf`, `tableBeq`).
-/
namespace AioslskVerif.C01
open AioslskVerif.Wire

/-- zlib's only law used -/
def Zlib.Lawful (z : Zlib) : Prop := ∀ x, z.inflate (z.deflate x) = some x

/-- **Round trip of the message body** (every field list, every in-domain value). -/
theorem C01_roundtrip_body (fs : List Field) (vs : List Val) (b : Bytes)
    (hd : domFrom vs [] [] fs vs = true) (he : encTop vs fs vs = some b) :
    (decTop fs [] b >>= fun p => construct fs p.1) = .ok vs := by
  have h1 := decTop_encTop vs fs vs [] [] b rfl hd he
  have h2 := construct_expParsed vs fs vs [] [] hd
  simp only [expParsed, List.nil_append] at h1
  simp [h1, h2]

/-- **Round trip through the frame** (`serialize()` then the class's `deserialize(0, ·)`), compressed or
not, for every well-formed schema and every in-domain value the encoder accepts. -/
theorem C01_roundtrip_frame (z : Zlib) (hz : Zlib.Lawful z) (s : MsgSchema) (vs : List Val) (fr : Bytes)
    (hwf : s.wf = true) (hd : inDomain s vs = true) (he : encodeFrame z s vs = some fr) :
    decodeFrame z s fr = .ok vs := by
  simp only [MsgSchema.wf, Bool.and_eq_true] at hwf
  obtain ⟨⟨⟨hid, _⟩, hcd⟩, _⟩ := hwf
  have hcd' : s.compress = s.decompress := by simpa using hcd
  obtain ⟨body, payload, hb, hp, hn, hfr⟩ := encodeFrame_some z s vs fr he
  subst hfr
  have h1 := decTop_encTop vs s.fields vs [] [] body rfl hd hb
  have h2 := construct_expParsed vs s.fields vs [] [] hd
  simp only [expParsed, List.nil_append] at h1
  unfold decodeFrame
  simp only [List.append_assoc, rd32_le32 _ hn, except_bind_ok, rdId_idBytes s _ hid, bne_self_eq_false,
    Bool.false_eq_true, if_false]
  cases hc : s.compress with
  | false =>
    have hdc : s.decompress = false := by rw [← hcd']; exact hc
    simp only [hc, Bool.false_eq_true, if_false] at hp
    subst hp
    simp [hdc, h1, h2]
  | true =>
    have hdc : s.decompress = true := by rw [← hcd']; exact hc
    simp only [hc, if_true] at hp
    subst hp
    simp [hdc, hz body, h1, h2]

/-- **Round trip through the family dispatcher** (`ServerMessage.deserialize_response`, …): in a table
with unique ids the frame is decoded by its own class, to the original value. -/
theorem C01_roundtrip_dispatch (z : Zlib) (hz : Zlib.Lawful z) (table : List MsgSchema) (i : Nat)
    (s : MsgSchema) (vs : List Val) (fr : Bytes) (htw : tableWf table = true) (hs : table[i]? = some s)
    (hd : inDomain s vs = true) (he : encodeFrame z s vs = some fr) :
    dispatch z table s.family s.dir fr = .ok (i, vs) := by
  simp only [tableWf, Bool.and_eq_true, List.all_eq_true] at htw
  have hwf : s.wf = true := htw.1 s (List.mem_of_getElem? hs)
  have hframe := C01_roundtrip_frame z hz s vs fr hwf hd he
  have hfind := uniqueKeys_findIdx table i s htw.2 hs
  simp only [MsgSchema.wf, Bool.and_eq_true] at hwf
  obtain ⟨⟨⟨hid, hfw⟩, _⟩, _⟩ := hwf
  obtain ⟨body, payload, hb, hp, hn, hfr⟩ := encodeFrame_some z s vs fr he
  unfold dispatch
  have hdrop : fr.drop 4 = idBytes s ++ payload := by rw [hfr]; simp [le32]
  have hlen : ¬ fr.length < 4 := by rw [hfr]; simp [le32]
  obtain ⟨r', hr'⟩ := rdId_family s payload hid hfw
  rw [hdrop, hr']
  simp only [except_bind_ok, hlen, if_false, hfind, hs, hframe]
  rfl

/-- **Length prefix**: the first four bytes are the little-endian count of the bytes that follow. -/
theorem C01_length_prefix (z : Zlib) (s : MsgSchema) (vs : List Val) (fr : Bytes)
    (he : encodeFrame z s vs = some fr) : fr.take 4 = le32 (fr.length - 4) ∧ 4 ≤ fr.length := by
  obtain ⟨body, payload, _, _, _, hfr⟩ := encodeFrame_some z s vs fr he
  subst hfr
  simp [le32]

/-- **Message code**: the bytes after the prefix are the class's code in the class's width. -/
theorem C01_code (z : Zlib) (s : MsgSchema) (vs : List Val) (fr : Bytes)
    (he : encodeFrame z s vs = some fr) : (fr.drop 4).take (idBytes s).length = idBytes s := by
  obtain ⟨body, payload, _, _, _, hfr⟩ := encodeFrame_some z s vs fr he
  subst hfr
  simp [le32]

/-- The schema table regenerated from the source is well-formed (re-decided on every run). -/
theorem C01_generated_wf : tableWf Generated.Schemas.schemas = true := by decide +kernel

/-- The regenerated layout is the pinned layout (re-decided on every run) … -/
theorem C01_layout_pinned_beq : tableBeq Generated.Schemas.schemas Spec.Pinned.schemas = true := by
  decide +kernel

/-- … hence every message is encoded to exactly the bytes the pinned layout prescribes. -/
theorem C01_layout_pinned : Generated.Schemas.schemas = Spec.Pinned.schemas :=
  table_eq_of_beq _ _ C01_layout_pinned_beq

theorem C01_bytes_pinned (z : Zlib) (i : Nat) (vs : List Val) :
    (Generated.Schemas.schemas[i]?).bind (fun s => encodeFrame z s vs)
      = (Spec.Pinned.schemas[i]?).bind (fun s => encodeFrame z s vs) := by
  rw [C01_layout_pinned]

/-- All of the above for the real table: any in-domain message of any class of the current source
round-trips through its family dispatcher. -/
theorem C01_roundtrip_all (z : Zlib) (hz : Zlib.Lawful z) (i : Nat) (s : MsgSchema) (vs : List Val)
    (fr : Bytes) (hs : Generated.Schemas.schemas[i]? = some s) (hd : inDomain s vs = true)
    (he : encodeFrame z s vs = some fr) :
    dispatch z Generated.Schemas.schemas s.family s.dir fr = .ok (i, vs) :=
  C01_roundtrip_dispatch z hz _ i s vs fr C01_generated_wf hs hd he

/-- **Obfuscation**: for every 4-byte key and every byte string (any length: 0, < 4, not a multiple
of 4, longer than the 128-byte key table) de-obfuscating the obfuscated data gives the data back. -/
theorem C01_obfuscation (key data : Obfs.Bytes) (hk : key.length = 4) :
    Obfs.decode (Obfs.encode key data) = data := by
  unfold Obfs.decode Obfs.encode
  have ht : (key ++ Obfs.encLoop 0 key data).take 4 = key := by
    rw [List.take_append_of_le_length (by omega), List.take_of_length_le (by omega)]
  have hd : (key ++ Obfs.encLoop 0 key data).drop 4 = Obfs.encLoop 0 key data := by
    rw [← hk]; exact List.drop_left
  simp only [ht, hd]
  rw [Obfs.encLoop_eq key data 0 key (by simp), Obfs.encSpec_length]
  apply Obfs.xorAt_encSpec
  intro p _ hp
  exact Obfs.fullKey_byte key data.length p (by omega)

/-- the obfuscated form starts with the key and has the same length as key + data (the frame length
read from the first 4 de-obfuscated bytes therefore still delimits the frame) -/
theorem C01_obfuscation_shape (key data : Obfs.Bytes) :
    (Obfs.encode key data).length = key.length + data.length ∧ (Obfs.encode key data).take key.length = key := by
  unfold Obfs.encode
  rw [Obfs.encLoop_eq key data 0 key (by simp)]
  simp [Obfs.encSpec_length]

/-- **The domain in plain words.** For a well-formed schema the technical hypothesis `inDomain` of the
round-trip theorems follows from the plain domain: one value per field, `None` exactly where a guard
does not hold, a value where it holds, except for trailing `optional` fields with default `None`
when nothing after them is written. (Ranges and lengths are "the encoder accepts the value".) -/
theorem C01_domain_plain (s : MsgSchema) (vs : List Val) (hwf : s.wf = true)
    (hd : plainDom vs s.fields vs = true) : inDomain s vs = true := by
  simp only [MsgSchema.wf, Bool.and_eq_true] at hwf
  have := plainDom_domFrom vs s.fields vs [] [] (by simp) rfl
    (by intro i g h; simp at h) (by simpa using hwf.2) hd
  exact this

/-- hence: every plain-domain message of every class of the current source that the encoder accepts
round-trips through its family dispatcher -/
theorem C01_roundtrip_plain (z : Zlib) (hz : Zlib.Lawful z) (i : Nat) (s : MsgSchema) (vs : List Val)
    (fr : Bytes) (hs : Generated.Schemas.schemas[i]? = some s) (hd : plainDom vs s.fields vs = true)
    (he : encodeFrame z s vs = some fr) :
    dispatch z Generated.Schemas.schemas s.family s.dir fr = .ok (i, vs) := by
  have htw := C01_generated_wf
  simp only [tableWf, Bool.and_eq_true, List.all_eq_true] at htw
  have hwf : s.wf = true := htw.1 s (List.mem_of_getElem? hs)
  exact C01_roundtrip_all z hz i s vs fr hs (C01_domain_plain s vs hwf hd) he

/-- **Connection level** (`encode_message_data` then `decode_message_data`, connection.py:506-539):
on an obfuscated connection the frame is obfuscated with any 4-byte key, de-obfuscated by the
receiver and dispatched — the original message comes back; on a plain connection the frame is
dispatched as is. -/
theorem C01_roundtrip_connection (z : Zlib) (hz : Zlib.Lawful z) (i : Nat) (s : MsgSchema) (vs : List Val)
    (fr : Bytes) (obf : Bool) (key : Obfs.Bytes) (hk : key.length = 4)
    (hs : Generated.Schemas.schemas[i]? = some s) (hd : inDomain s vs = true)
    (he : encodeFrame z s vs = some fr) :
    dispatch z Generated.Schemas.schemas s.family s.dir
      (if obf then Obfs.decode (Obfs.encode key fr) else fr) = .ok (i, vs) := by
  cases obf with
  | false => exact C01_roundtrip_all z hz i s vs fr hs hd he
  | true =>
    simp only [if_true]
    rw [C01_obfuscation key fr hk]
    exact C01_roundtrip_all z hz i s vs fr hs hd he

/-! ## Non-vacuity: concrete in-domain values of the tricky classes -/
section examples
def idZ : Zlib := { deflate := id, inflate := some }
/-- Login.Response, success: guarded fields present -/
example : (Generated.Schemas.schemas[1]?).map (fun s => inDomain s
    [.bool true, .str ['h', 'i'], .ip 1 2 3 4, .str [], .bool false, .absent]) = some true := by decide +kernel
/-- Login.Response, failure: the other guard -/
example : (Generated.Schemas.schemas[1]?).map (fun s => inDomain s
    [.bool false, .absent, .absent, .absent, .absent, .str ['n', 'o']]) = some true := by decide +kernel
/-- SetListenPort.Request with the optional pair absent / present -/
example : (Generated.Schemas.schemas[2]?).map (fun s => inDomain s [.nat 2234, .absent, .absent]) = some true := by
  decide +kernel
example : (Generated.Schemas.schemas[2]?).map (fun s => inDomain s [.nat 2234, .nat 1, .nat 2235]) = some true := by
  decide +kernel
/-- … and a value OUTSIDE the domain (hole in the optional prefix) is recognised as such -/
example : (Generated.Schemas.schemas[2]?).map (fun s => inDomain s [.nat 2234, .absent, .nat 2235]) = some false := by
  decide +kernel
/-- PeerTransferReply (guard + optional under guard) in the plain domain, both branches -/
example : (Generated.Schemas.schemas.find? (fun s => s.family == .peer && s.id == 41)).map (fun s =>
    plainDom [.nat 5, .bool true, .nat 1000, .absent] s.fields [.nat 5, .bool true, .nat 1000, .absent]
    && plainDom [.nat 5, .bool false, .absent, .str ['n']] s.fields [.nat 5, .bool false, .absent, .str ['n']]
    && !plainDom [.nat 5, .bool false, .nat 1, .absent] s.fields [.nat 5, .bool false, .nat 1, .absent]) = some true := by
  decide +kernel
example : Obfs.decode (Obfs.encode [1, 2, 3, 4] [10, 20, 30, 40, 50]) = [10, 20, 30, 40, 50] := by decide
end examples

end AioslskVerif.C01
