import AioslskVerif.Proofs.Naming
/-!
# C09 — peer-chosen names never escape the download directory or clobber a file

Property theorems only (helpers: `Proofs/Naming.lean`, model: `Model/Naming.lean`).
The model is the code *after* fixes/C09-dot-components.patch, C09-empty-filename.patch and
C09-claim-download-path.patch. `chain fs ss remote` is `chain_strategies` run by
`calculate_download_path` for the strategy list `ss` (any list over the three shipped strategies,
any order, repetitions allowed, the empty list included), any remote path (any list of characters)
and any content `fs` of the download directory. `.error _` means the code raises: no path is chosen.
-/
namespace AioslskVerif.C09
open AioslskVerif.Naming

/-- **Inside.** Whenever a path is chosen, every component of the directory part and the file name
are regular names (not empty, not `.`, not `..`, no `/` or `\`), so the lexical walk from the
download directory over `dir/…/name` never leaves it and ends exactly `|dir| + 1 ≥ 1` levels below:
strictly inside. -/
theorem C09_inside (fs : Fs) (ss : List Strategy) (remote : List Char) (d : Path) (n : Name)
    (h : chain fs ss remote = .ok (d, n)) :
    (∀ c ∈ d, Regular c) ∧ walk (d ++ [n]) 0 = some (d.length + 1) := by
  obtain ⟨_, hd, hn⟩ := chain_ok fs ss remote d n h
  refine ⟨hd, ?_⟩
  have := walk_regular (d ++ [n]) 0 (by
    intro c hc
    rcases List.mem_append.mp hc with hc | hc
    · exact hd c hc
    · simp only [List.mem_singleton] at hc; subst hc; exact hn)
  simpa using this

/-- **Regular file name.** The chosen file name is never `''`, `.` or `..` and contains no
separator — for every chain, every remote path, every directory content. -/
theorem C09_regular_name (fs : Fs) (ss : List Strategy) (remote : List Char) (d : Path) (n : Name)
    (h : chain fs ss remote = .ok (d, n)) : Regular n :=
  (chain_ok fs ss remote d n h).2.2

/-- **Fresh.** For every chain that ends in the number-duplicate strategy (as the library's default
chain does) the chosen path does not exist when it is chosen: `os.path.exists` is false and the
name is not in `os.listdir` of the chosen directory. -/
theorem C09_fresh (fs : Fs) (ss : List Strategy) (remote : List Char) (d : Path) (n : Name)
    (hl : ss.getLast? = some .number) (h : chain fs ss remote = .ok (d, n)) :
    fs.pathExists d n = false ∧ n ∉ fs.listdir d := by
  obtain ⟨haux, _, hn⟩ := chain_ok fs ss remote d n h
  have hf := chainAux_fresh fs remote ss _ _ inv_init hl haux
  simp only at hf
  refine ⟨hf, ?_⟩
  rw [pathExists_regular _ _ _ hn] at hf
  rw [← has_iff_mem_listdir, hf]
  simp

/-- the number-duplicate step itself: the new name is never one of the listed names, whatever the
listing (`next_index ∉ indices`, and every listed `stem (k)ext…` contributes `k` to `indices`). -/
theorem C09_numbered_not_listed (stem ext : Name) (listing : List Name) :
    numbered stem ext (nextIndex (listing.filterMap (matchIndex stem ext))) ∉ listing :=
  numbered_fresh stem ext listing

/-- **Distinct while active.** Downloads start (choose a path and claim it in one step —
transfer/manager.py:678-685 has no suspension point between the two) and finish in any order, any
number of them, with any remote paths, over any initial directory content; for a chain ending in
the number-duplicate strategy no two downloads that are active at the same time hold the same
local path, and each active download's file exists under a regular name. -/
theorem C09_distinct_concurrent (fs0 : Fs) (ss : List Strategy) (ops : List Op)
    (hl : ss.getLast? = some .number) :
    (run ss { fs := fs0, active := [] } ops).active.Pairwise
        (fun a b => (a.dir, a.name) ≠ (b.dir, b.name)) ∧
    ∀ a ∈ (run ss { fs := fs0, active := [] } ops).active,
      Regular a.name ∧ (run ss { fs := fs0, active := [] } ops).fs.has a.dir a.name = true := by
  have h := run_inv ss hl ops { fs := fs0, active := [] } ⟨by simp, by simp⟩
  exact ⟨h.2, h.1⟩

/-- **No refusal without reason** (so the theorems above are not vacuous: "raises" is not the way
the code satisfies them). A chain that contains the default strategy chooses a path for every remote
path that has at least one usable component (one that is not empty, `.` or `..`); and without such
a component the default strategy raises (`IndexError`, no path chosen). -/
theorem C09_chooses (fs : Fs) (ss : List Strategy) (remote : List Char)
    (hp : localParts remote ≠ []) (hd : Strategy.default ∈ ss) :
    ∃ d n, chain fs ss remote = .ok (d, n) := by
  obtain ⟨st', h, hreg⟩ := chainAux_ok fs remote hp ss ([], []) inv_init (Or.inr hd)
  refine ⟨st'.1, st'.2, ?_⟩
  unfold chain
  rw [h]
  have : st'.2.isEmpty = false := by
    cases hn : st'.2 with
    | nil => exact absurd hn hreg.1
    | cons _ _ => rfl
  simp [this]

/-! ### Non-vacuity: the theorems talk about paths that are really chosen -/

section Examples

-- the library's default chain on a traversal path: the `..` parts are dropped
example : (chain [] [.default, .number] ['a', '\\', '.', '.', '\\', '.', '.', '/', 'x']).toOption
    = some ([], ['x']) := by decide
-- keep-directory with `..` as the containing directory: the directory before it is used
example : (chain [] [.default, .keepDir, .number] ['q', '\\', '.', '.', '\\', 'x']).toOption
    = some ([['q']], ['x']) := by decide
-- a taken name is numbered, the gap in the numbering is used
example : (chain [⟨[], ['x'], false⟩, ⟨[], ['x', ' ', '(', '1', ')'], false⟩, ⟨[], ['x', ' ', '(', '3', ')'], false⟩]
    [.default, .number] ['x']).toOption = some ([], ['x', ' ', '(', '2', ')']) := by decide
-- only dots: nothing usable, the code raises (no path chosen)
example : (chain [] [.default, .number] ['.', '.', '\\', '.']).toOption = none := by decide
-- a chain that never names the file raises instead of returning ''
example : (chain [] [.keepDir] ['a', '\\', 'b']).toOption = none := by decide
-- two downloads of the same remote file, both active: different local paths
example : ((run [.default, .number] { fs := [], active := [] }
    [.start 1 ['a', '\\', 'x'], .start 2 ['b', '\\', 'x']]).active.map (·.name))
    = [['x', ' ', '(', '1', ')'], ['x']] := by decide
end Examples

end AioslskVerif.C09
