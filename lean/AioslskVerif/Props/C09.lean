import AioslskVerif.Proofs.Naming
/-!
# C09 — peer-chosen names never escape the download directory or clobber a file

Property theorems only (helpers: `Proofs/Naming.lean`, model: `Model/Naming.lean`).
The model is the code *after* fixes/C09-dot-components.patch, C09-empty-filename.patch,
C09-claim-download-path.patch, C09-dangling-symlink.patch and C09-unclaimed-path-kept.patch. `chain fs ss remote` is `chain_strategies` run by
`calculate_download_path` for the strategy list `ss` (any list over the three shipped strategies,
any order, repetitions allowed, the empty list included), any remote path (any list of characters)
and any content `fs` of the download directory. `.error _` means the code raises: no path is chosen.
-/
namespace AioslskVerif.C09
open AioslskVerif.Naming

/-- **Inside — on the final joined path.** Whenever a path is chosen, every component of the
directory part and the file name are regular names (not empty, not `.`, not `..`, no `/` or `\`);
the string the code builds from them with `os.path.join` and hands to the operating system
(`finalPath`: no component is absolute, so the download directory is never thrown away) is
`/c₁/…/cₖ/name` below the download directory, and resolving that string the way the kernel does
(split at `/`; `''` and `.` stay, `..` goes up) never leaves the download directory and ends exactly at
`dir ++ [name]`, i.e. `|dir| + 1 ≥ 1` levels below it: strictly inside. The model applies no
normalisation between the filter and the join because the code applies none. -/
theorem C09_inside (fs : Fs) (ss : List Strategy) (remote : List Char) (d : Path) (n : Name)
    (h : chain fs ss remote = .ok (d, n)) :
    (∀ c ∈ d, Regular c) ∧
    ∃ s, finalPath d n = some s ∧ resolve s = some (d ++ [n]) ∧ walk (d ++ [n]) 0 = some (d.length + 1) := by
  obtain ⟨_, hd, hn⟩ := chain_ok fs ss remote d n h
  have hall : ∀ c ∈ d ++ [n], Regular c := by
    intro c hc
    rcases List.mem_append.mp hc with hc | hc
    · exact hd c hc
    · simp only [List.mem_singleton] at hc; subst hc; exact hn
  obtain ⟨hj, hr⟩ := finalPath_regular (d ++ [n]) hall
  refine ⟨hd, _, hj, hr, ?_⟩
  simpa using walk_regular (d ++ [n]) 0 hall

/-- **Regular file name.** The chosen file name is never `''`, `.` or `..` and contains no
separator — for every chain, every remote path, every directory content. -/
theorem C09_regular_name (fs : Fs) (ss : List Strategy) (remote : List Char) (d : Path) (n : Name)
    (h : chain fs ss remote = .ok (d, n)) : Regular n :=
  (chain_ok fs ss remote d n h).2.2

/-- **Fresh.** For every chain that ends in the number-duplicate strategy (as the library's default
chain does) the chosen path does not exist when it is chosen: `os.path.exists` is false and the
name is not in `os.listdir` of the chosen directory. -/
theorem C09_fresh (fs : Fs) (ss : List Strategy) (remote : List Char) (d : Path) (n : Name)
    (hl : ss.getLast? = some .number) (h : chain fs ss remote = .ok (d, n)) :
    fs.pathExists d n = false ∧ n ∉ fs.listdir d := by
  obtain ⟨haux, _, hn⟩ := chain_ok fs ss remote d n h
  have hf := chainAux_fresh fs remote ss _ _ inv_init hl haux
  simp only at hf
  refine ⟨hf, ?_⟩
  rw [pathExists_regular _ _ _ hn] at hf
  rw [← has_iff_mem_listdir, hf]
  simp

/-- the number-duplicate step itself: the new name is never one of the listed names, whatever the
listing (`next_index ∉ indices`, and every listed `stem (k)ext…` contributes `k` to `indices`). -/
theorem C09_numbered_not_listed (stem ext : Name) (listing : List Name) :
    numbered stem ext (nextIndex (listing.filterMap (matchIndex stem ext))) ∉ listing :=
  numbered_fresh stem ext listing

/-- **Distinct while holding a path.** Download tasks start (choose a path and claim it in one step
— transfer/manager.py:699-706 has no suspension point between the two), end complete or cut off, and
are started again (a cut-off download resumes on the path it holds, a completed one forgets its path
and chooses anew), in any order, any number of them, with any remote paths, with an OSError injected
into any claiming step, over any initial directory content. For a chain ending in the
number-duplicate strategy no two downloads that hold a path at the same time hold the same one —
running or not — and each held path is regular and exists in the directory (it was claimed). -/
theorem C09_distinct_holders (fs0 : Fs) (ss : List Strategy) (ops : List Op)
    (hl : ss.getLast? = some .number) :
    (run ss { fs := fs0, dls := [] } ops).dls.Pairwise
        (fun a b => (a.dir, a.name) ≠ (b.dir, b.name)) ∧
    ∀ a ∈ (run ss { fs := fs0, dls := [] } ops).dls,
      Regular a.name ∧ (∀ c ∈ a.dir, Regular c) ∧
      (run ss { fs := fs0, dls := [] } ops).fs.has a.dir a.name = true := by
  have h := run_inv ss hl ops { fs := fs0, dls := [] } ⟨by simp, by simp⟩
  exact ⟨h.2, h.1⟩

/-- **Distinct while active** (the property's wording): in particular the downloads whose task is
running at the same time never share a local path. -/
theorem C09_distinct_concurrent (fs0 : Fs) (ss : List Strategy) (ops : List Op)
    (hl : ss.getLast? = some .number) :
    (run ss { fs := fs0, dls := [] } ops).active.Pairwise
        (fun a b => (a.dir, a.name) ≠ (b.dir, b.name)) :=
  (C09_distinct_holders fs0 ss ops hl).1.sublist List.filter_sublist

/-- **The path used is the path that was checked.** When a starting download is given a path
(`chosen d n`), `(d, n)` is exactly what `chain_strategies` returned on the directory content of that
moment, it did not exist then, it exists afterwards, and no entry that existed before is gone. -/
theorem C09_claimed_is_checked (ss : List Strategy) (hl : ss.getLast? = some .number) (fs : Fs)
    (rest : List Dl) (id : Nat) (remote : List Char) (fault : Fault) (d : Path) (n : Name) (s' : Sys)
    (h : chooseAndClaim ss fs rest id remote fault = (s', .chosen d n)) :
    chain fs ss remote = .ok (d, n) ∧ fs.pathExists d n = false ∧ s'.fs.has d n = true ∧
    (∀ e ∈ fs, e ∈ s'.fs) ∧ s'.dls = { id := id, dir := d, name := n, status := .running } :: rest := by
  unfold chooseAndClaim at h
  split at h
  · cases h
  · rename_i d' n' hch
    split at h
    · cases h
    · rename_i fs' heq
      cases h
      obtain ⟨haux, _, _⟩ := chain_ok fs ss remote d n hch
      have hfresh := chainAux_fresh fs remote ss _ _ inv_init hl haux
      have hs := claim_spec fs d n fault (by rw [heq])
      have hm := claim_mono fs d n fault
      rw [heq] at hs hm
      exact ⟨hch, hfresh, hs, hm, rfl⟩

/-- **A failed claim leaves nothing behind.** When the chain raises or the claiming step fails with an
OSError (injected, a file in the way of the directory, a name longer than `NAME_MAX`), the download
holds no path afterwards (so nothing is "resumed" later on a path it never owned), and the downloads
that held a path hold the same one as before. -/
theorem C09_failed_claim_holds_nothing (ss : List Strategy) (fs : Fs) (rest : List Dl) (id : Nat)
    (remote : List Char) (fault : Fault) (s' : Sys) (o : Outcome)
    (h : chooseAndClaim ss fs rest id remote fault = (s', o))
    (ho : ∀ d n, o ≠ .chosen d n) : s'.dls = rest := by
  unfold chooseAndClaim at h
  split at h
  · cases h; rfl
  · split at h
    · cases h; rfl
    · cases h; exact absurd rfl (ho _ _)

/-- names longer than `NAME_MAX` are never claimed: the claim fails, whatever the fault -/
theorem C09_too_long_not_claimed (fs : Fs) (d : Path) (n : Name) (fault : Fault)
    (hfree : fs.has d n = false) (hl : tooLong n = true) : (claim fs d n fault).2 = false := by
  cases hc : (claim fs d n fault).2 with
  | false => rfl
  | true =>
    exfalso
    unfold claim at hc
    by_cases hmk : fault = .makedirs
    · simp [hmk] at hc
    · simp only [hmk, if_false] at hc
      rcases hm : mkdirs fs [] d with ⟨fs', b⟩
      rw [hm] at hc
      cases b with
      | false => simp at hc
      | true =>
        simp only at hc
        by_cases hop : fault = .open
        · simp [hop] at hc
        · simp only [hop, if_false] at hc
          cases hf : fs'.find? (fun e => e.dir == d && e.name == n) with
          | none => rw [hf] at hc; simp [hl] at hc
          | some e =>
            -- an entry of that name after `makedirs`: it was there before or is one of the new directories
            have hmem := List.mem_of_find?_eq_some hf
            have hp := List.find?_some hf
            have hkey := mkdirs_new d fs [] e (by rw [hm]; exact hmem)
            rcases hkey with hold | hdir
            · have : fs.has d n = true := by
                unfold Fs.has; rw [List.any_eq_true]; exact ⟨e, hold, hp⟩
              rw [hfree] at this; cases this
            · rw [hf] at hc
              simp [hdir] at hc

/-- **No refusal without reason** (so the theorems above are not vacuous: "raises" is not the way
the code satisfies them). A chain that contains the default strategy chooses a path for every remote
path that has at least one usable component (one that is not empty, `.` or `..`); and without such
a component the default strategy raises (`IndexError`, no path chosen). -/
theorem C09_chooses (fs : Fs) (ss : List Strategy) (remote : List Char)
    (hp : localParts remote ≠ []) (hd : Strategy.default ∈ ss) :
    ∃ d n, chain fs ss remote = .ok (d, n) := by
  obtain ⟨st', h, hreg⟩ := chainAux_ok fs remote hp ss ([], []) inv_init (Or.inr hd)
  refine ⟨st'.1, st'.2, ?_⟩
  unfold chain
  rw [h]
  have : st'.2.isEmpty = false := by
    cases hn : st'.2 with
    | nil => exact absurd hn hreg.1
    | cons _ _ => rfl
  simp [this]

/-! ### Non-vacuity: the theorems talk about paths that are really chosen -/

section Examples

-- the library's default chain on a traversal path: the `..` parts are dropped
example : (chain [] [.default, .number] ['a', '\\', '.', '.', '\\', '.', '.', '/', 'x']).toOption
    = some ([], ['x']) := by decide
-- keep-directory with `..` as the containing directory: the directory before it is used
example : (chain [] [.default, .keepDir, .number] ['q', '\\', '.', '.', '\\', 'x']).toOption
    = some ([['q']], ['x']) := by decide
-- a taken name is numbered, the gap in the numbering is used
example : (chain [⟨[], ['x'], false⟩, ⟨[], ['x', ' ', '(', '1', ')'], false⟩, ⟨[], ['x', ' ', '(', '3', ')'], false⟩]
    [.default, .number] ['x']).toOption = some ([], ['x', ' ', '(', '2', ')']) := by decide
-- only dots: nothing usable, the code raises (no path chosen)
example : (chain [] [.default, .number] ['.', '.', '\\', '.']).toOption = none := by decide
-- a chain that never names the file raises instead of returning ''
example : (chain [] [.keepDir] ['a', '\\', 'b']).toOption = none := by decide
-- two downloads of the same remote file, both active: different local paths
example : ((run [.default, .number] { fs := [], dls := [] }
    [.start 1 ['a', '\\', 'x'] .none, .start 2 ['b', '\\', 'x'] .none]).active.map (·.name))
    = [['x', ' ', '(', '1', ')'], ['x']] := by decide
-- the claim of download 1 fails (EMFILE), download 2 takes the name, download 1 is started again:
-- it holds nothing, chooses anew and gets the numbered name
example : ((run [.default, .number] { fs := [], dls := [] }
    [.start 1 ['x'] .open, .start 2 ['x'] .none, .start 1 ['x'] .none]).active.map (fun a => (a.id, a.name)))
    = [(1, ['x', ' ', '(', '1', ')']), (2, ['x'])] := by decide
-- a cut-off download resumes on its own path; a completed one chooses anew
example : ((run [.default, .number] { fs := [], dls := [] }
    [.start 1 ['x'] .none, .cut 1, .start 2 ['x'] .none, .finish 2, .start 1 ['x'] .none, .start 2 ['x'] .none]
    ).active.map (fun a => (a.id, a.name)))
    = [(2, ['x', ' ', '(', '2', ')']), (1, ['x'])] := by decide
-- the final path string of a kept directory, and where it leads
example : finalPath [['q']] ['x'] = some ['/', 'q', '/', 'x'] ∧ resolve ['/', 'q', '/', 'x'] = some [['q'], ['x']] := by
  decide
-- what `resolve` says about strings that the chain never produces
example : resolve ['/', '.', '.', '/', 'x'] = none ∧ resolve ['/', 'q', '/', '.', '.', '/', 'x'] = some [['x']] ∧
    finalPath [] ['/', 'e', 't', 'c'] = none := by decide
end Examples

end AioslskVerif.C09
