import AioslskVerif.Proofs.Naming
/-!
# C09 — peer-chosen names never escape the download directory or clobber a file

Property theorems only (helpers: `Proofs/Naming.lean`, model: `Model/Naming.lean`).
The model is the code *after* fixes/C09-dot-components.patch, C09-empty-filename.patch,
C09-claim-download-path.patch, C09-dangling-symlink.patch and C09-unclaimed-path-kept.patch. `chain fs ss remote` is `chain_strategies` run by
`calculate_download_path` for the strategy list `ss` (any list over the three shipped strategies,
any order, repetitions allowed, the empty list included), any remote path (any list of characters)
and any content `fs` of the download directory. `.error _` means the code raises: no path is chosen.
-/
namespace AioslskVerif.C09
open AioslskVerif.Naming

/-- **Inside — on the final joined path.** Whenever a path is chosen, every component of the
directory part and the file name are regular names (not empty, not `.`, not `..`, no `/` or `\`);
the string the code builds from them with `os.path.join` and hands to the operating system
(`finalPath`: no component is absolute, so the download directory is never thrown away) is
`/c₁/…/cₖ/name` below the download directory, and resolving that string the way the kernel does
(split at `/`; `''` and `.` stay, `..` goes up) never leaves the download directory and ends exactly at
`dir ++ [name]`, i.e. `|dir| + 1 ≥ 1` levels below it: strictly inside. The model applies no
normalisation between the filter and the join because the code applies none. -/
theorem C09_inside (fs : Fs) (ss : List Strategy) (remote : List Char) (d : Path) (n : Name)
    (h : chain fs ss remote = .ok (d, n)) :
    (∀ c ∈ d, Regular c) ∧
    ∃ s, finalPath d n = some s ∧ resolve s = some (d ++ [n]) ∧ walk (d ++ [n]) 0 = some (d.length + 1) := by
  obtain ⟨_, hd, hn⟩ := chain_ok fs ss remote d n h
  have hall : ∀ c ∈ d ++ [n], Regular c := by
    intro c hc
    rcases List.mem_append.mp hc with hc | hc
    · exact hd c hc
    · simp only [List.mem_singleton] at hc; subst hc; exact hn
  obtain ⟨hj, hr⟩ := finalPath_regular (d ++ [n]) hall
  refine ⟨hd, _, hj, hr, ?_⟩
  simpa using walk_regular (d ++ [n]) 0 hall

/-- **Regular file name.** The chosen file name is never `''`, `.` or `..` and contains no
separator — for every chain, every remote path, every directory content. -/
theorem C09_regular_name (fs : Fs) (ss : List Strategy) (remote : List Char) (d : Path) (n : Name)
    (h : chain fs ss remote = .ok (d, n)) : Regular n :=
  (chain_ok fs ss remote d n h).2.2

/-- **Fresh.** For every chain that ends in the number-duplicate strategy (as the library's default
chain does) the chosen path does not exist when it is chosen: `os.path.exists` is false and the
name is not in `os.listdir` of the chosen directory. -/
theorem C09_fresh (fs : Fs) (ss : List Strategy) (remote : List Char) (d : Path) (n : Name)
    (hl : ss.getLast? = some .number) (h : chain fs ss remote = .ok (d, n)) :
    fs.pathExists d n = false ∧ n ∉ fs.listdir d := by
  obtain ⟨haux, _, hn⟩ := chain_ok fs ss remote d n h
  have hf := chainAux_fresh fs remote ss _ _ inv_init hl haux
  simp only at hf
  refine ⟨hf, ?_⟩
  rw [pathExists_regular _ _ _ hn] at hf
  rw [← has_iff_mem_listdir, hf]
  simp

/-- the number-duplicate step itself: the new name is never one of the listed names, whatever the
listing (`next_index ∉ indices`, and every listed `stem (k)ext…` contributes `k` to `indices`). -/
theorem C09_numbered_not_listed (stem ext : Name) (listing : List Name) :
    numbered stem ext (nextIndex (listing.filterMap (matchIndex stem ext))) ∉ listing :=
  numbered_fresh stem ext listing

/-- **Distinct while holding a path.** Download tasks start (choose a path and claim it in one step
— `_prepare_download_path` has no suspension point between the two), end complete or cut off, and
are started again (a cut-off download resumes on the path it holds, a completed one forgets its path
and chooses anew), the user moves the files of completed downloads away and downloads are queued again
without being started yet — in any order, any number of them, with any remote paths, with an OSError
injected into any claiming step, over any initial directory content. For a chain ending in the
number-duplicate strategy no two downloads that hold a path at the same time hold the same one —
running or not — and each held path is regular and exists in the directory (it was claimed); the only
paths exempt are those of completed downloads whose file the user has moved away (`gone`): such a path
is still stored in the transfer object, but it is never used again (`C09_requeue_forgets_path`). -/
theorem C09_distinct_holders (fs0 : Fs) (ss : List Strategy) (ops : List Op)
    (hl : ss.getLast? = some .number) :
    (run ss { fs := fs0, dls := [] } ops).dls.Pairwise
        (fun a b => a.status ≠ .gone → b.status ≠ .gone → (a.dir, a.name) ≠ (b.dir, b.name)) ∧
    ∀ a ∈ (run ss { fs := fs0, dls := [] } ops).dls,
      Regular a.name ∧ (∀ c ∈ a.dir, Regular c) ∧
      (a.status ≠ .gone → (run ss { fs := fs0, dls := [] } ops).fs.has a.dir a.name = true) := by
  have h := run_inv ss hl ops { fs := fs0, dls := [] } ⟨by simp, by simp⟩
  exact ⟨h.2, h.1⟩

/-- **Distinct while active** (the property's wording): in particular the downloads whose task is
running at the same time never share a local path. -/
theorem C09_distinct_concurrent (fs0 : Fs) (ss : List Strategy) (ops : List Op)
    (hl : ss.getLast? = some .number) :
    (run ss { fs := fs0, dls := [] } ops).active.Pairwise
        (fun a b => (a.dir, a.name) ≠ (b.dir, b.name)) := by
  have h := (C09_distinct_holders fs0 ss ops hl).1.sublist
    (List.filter_sublist (p := fun a => a.status == .running))
  refine List.Pairwise.imp_of_mem ?_ h
  intro a b ha hb hab
  have hsa : a.status = .running := by simpa using (List.mem_filter.mp ha).2
  have hsb : b.status = .running := by simpa using (List.mem_filter.mp hb).2
  exact hab (by rw [hsa]; decide) (by rw [hsb]; decide)

/-- **Queueing a finished download again forgets its path** — whether its file is still there or has
been moved away: afterwards the download holds no path, so when it is started (now or after any other
downloads have come and gone) it takes the `chooseAndClaim` branch — a name that is free at that moment —
and never the unchecked `resumed` one. A download that "gets its old place back" because the file is gone
would hold a name that nobody owns while it waits. -/
theorem C09_requeue_forgets_path (ss : List Strategy) (s : Sys) (id : Nat) (a : Dl)
    (hf : s.find id = some a) (hc : a.status = .complete ∨ a.status = .gone) :
    (step ss s (.requeue id)).1.find id = none ∧ (step ss s (.requeue id)).1.fs = s.fs ∧
    ∀ remote fault, ∀ d n, (step ss (step ss s (.requeue id)).1 (.start id remote fault)).2 ≠ .resumed d n := by
  have hdrop : (step ss s (.requeue id)).1 = { s with dls := s.drop id } := by
    simp only [step, hf]
    rw [if_pos hc]
  have hnone : ({ s with dls := s.drop id } : Sys).find id = none := by
    simp only [Sys.find, Sys.drop, List.find?_eq_none, List.mem_filter]
    intro x hx
    simpa using hx.2
  rw [hdrop]
  refine ⟨hnone, rfl, ?_⟩
  intro remote fault d n
  simp only [step, hnone]
  unfold chooseAndClaim
  split
  · intro h; cases h
  · split <;> (intro h; cases h)

/-- **Aborting an interrupted download deletes its own partial file and nothing else, and forgets the path.**
Afterwards the download holds no path (a later start chooses anew), its name is free, every other entry is where
it was and no entry appeared. -/
theorem C09_abort_forgets_and_frees (ss : List Strategy) (s : Sys) (id : Nat) (a : Dl)
    (hf : s.find id = some a) (hc : a.status = .broken) :
    (step ss s (.abort id)).1.find id = none ∧
    (step ss s (.abort id)).1.fs.has a.dir a.name = false ∧
    (∀ e ∈ s.fs, (e.dir, e.name) ≠ (a.dir, a.name) → e ∈ (step ss s (.abort id)).1.fs) ∧
    (∀ e ∈ (step ss s (.abort id)).1.fs, e ∈ s.fs) := by
  have hst : (step ss s (.abort id)).1 =
      { fs := s.fs.filter (fun e => !(e.dir == a.dir && e.name == a.name)), dls := s.drop id } := by
    simp only [step, hf]
    rw [if_pos hc]
  rw [hst]
  refine ⟨?_, ?_, ?_, ?_⟩
  · simp only [Sys.find, Sys.drop, List.find?_eq_none, List.mem_filter]
    intro x hx
    simpa using hx.2
  · unfold Fs.has
    rw [Bool.eq_false_iff]
    intro h
    rw [List.any_eq_true] at h
    obtain ⟨e, he, hq⟩ := h
    have := (List.mem_filter.mp he).2
    rw [hq] at this
    cases this
  · intro e he hne
    rw [List.mem_filter]
    refine ⟨he, ?_⟩
    simp only [Bool.not_eq_eq_eq_not, Bool.not_true, Bool.and_eq_false_iff, beq_eq_false_iff_ne, ne_eq]
    by_cases hd : e.dir = a.dir
    · right; intro hn; exact hne (by rw [hd, hn])
    · left; exact hd
  · intro e he
    exact (List.mem_filter.mp he).1

/-- **A moved-away file frees its name and nothing else.** After the user has moved the file of a completed
download away, that name does not exist in the directory any more (the next download of an equally named
file may take it), every other entry is where it was, and no entry appeared. -/
theorem C09_remove_frees_only_its_name (ss : List Strategy) (s : Sys) (id : Nat) (a : Dl)
    (hf : s.find id = some a) (hc : a.status = .complete)
    (hthere : s.fs.any (fun e => e.dir == a.dir && e.name == a.name && !e.isDir) = true) :
    (step ss s (.remove id)).1.fs.has a.dir a.name = false ∧
    (∀ e ∈ s.fs, (e.dir, e.name) ≠ (a.dir, a.name) → e ∈ (step ss s (.remove id)).1.fs) ∧
    (∀ e ∈ (step ss s (.remove id)).1.fs, e ∈ s.fs) := by
  have hst : (step ss s (.remove id)).1.fs = s.fs.filter (fun e => !(e.dir == a.dir && e.name == a.name)) := by
    simp only [step, hf]
    rw [if_pos hc, if_pos hthere]
  rw [hst]
  refine ⟨?_, ?_, ?_⟩
  · unfold Fs.has
    rw [Bool.eq_false_iff]
    intro h
    rw [List.any_eq_true] at h
    obtain ⟨e, he, hq⟩ := h
    have := (List.mem_filter.mp he).2
    rw [hq] at this
    cases this
  · intro e he hne
    rw [List.mem_filter]
    refine ⟨he, ?_⟩
    simp only [Bool.not_eq_eq_eq_not, Bool.not_true, Bool.and_eq_false_iff, beq_eq_false_iff_ne, ne_eq]
    by_cases hd : e.dir = a.dir
    · right; intro hn; exact hne (by rw [hd, hn])
    · left; exact hd
  · intro e he
    exact (List.mem_filter.mp he).1

/-- **The path used is the path that was checked.** When a starting download is given a path
(`chosen d n`), `(d, n)` is exactly what `chain_strategies` returned on the directory content of that
moment, it did not exist then, it exists afterwards, and no entry that existed before is gone. -/
theorem C09_claimed_is_checked (ss : List Strategy) (hl : ss.getLast? = some .number) (fs : Fs)
    (rest : List Dl) (id : Nat) (remote : List Char) (fault : Fault) (d : Path) (n : Name) (s' : Sys)
    (h : chooseAndClaim ss fs rest id remote fault = (s', .chosen d n)) :
    chain fs ss remote = .ok (d, n) ∧ fs.pathExists d n = false ∧ s'.fs.has d n = true ∧
    (∀ e ∈ fs, e ∈ s'.fs) ∧ s'.dls = { id := id, dir := d, name := n, status := .running } :: rest := by
  unfold chooseAndClaim at h
  split at h
  · cases h
  · rename_i d' n' hch
    split at h
    · cases h
    · rename_i fs' heq
      cases h
      obtain ⟨haux, _, _⟩ := chain_ok fs ss remote d n hch
      have hfresh := chainAux_fresh fs remote ss _ _ inv_init hl haux
      have hs := claim_spec fs d n fault (by rw [heq])
      have hm := claim_mono fs d n fault
      rw [heq] at hs hm
      exact ⟨hch, hfresh, hs, hm, rfl⟩

/-- **A failed claim leaves nothing behind.** When the chain raises or the claiming step fails with an
OSError (injected, a file in the way of the directory, a name longer than `NAME_MAX`), the download
holds no path afterwards (so nothing is "resumed" later on a path it never owned), and the downloads
that held a path hold the same one as before. -/
theorem C09_failed_claim_holds_nothing (ss : List Strategy) (fs : Fs) (rest : List Dl) (id : Nat)
    (remote : List Char) (fault : Fault) (s' : Sys) (o : Outcome)
    (h : chooseAndClaim ss fs rest id remote fault = (s', o))
    (ho : ∀ d n, o ≠ .chosen d n) : s'.dls = rest := by
  unfold chooseAndClaim at h
  split at h
  · cases h; rfl
  · split at h
    · cases h; rfl
    · cases h; exact absurd rfl (ho _ _)

/-- names longer than `NAME_MAX` are never claimed: the claim fails, whatever the fault -/
theorem C09_too_long_not_claimed (fs : Fs) (d : Path) (n : Name) (fault : Fault)
    (hfree : fs.has d n = false) (hl : tooLong n = true) : (claim fs d n fault).2 = false := by
  cases hc : (claim fs d n fault).2 with
  | false => rfl
  | true =>
    exfalso
    unfold claim at hc
    by_cases hmk : fault = .makedirs
    · simp [hmk] at hc
    · simp only [hmk, if_false] at hc
      rcases hm : mkdirs fs [] d with ⟨fs', b⟩
      rw [hm] at hc
      cases b with
      | false => simp at hc
      | true =>
        simp only at hc
        by_cases hop : fault = .open
        · simp [hop] at hc
        · simp only [hop, if_false] at hc
          cases hf : fs'.find? (fun e => e.dir == d && e.name == n) with
          | none => rw [hf] at hc; simp [hl] at hc
          | some e =>
            -- an entry of that name after `makedirs`: it was there before or is one of the new directories
            have hmem := List.mem_of_find?_eq_some hf
            have hp := List.find?_some hf
            have hkey := mkdirs_new d fs [] e (by rw [hm]; exact hmem)
            rcases hkey with hold | hdir
            · have : fs.has d n = true := by
                unfold Fs.has; rw [List.any_eq_true]; exact ⟨e, hold, hp⟩
              rw [hfree] at this; cases this
            · rw [hf] at hc
              simp [hdir] at hc

/-- **No refusal without reason** (so the theorems above are not vacuous: "raises" is not the way
the code satisfies them). A chain that contains the default strategy chooses a path for every remote
path that has at least one usable component (one that is not empty, `.` or `..`); and without such
a component the default strategy raises (`IndexError`, no path chosen). -/
theorem C09_chooses (fs : Fs) (ss : List Strategy) (remote : List Char)
    (hp : localParts remote ≠ []) (hd : Strategy.default ∈ ss) :
    ∃ d n, chain fs ss remote = .ok (d, n) := by
  obtain ⟨st', h, hreg⟩ := chainAux_ok fs remote hp ss ([], []) inv_init (Or.inr hd)
  refine ⟨st'.1, st'.2, ?_⟩
  unfold chain
  rw [h]
  have : st'.2.isEmpty = false := by
    cases hn : st'.2 with
    | nil => exact absurd hn hreg.1
    | cons _ _ => rfl
  simp [this]

/-! ### Non-vacuity: the theorems talk about paths that are really chosen -/

section Examples

-- the library's default chain on a traversal path: the `..` parts are dropped
example : (chain [] [.default, .number] ['a', '\\', '.', '.', '\\', '.', '.', '/', 'x']).toOption
    = some ([], ['x']) := by decide
-- keep-directory with `..` as the containing directory: the directory before it is used
example : (chain [] [.default, .keepDir, .number] ['q', '\\', '.', '.', '\\', 'x']).toOption
    = some ([['q']], ['x']) := by decide
-- a taken name is numbered, the gap in the numbering is used
example : (chain [⟨[], ['x'], false⟩, ⟨[], ['x', ' ', '(', '1', ')'], false⟩, ⟨[], ['x', ' ', '(', '3', ')'], false⟩]
    [.default, .number] ['x']).toOption = some ([], ['x', ' ', '(', '2', ')']) := by decide
-- only dots: nothing usable, the code raises (no path chosen)
example : (chain [] [.default, .number] ['.', '.', '\\', '.']).toOption = none := by decide
-- a chain that never names the file raises instead of returning ''
example : (chain [] [.keepDir] ['a', '\\', 'b']).toOption = none := by decide
-- two downloads of the same remote file, both active: different local paths
example : ((run [.default, .number] { fs := [], dls := [] }
    [.start 1 ['a', '\\', 'x'] .none, .start 2 ['b', '\\', 'x'] .none]).active.map (·.name))
    = [['x', ' ', '(', '1', ')'], ['x']] := by decide
-- the claim of download 1 fails (EMFILE), download 2 takes the name, download 1 is started again:
-- it holds nothing, chooses anew and gets the numbered name
example : ((run [.default, .number] { fs := [], dls := [] }
    [.start 1 ['x'] .open, .start 2 ['x'] .none, .start 1 ['x'] .none]).active.map (fun a => (a.id, a.name)))
    = [(1, ['x', ' ', '(', '1', ')']), (2, ['x'])] := by decide
-- a cut-off download resumes on its own path; a completed one chooses anew
example : ((run [.default, .number] { fs := [], dls := [] }
    [.start 1 ['x'] .none, .cut 1, .start 2 ['x'] .none, .finish 2, .start 1 ['x'] .none, .start 2 ['x'] .none]
    ).active.map (fun a => (a.id, a.name)))
    = [(2, ['x', ' ', '(', '2', ')']), (1, ['x'])] := by decide
-- download 1 completes, the user moves its file away, it is queued again and waits; download 2 takes the free name;
-- download 1 starts: it holds nothing, chooses anew and gets the numbered name (it does not "get its place back")
example : ((run [.default, .number] { fs := [], dls := [] }
    [.start 1 ['x'] .none, .finish 1, .remove 1, .requeue 1, .start 2 ['x'] .none, .start 1 ['x'] .none]
    ).active.map (fun a => (a.id, a.name)))
    = [(1, ['x', ' ', '(', '1', ')']), (2, ['x'])] := by decide
-- the hypotheses of `C09_requeue_forgets_path` / `C09_remove_frees_only_its_name` are met by a reachable state
example : ((run [.default, .number] { fs := [], dls := [] } [.start 1 ['x'] .none, .finish 1]).find 1).map (·.status)
    = some .complete := by decide
-- the final path string of a kept directory, and where it leads
example : finalPath [['q']] ['x'] = some ['/', 'q', '/', 'x'] ∧ resolve ['/', 'q', '/', 'x'] = some [['q'], ['x']] := by
  decide
-- what `resolve` says about strings that the chain never produces
example : resolve ['/', '.', '.', '/', 'x'] = none ∧ resolve ['/', 'q', '/', '.', '.', '/', 'x'] = some [['x']] ∧
    finalPath [] ['/', 'e', 't', 'c'] = none := by decide
end Examples

end AioslskVerif.C09
