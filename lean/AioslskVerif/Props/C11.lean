import AioslskVerif.Proofs.PeerWire
import AioslskVerif.Proofs.Conn
/-!
# C11 — connecting to a peer succeeds iff a path works, and leaves nothing behind

Property theorems only (models: `Model/PeerConnect.lean`, `Model/Conn.lean`; helpers: `Proofs/PeerConnect.lean`,
`Proofs/PeerWire.lean`, `Proofs/Conn.lean`).  The model is the code **with** `fixes/C10-connect-cancel-or-closed.patch`,
`fixes/C11-attempt-cleanup.patch`, `fixes/C11-pierce-coincidence.patch`, `fixes/C11-listener-windows.patch`,
`fixes/C11-disconnect-cancel-safe.patch` and `fixes/C11-race-cancel-orphan.patch` applied.

`run mode lookup srvFail ops` is the state of one `create_peer_connection` request, in fallback or race
mode, with or without an address look-up, with the ConnectToPeer write succeeding or failing, after any
list of completions in any order — address reply (valid / none / no port), connect ok with PeerInit written
/ PeerInit write failing / refused / timeout, a peer piercing with the ticket, CannotConnect, the 60 s
timer, cancellation of the request, **and `note n`: the application listeners of notification `n`
(CONNECTING / CONNECTED / PeerInitializedEvent / CLOSING / CLOSED of the outgoing connection, of the
connection being accepted, of the winner being closed) have returned** — including completions that arrive
after the request has finished.  Between a notification and its `note` the task that emitted it is suspended
inside a listener; every other op may come in between, so the theorems cover every completion and every
cancellation landing while any listener invocation along the connect paths is suspended.  `pierce o`: the peer comes
in on our clear (`o = false`) or obfuscated listening port; `probe`: the caller uses the connection it was given.

`xrun typ dialObf mode lookup srvFail ops` is the same run together with the wire-level state of the connection
objects (`X`): requested type `P` / `D` / `F`, whether the dialled port is an obfuscated one, `obfuscated` /
`connection_state` / reader task of each object, and the encoding PeerInit went out in (`C11_wire_*`).
-/
namespace AioslskVerif.C11
open AioslskVerif.PeerConnect

/-- The request returns the direct connection exactly when the direct attempt succeeded, and the pierced
connection exactly when the indirect attempt succeeded and the (cancelled) direct attempt has finished closing
its connection; what it returns is registered, open and initialised. -/
theorem C11_returns_iff (m : Mode) (l f : Bool) (ops : List Op) :
    let s := run m l f ops
    (s.res = .returnedD ↔ s.d = .ok) ∧ (s.res = .returnedI ↔ (s.i = .ok ∧ s.d ≠ .cClosing ∧ s.d ≠ .cClosed)) ∧
      (s.d = .ok → s.dc = .open ∧ s.ps = true) ∧ (s.i = .ok → s.ic = true) :=
  (good_facts (good_run m l f ops)).1

/-- It raises `PeerConnectionError` exactly when both attempts failed; in fallback mode the indirect
attempt is only made after the direct one failed. -/
theorem C11_raises_otherwise (m : Mode) (l f : Bool) (ops : List Op) :
    let s := run m l f ops
    (s.res = .raised ↔ (s.d = .failed ∧ s.i = .failed)) ∧
      (s.mode = .fallback → s.i ≠ .notStarted → s.d = .failed) :=
  (good_facts (good_run m l f ops)).2.1

/-- Once the request has returned, raised or been cancelled — wherever the deciding completion or the
cancellation landed, also inside a listener, and whatever arrives afterwards — no waiter for the ticket, for
CannotConnect or for the address remains, neither attempt is still running or closing anything, and the only
registered / open connection the request created is the one it returned: the loser's is closed and
unregistered. -/
theorem C11_no_leftovers (m : Mode) (l f : Bool) (ops : List Op) :
    let s := run m l f ops
    s.res ≠ .pending →
      s.tw = false ∧ s.rw = false ∧ s.aw = false ∧
      (s.dc ≠ .none → s.res = .returnedD ∧ s.dc = .open) ∧ (s.ic = true → s.res = .returnedI) ∧
      dRunning s.d = false ∧ s.i ≠ .waiting ∧ s.i ≠ .wClosing ∧ s.i ≠ .wClosed :=
  (good_facts (good_run m l f ops)).2.2.1

/-- A finished request stays finished: later completions (late pierce, late CannotConnect, listeners
returning, …) do not change what it returned. -/
theorem C11_result_final (m : Mode) (l f : Bool) (ops : List Op) (op : Op)
    (h : (run m l f ops).res ≠ .pending) : (run m l f (ops ++ [op])).res = (run m l f ops).res := by
  have hrun : run m l f (ops ++ [op]) = stepT (run m l f ops) op := by simp [run, List.foldl_append]
  rw [hrun]
  exact (good_facts (good_run m l f ops)).2.2.2.1 h op (mem_allOp op)

/-- Listeners cannot wedge a request.  From any reachable state, once every outstanding listener invocation
has returned (`drainOps`: one acknowledgement per notification, no other completion): no notification is
outstanding and no accepted connection is half-handled; a request that had finished is unchanged; a request
whose cancellation was requested has ended as cancelled; and a request that is still pending is waiting for the
environment — the address, the connect outcome, or the peer / the server / the 60 s timer. -/
theorem C11_listeners_return (m : Mode) (l f : Bool) (ops : List Op) :
    let s := run m l f ops
    let t := run m l f (ops ++ drainOps)
    settled t = true ∧ (s.res ≠ .pending → t.res = s.res) ∧ (s.cr = true → t.res = .cancelled) ∧
      (t.res = .pending → t.d = .addr ∨ t.d = .opening ∨ t.i = .waiting) := by
  have h := (good_facts (good_run m l f ops)).2.2.2.2
  simp only [Drains, DrainsTo, drain] at h
  simpa only [run_append] using h

/-- Cancellation of the request — delivered at any point, e.g. while a listener is being told CONNECTED, or while
the race is waiting for the loser to close — leaves nothing behind: once the listeners have returned the request
has ended as cancelled, nothing it created is registered or open, and no waiter remains. -/
theorem C11_cancel_leaves_nothing (m : Mode) (l f : Bool) (ops : List Op) (h : (run m l f ops).cr = true) :
    let t := run m l f (ops ++ drainOps)
    t.res = .cancelled ∧ t.dc = .none ∧ t.ic = false ∧ t.a = .none ∧ t.tw = false ∧ t.rw = false ∧ t.aw = false := by
  intro t
  have hd := C11_listeners_return m l f ops
  have hres : t.res = .cancelled := hd.2.2.1 h
  have hset : settled t = true := hd.1
  have hn := C11_no_leftovers m l f (ops ++ drainOps) (by show t.res ≠ .pending; rw [hres]; decide)
  obtain ⟨h1, h2, h3, h4, h5, _⟩ := hn
  have ha : t.a = .none := by
    have := hset
    simp only [settled, Bool.and_eq_true, beq_iff_eq] at this
    exact this.1.1.2
  refine ⟨hres, ?_, ?_, ha, h1, h2, h3⟩
  · cases hdc : t.dc with
    | none => rfl
    | connecting => exact absurd (h4 (by show t.dc ≠ .none; rw [hdc]; decide)).1 (by show t.res ≠ .returnedD; rw [hres]; decide)
    | «open» => exact absurd (h4 (by show t.dc ≠ .none; rw [hdc]; decide)).1 (by show t.res ≠ .returnedD; rw [hres]; decide)
  · cases hic : t.ic with
    | false => rfl
    | true => exact absurd (h5 hic) (by show t.res ≠ .returnedI; rw [hres]; decide)

/-- `select_port` returns an available port whenever one exists, of the kind it says, and the preferred
kind when both exist. -/
theorem C11_select_port (prefer : Bool) (port obfs : Nat) (h : port ≠ 0 ∨ obfs ≠ 0) :
    let r := selectPort prefer port obfs
    r.1 ≠ 0 ∧ (r.2 = true → r.1 = obfs) ∧ (r.2 = false → r.1 = port) ∧
      (port ≠ 0 → obfs ≠ 0 → r.2 = prefer) := by
  simp only [selectPort]
  by_cases hp : port = 0 <;> by_cases ho : obfs = 0 <;> cases prefer <;> simp_all

/-- Connect-back (`_handle_connect_to_peer`, modelled in `Model/Conn.lean`): when the attempt is over, the
asking peer has been sent a PeerPierceFirewall, or the server a CannotConnect — unless the connect-back
task itself was cancelled.  (Assumes the server connection is up, see the harness assumptions.) -/
theorem C11_connect_back (ops : List Conn.Op) (c : Conn.Conn) (hc : c ∈ (Conn.run ops).conns)
    (hb : c.k.origin = .back) (hover : c.k.att = .idle) :
    Conn.Ev.wrote ∈ c.evs ∨ Conn.Ev.cc ∈ c.evs ∨ Conn.Ev.attRes .cancelled ∈ c.evs := by
  have h := (Conn.inv_run ops c hc).back hb (by simp [Conn.backDone, hover])
  simp only [List.any_eq_true, Conn.answered, Bool.or_eq_true, beq_iff_eq] at h
  obtain ⟨e, he, (rfl | rfl) | rfl⟩ := h
  · exact Or.inl he
  · exact Or.inr (Or.inl he)
  · exact Or.inr (Or.inr he)

/-! ### The far end: "initialised, usable" as the peer sees it -/

/-- The wire-level run is the run the theorems above are about: every `C11_*` statement on `run` holds of `(xrun …).s`. -/
theorem C11_wire_projection (t : CT) (o : Bool) (m : Mode) (l f : Bool) (ops : List Op) :
    (xrun t o m l f ops).s = run m l f ops := xrun_s t o m l f ops

/-- Whenever PeerInit has reached the peer — whatever was delivered before, in between and after, for every
connection type — it went out in the encoding of the port that was dialled (obfuscated on an obfuscated port, in clear on a
clear one): a peer that follows the protocol can read it.  Before that nothing has been written. -/
theorem C11_wire_peer_reads_init (t : CT) (o : Bool) (m : Mode) (l f : Bool) (ops : List Op) :
    let x := xrun t o m l f ops
    (x.s.ps = true → x.initEnc = some o) ∧ (x.s.ps = false → x.initEnc = none) := by
  intro x
  obtain ⟨hw, _, _, ho⟩ := xrun_inv t o m l f ops
  have h := hw.enc
  constructor
  · intro hp; rw [show x.initEnc = _ from h, show x.s.ps = true from hp, show x.dialObf = o from ho]; rfl
  · intro hp; rw [show x.initEnc = _ from h, show x.s.ps = false from hp]; rfl

/-- What the request returns is usable at the far end.  Direct connection: the peer has read PeerInit, the connection has
left AWAITING_INIT, from now on it obfuscates / de-obfuscates exactly when the protocol says so for its type and the
dialled port (`P` on an obfuscated port: yes; `D`, `F`, any clear port: no), and incoming bytes go to the reader task
(`P`, `D`) or are left to the caller (`F`).  Pierced connection: the same with respect to the listening port the peer came
in on. -/
theorem C11_wire_returned_usable (t : CT) (o : Bool) (m : Mode) (l f : Bool) (ops : List Op) :
    let x := xrun t o m l f ops
    (x.s.res = .returnedD → x.initEnc = some o ∧ txOK t o x.dw = true ∧ rxOK t o x.dw = true) ∧
    (x.s.res = .returnedI → txOK t x.iObf x.iw = true ∧ rxOK t x.iObf x.iw = true) := by
  intro x
  obtain ⟨hw, hg, ht, ho⟩ := xrun_inv t o m l f ops
  obtain ⟨hr, _, _, _, _⟩ := good_facts hg
  obtain ⟨hD, hI, hDok, hIok⟩ := hr
  constructor
  · intro h
    have hps : x.s.ps = true := (hDok (hD.mp h)).2
    have hdw : x.dw = finalize t (Wire.fresh o) := by
      rw [show x.dw = _ from hw.dw, show x.s.ps = true from hps, show x.typ = t from ht, show x.dialObf = o from ho]; rfl
    refine ⟨(C11_wire_peer_reads_init t o m l f ops).1 hps, ?_, ?_⟩
    · rw [hdw]; cases t <;> cases o <;> rfl
    · rw [hdw]; cases t <;> cases o <;> rfl
  · intro h
    have hic : x.s.ic = true := hIok (hI.mp h).1
    have hiw : x.iw = finalize t (Wire.fresh x.iObf) := by
      rw [show x.iw = _ from hw.ic hic, show x.typ = t from ht]
    constructor
    · rw [hiw]; cases t <;> cases x.iObf <;> rfl
    · rw [hiw]; cases t <;> cases x.iObf <;> rfl

/-- `probe` (the caller sends one message and is sent one) succeeds both ways on every connection a request returns. -/
theorem C11_wire_probe_succeeds (t : CT) (o : Bool) (m : Mode) (l f : Bool) (ops : List Op) :
    let x := xrun t o m l f ops
    (x.s.res = .returnedD ∨ x.s.res = .returnedI) → usable x = some (true, true) := by
  have hinv := xrun_inv t o m l f ops
  have hU := C11_wire_returned_usable t o m l f ops
  generalize xrun t o m l f ops = x at hinv hU ⊢
  obtain ⟨_, _, ht, ho⟩ := hinv
  obtain ⟨hD, hI⟩ := hU
  show (x.s.res = .returnedD ∨ x.s.res = .returnedI) → usable x = some (true, true)
  intro h
  rcases h with h | h
  · obtain ⟨h1, h2, h3⟩ := hD h
    simp [usable, h, ht, ho, h1, h2, h3]
  · obtain ⟨h2, h3⟩ := hI h
    simp [usable, h, ht, h2, h3]

/-- Connect-back: the PeerPierceFirewall we write goes out in the encoding of the port the asking peer told us to dial, and
the connection is then usable by the protocol's rule for its type. -/
theorem C11_wire_connect_back (t : CT) (o : Bool) :
    (connectBackWire t o).1 = o ∧ txOK t o (connectBackWire t o).2 = true ∧ rxOK t o (connectBackWire t o).2 = true := by
  cases t <;> cases o <;> exact ⟨rfl, rfl, rfl⟩

/-- Connect-back from the message up, over EVERY port situation of the ConnectToPeer — clear / obfuscated port present, 0
or (the obfuscated one) absent from the message, also no usable port at all — every preference, type and outcome of the
dial: when the task is over the asking peer has been answered exactly one way — PeerPierceFirewall when connect and write
succeeded (then the connection is registered, was dialled on a real port and is what `C11_wire_connect_back` is about),
CannotConnect to the server otherwise (nothing stays registered); the dial is `select_port`'s choice
(`C11_select_port`); and a request without any port is answered with CannotConnect. -/
theorem C11_connect_back_every_port_situation (t : CT) (prefer : Bool) (port : Nat) (obfs : Option Nat) (how : BackHow)
    (r : BackOut) (h : connectBack t prefer port obfs how = some r) :
    (r.pierced = true ∨ r.cc = true) ∧ (r.pierced = true ↔ how = .ok) ∧ (r.cc = true ↔ how ≠ .ok) ∧
    (r.pierced = true → r.registered = true ∧ r.dial.1 ≠ 0 ∧ r.wire = some (connectBackWire t r.dial.2)) ∧
    (r.cc = true → r.registered = false ∧ r.wire = none) ∧
    r.dial = selectPort prefer port (obfs.getD 0) ∧
    (port = 0 → obfs.getD 0 = 0 → r.dial.1 = 0 ∧ r.cc = true) := by
  simp only [connectBack] at h
  split at h
  · exact absurd h (by simp)
  · rename_i hn
    cases how <;> simp only [Option.some.injEq] at h <;> subst h <;>
      simp_all [selectPort_zero, connectBackWire, Wire.fresh]

/-- … and the model answers every request the environment can produce: only "port 0 was dialled and the connect did not
fail" is excluded. -/
theorem C11_connect_back_total (t : CT) (prefer : Bool) (port : Nat) (obfs : Option Nat) (how : BackHow) :
    connectBack t prefer port obfs how = none ↔ (port = 0 ∧ obfs.getD 0 = 0 ∧ how ≠ .refused) := by
  simp only [connectBack, selectPort_zero]
  cases how <;> simp

/-! Non-vacuity -/

-- race: the direct attempt wins (no listener suspends: each notification is acknowledged at once) while the indirect
-- one waits; both waiters are gone; a late pierce is accepted, found unowned and closed again
example : (run .race false false [.note .dConnecting, .connectOk true, .note .dConnected, .note .dInit, .pierce false,
      .note .aConnected, .note .aClosing, .note .aClosed]) =
    { mode := .race, srvFail := false, cr := false, d := .ok, i := .cancelled, a := .none, dc := .open, ic := false,
      ps := true, tw := false, rw := false, aw := false, res := .returnedD } := by decide
-- race, the class of seeded/C11-f: the peer pierces while listeners are being told that the direct socket is CONNECTED:
-- the direct attempt is cancelled inside that listener and closes its connection (CLOSING, CLOSED notifications)
example : (run .race false false [.note .dConnecting, .connectOk true, .pierce false, .note .aConnected, .note .aInit]) =
    { mode := .race, srvFail := false, cr := false, d := .cClosing, i := .ok, a := .none, dc := .open, ic := true,
      ps := false, tw := false, rw := false, aw := false, res := .pending } := by decide
example : (run .race false false [.note .dConnecting, .connectOk true, .pierce false, .note .aConnected, .note .aInit,
      .note .dClosing, .note .dClosed]) =
    { mode := .race, srvFail := false, cr := false, d := .cancelled, i := .ok, a := .none, dc := .none, ic := true,
      ps := false, tw := false, rw := false, aw := false, res := .returnedI } := by decide
-- race: the request is cancelled while the loser is being closed (the `gather`): the winner is closed as well
example : (run .race false false [.note .dConnecting, .pierce false, .note .aConnected, .note .aInit, .cancelRequest,
      .note .dClosed]) =
    { mode := .race, srvFail := false, cr := true, d := .cancelled, i := .wClosing, a := .none, dc := .none, ic := true,
      ps := false, tw := false, rw := false, aw := false, res := .pending } := by decide
-- the 60 s timer fires while listeners are being told that the pierced connection is initialised: the request raises,
-- the accept task finds the waiter gone and closes the connection
example : (run .fallback false false [.note .dConnecting, .connectRefused, .note .dClosing, .note .dClosed, .pierce false,
      .note .aConnected, .indirectTimeout, .note .aInit]) =
    { mode := .fallback, srvFail := false, cr := false, d := .failed, i := .failed, a := .nClosing, dc := .none,
      ic := false, ps := false, tw := false, rw := false, aw := false, res := .raised } := by decide
-- fallback with look-up: no address → indirect → CannotConnect → raised, nothing left
example : (run .fallback true false [.addrReply .noAddr, .cannotConnect]) =
    { mode := .fallback, srvFail := false, cr := false, d := .failed, i := .failed, a := .none, dc := .none, ic := false,
      ps := false, tw := false, rw := false, aw := false, res := .raised } := by decide
-- fallback: ConnectToPeer cannot be written → raised, both waiters cleared
example : (run .fallback false true [.note .dConnecting, .connectRefused, .note .dClosing, .note .dClosed]).res = .raised ∧
    (run .fallback false true [.note .dConnecting, .connectRefused, .note .dClosing, .note .dClosed]).tw = false := by
  decide
-- a pending request with live waiters exists (the hypotheses above are not vacuous)
example : (run .race true false []).tw = true ∧ (run .race true false []).aw = true ∧ (run .race true false []).res = .pending := by
  decide
-- a cancelled request whose direct attempt is still inside a listener exists (hypothesis of C11_cancel_leaves_nothing)
example : (run .fallback false false [.cancelRequest]).cr = true ∧ (run .fallback false false [.cancelRequest]).d = .cClosing ∧
    (run .fallback false false [.cancelRequest]).res = .pending := by decide
-- the class of seeded/C11-k: a file connection to a peer that only has an obfuscated port: PeerInit goes out obfuscated,
-- the connection then carries on in clear with no reader task (the transfer code reads the socket)
example : let x := xrun .file true .fallback false false [.note .dConnecting, .connectOk true, .note .dConnected, .note .dInit]
    x.s.res = .returnedD ∧ x.initEnc = some true ∧ x.dw = { obf := false, fin := true, reader := false } ∧
      usable x = some (true, true) := by decide
-- a `P` connection on the same port stays obfuscated and has a reader
example : (xrun .peer true .race false false [.note .dConnecting, .connectOk true, .note .dConnected, .note .dInit]).dw =
    { obf := true, fin := true, reader := true } := by decide
-- a distributed connection that pierced through our obfuscated listening port: in clear after the handshake, with a reader
example : let x := xrun .distributed false .fallback false false [.note .dConnecting, .connectRefused, .note .dClosing,
      .note .dClosed, .pierce true, .note .aConnected, .note .aInit]
    x.s.res = .returnedI ∧ x.iObf = true ∧ x.iw = { obf := false, fin := true, reader := true } ∧
      usable x = some (true, true) := by decide
-- nothing is probed before the request has returned
example : usable (xrun .peer false .race false false [.note .dConnecting, .connectOk true]) = none := by decide
-- connect-back that is refused reports CannotConnect
example : (Conn.run [.new .back false false, .at 0 .connectFail]).conns.map (fun c => (c.k.att, c.evs)) =
    [(.idle, [.st .connecting .unknown, .st .closing .connectFailed, .st .closed .connectFailed, .attRes .fail, .cc])] := by
  decide
-- the class of seeded/C11-n: a ConnectToPeer with no port at all (clear 0, obfuscated-port fields absent / 0): port 0 is
-- dialled, refused, and the server is told CannotConnect; with a port that accepts, the peer is pierced instead
example : connectBack .peer false 0 none .refused =
    some { dial := (0, true), pierced := false, cc := true, registered := false, wire := none } := by decide
example : connectBack .file true 0 (some 0) .refused =
    some { dial := (0, true), pierced := false, cc := true, registered := false, wire := none } := by decide
example : connectBack .file true 2234 (some 2235) .ok =
    some { dial := (2235, true), pierced := true, cc := false, registered := true,
           wire := some (true, { obf := false, fin := true, reader := false }) } := by decide
example : connectBack .peer true 2234 none .writeFails =
    some { dial := (2234, false), pierced := false, cc := true, registered := false, wire := none } := by decide

end AioslskVerif.C11
