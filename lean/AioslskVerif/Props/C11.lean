import AioslskVerif.Proofs.PeerConnect
import AioslskVerif.Proofs.Conn
/-!
# C11 — connecting to a peer succeeds iff a path works, and leaves nothing behind

Property theorems only (models: `Model/PeerConnect.lean`, `Model/Conn.lean`; helpers: `Proofs/PeerConnect.lean`,
`Proofs/Conn.lean`).  The model is the code **with** `fixes/C10-connect-cancel-or-closed.patch` and
`fixes/C11-attempt-cleanup.patch` applied.

`run mode lookup srvFail ops` is the state of one `create_peer_connection` request, in fallback or race
mode, with or without an address look-up, with the ConnectToPeer write succeeding or failing, after any
list of completions in any order — address reply (valid / none / no port), connect ok with PeerInit written
/ PeerInit write failing / refused / timeout, a peer piercing with the ticket, CannotConnect, the 60 s
timer, cancellation of the request — including completions that arrive after the request has finished.
Every such state is a quiescent point.
-/
namespace AioslskVerif.C11
open AioslskVerif.PeerConnect

/-- The request returns the direct (indirect) connection exactly when the direct (indirect) attempt
succeeded, and what it returns is registered, open and initialised. -/
theorem C11_returns_iff (m : Mode) (l f : Bool) (ops : List Op) :
    let s := run m l f ops
    (s.res = .returnedD ↔ s.d = .ok) ∧ (s.res = .returnedI ↔ s.i = .ok) ∧
      (s.d = .ok → s.dc = .open) ∧ (s.i = .ok → s.ic = true) :=
  (good_facts (good_run m l f ops)).1

/-- It raises `PeerConnectionError` exactly when both attempts failed; in fallback mode the indirect
attempt is only made after the direct one failed. -/
theorem C11_raises_otherwise (m : Mode) (l f : Bool) (ops : List Op) :
    let s := run m l f ops
    (s.res = .raised ↔ (s.d = .failed ∧ s.i = .failed)) ∧
      (s.mode = .fallback → s.i ≠ .notStarted → s.d = .failed) :=
  (good_facts (good_run m l f ops)).2.1

/-- Once the request has returned, raised or been cancelled — and whatever arrives afterwards — no waiter
for the ticket, for CannotConnect or for the address remains, no attempt is still running, and the only
registered / open connection the request created is the one it returned. -/
theorem C11_no_leftovers (m : Mode) (l f : Bool) (ops : List Op) :
    let s := run m l f ops
    s.res ≠ .pending →
      s.tw = false ∧ s.rw = false ∧ s.aw = false ∧
      (s.dc ≠ .none → s.res = .returnedD ∧ s.dc = .open) ∧ (s.ic = true → s.res = .returnedI) ∧
      s.d ≠ .addr ∧ s.d ≠ .opening ∧ s.i ≠ .waiting :=
  (good_facts (good_run m l f ops)).2.2.1

/-- A finished request stays finished: later completions (late pierce, late CannotConnect, …) do not
change what it returned. -/
theorem C11_result_final (m : Mode) (l f : Bool) (ops : List Op) (op : Op)
    (h : (run m l f ops).res ≠ .pending) : (run m l f (ops ++ [op])).res = (run m l f ops).res := by
  have hrun : run m l f (ops ++ [op]) = stepT (run m l f ops) op := by simp [run, List.foldl_append]
  rw [hrun]
  exact (good_facts (good_run m l f ops)).2.2.2 h op (mem_allOp op)

/-- `select_port` returns an available port whenever one exists, of the kind it says, and the preferred
kind when both exist. -/
theorem C11_select_port (prefer : Bool) (port obfs : Nat) (h : port ≠ 0 ∨ obfs ≠ 0) :
    let r := selectPort prefer port obfs
    r.1 ≠ 0 ∧ (r.2 = true → r.1 = obfs) ∧ (r.2 = false → r.1 = port) ∧
      (port ≠ 0 → obfs ≠ 0 → r.2 = prefer) := by
  simp only [selectPort]
  by_cases hp : port = 0 <;> by_cases ho : obfs = 0 <;> cases prefer <;> simp_all

/-- Connect-back (`_handle_connect_to_peer`, modelled in `Model/Conn.lean`): when the attempt is over, the
asking peer has been sent a PeerPierceFirewall, or the server a CannotConnect — unless the connect-back
task itself was cancelled.  (Assumes the server connection is up, see the harness assumptions.) -/
theorem C11_connect_back (ops : List Conn.Op) (c : Conn.Conn) (hc : c ∈ (Conn.run ops).conns)
    (hb : c.k.origin = .back) (hover : c.k.att = .idle) :
    Conn.Ev.wrote ∈ c.evs ∨ Conn.Ev.cc ∈ c.evs ∨ Conn.Ev.attRes .cancelled ∈ c.evs := by
  have h := (Conn.inv_run ops c hc).back hb (by simp [Conn.backDone, hover])
  simp only [List.any_eq_true, Conn.answered, Bool.or_eq_true, beq_iff_eq] at h
  obtain ⟨e, he, (rfl | rfl) | rfl⟩ := h
  · exact Or.inl he
  · exact Or.inr (Or.inl he)
  · exact Or.inr (Or.inr he)

/-! Non-vacuity -/

-- race: the direct attempt wins while the indirect one waits; both waiters are gone; a late pierce changes nothing
example : (run .race false false [.connectOk true, .pierce]) =
    { mode := .race, srvFail := false, d := .ok, i := .cancelled, dc := .open, ic := false, tw := false, rw := false,
      aw := false, res := .returnedD } := by decide
-- race: the peer pierces while the direct attempt is still parked in open_connection: the loser is closed
example : (run .race false false [.pierce]) =
    { mode := .race, srvFail := false, d := .cancelled, i := .ok, dc := .none, ic := true, tw := false, rw := false,
      aw := false, res := .returnedI } := by decide
-- fallback with look-up: no address → indirect → CannotConnect → raised, nothing left
example : (run .fallback true false [.addrReply .noAddr, .cannotConnect]) =
    { mode := .fallback, srvFail := false, d := .failed, i := .failed, dc := .none, ic := false, tw := false, rw := false,
      aw := false, res := .raised } := by decide
-- fallback: ConnectToPeer cannot be written → raised, both waiters cleared
example : (run .fallback false true [.connectRefused]).res = .raised ∧ (run .fallback false true [.connectRefused]).tw = false := by
  decide
-- a pending request with live waiters exists (the hypotheses above are not vacuous)
example : (run .race true false []).tw = true ∧ (run .race true false []).aw = true ∧ (run .race true false []).res = .pending := by
  decide
-- connect-back that is refused reports CannotConnect
example : (Conn.run [.new .back false false, .at 0 .connectFail]).conns.map (fun c => (c.k.att, c.evs)) =
    [(.idle, [.st .connecting .unknown, .st .closing .connectFailed, .st .closed .connectFailed, .attRes .fail, .cc])] := by
  decide

end AioslskVerif.C11
