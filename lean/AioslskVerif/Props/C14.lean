import AioslskVerif.Proofs.DistSearch
/-!
# C14 — search requests flow down the tree exactly once, and are answered to the asker

Property theorems only (model: `Model/DistSearch.lean` on top of the tree model `Model/Dist.lean`; helper
lemmas: `Proofs/DistSearch.lean`, tree invariant `run_inv`: `Proofs/Dist.lean`).
The model is the code with the proposed fix `fixes/C14-own-search-distributed-carriers.patch` applied (and the
three C13 fixes, which are in `/repo`).

Quantifiers. `run ops` ranges over **all** histories of tree operations (any number of peers, connections,
announcements, closes, session losses): every reachable tree state. `r : Req` ranges over all three carriers
and all values of code / unknown / user / ticket / query. `env : Env` ranges over all share contents
(`answer u q` = what the shares return for asking user `u` and query `q`, as visible and locked files — C07/C08
say which) and all block lists. `handle env s r` is everything written because `r` was received in state `s`.

Reading (DESIGN.md, C14). "Own" is read on the session's user: `session = some r.user`. A carrier "is a search
request" (`r.IsSearch`) unless it is the legacy wrapper with a `distributed_code` other than 3, which the code
ignores altogether. The code does not look at the connection a carrier arrived on, so every statement holds
whichever connection delivered it (server, parent, or anybody else).
-/
namespace AioslskVerif.C14
open AioslskVerif.Dist
open AioslskVerif.DistSearch
open AioslskVerif.Generated.DistSearch

/-- **Fan-out, exactly.** A search request that is not the logged-in user's own is passed on as the list
`children.map (DistributedSearchRequest(unknown, user, ticket, query))` — one frame per current child, in
list order, nothing else — with the carrier's user, ticket and query unchanged (and its `unknown`; `0x31` for
the legacy wrapper). List equality is stronger than multiset equality. -/
theorem C14_fanout_exact (ops : List Op) (r : Req) (hown : (run ops).session ≠ some r.user) (hs : r.IsSearch) :
    forward (run ops) r =
      (run ops).children.map (fun c => Out.fwd c r.outUnknown r.user r.ticket r.query) :=
  forward_foreign _ r hown hs

/-- **Exactly once to every current child, to no other connection**: among *all* frames written because of the
carrier (forwards and reply), the number addressed to distributed connection `c` is 1 when `c` is a current
child and 0 otherwise. (Uses the C13 invariant: no connection is listed twice as a child.) -/
theorem C14_exactly_once (env : Env) (ops : List Op) (r : Req) (hown : (run ops).session ≠ some r.user)
    (hs : r.IsSearch) (c : ConnId) :
    (handle env (run ops) r).countP (Out.toConn c) = if c ∈ (run ops).children then 1 else 0 := by
  unfold handle
  rw [List.countP_append, countP_reply, forward_foreign _ r hown hs, countP_fwd_map, Nat.add_zero]
  exact count_of_nodup _ (run_inv ops).str.childNodup c

/-- **Never back to the parent, to candidates or to anybody else** — for *every* carrier (own or foreign,
search or not): a frame written to a distributed connection goes to a current child; that connection is not
the parent's, its user is not the parent's user, and it carries the carrier's user, ticket and query. A
candidate (a live distributed connection that is neither parent nor child) therefore receives nothing. -/
theorem C14_not_to_others (env : Env) (ops : List Op) (r : Req) (o : Out) (c : ConnId)
    (ho : o ∈ handle env (run ops) r) (hc : o.toConn c = true) :
    c ∈ (run ops).children ∧ (run ops).parent ≠ some c ∧
    (∀ p, (run ops).parent = some p → (run ops).name c ≠ (run ops).name p) ∧
    ∃ unk, o = Out.fwd c unk r.user r.ticket r.query := by
  unfold handle at ho
  rcases List.mem_append.1 ho with hf | hr
  · obtain ⟨d, unk, hd, rfl⟩ := mem_forward _ r o hf
    have hdc : d = c := by simpa [Out.toConn] using hc
    subst hdc
    have hp := (run_inv ops).str.pnc
    exact ⟨hd, fun h => hp d h d hd rfl, fun p h => hp p h d hd, unk, rfl⟩
  · rw [reply_toConn env _ r o hr c] at hc
    exact absurd hc (by decide)

/-- **No send to closed / closing children.** Every connection a frame is written to is a live registered
distributed connection (`distributed_peers`), and once the `CLOSED` event of connection `c` has been handled
nothing is written to `c` any more, whatever happens afterwards to the carrier. (The window between the `CLOSING`
and the `CLOSED` notification of a connection is `C14_closing_window` below.) -/
theorem C14_no_send_to_closing (env : Env) (ops : List Op) (r : Req) (o : Out) (c : ConnId) :
    (o ∈ handle env (run ops) r → o.toConn c = true → c ∈ (run ops).liveConns) ∧
    (o ∈ handle env (run (ops ++ [.closed c])) r → o.toConn c = false) := by
  refine ⟨fun ho hc => ?_, fun ho => ?_⟩
  · exact (run_inv ops).str.childLive c (C14_not_to_others env ops r o c ho hc).1
  · cases hc : o.toConn c with
    | false => rfl
    | true =>
      have hchild := (C14_not_to_others env (ops ++ [.closed c]) r o c ho hc).1
      have hlive := (run_inv (ops ++ [.closed c])).str.childLive c hchild
      -- `closePeer` removes `c` from the live connections (which have no duplicates)
      have hnd := (run_inv ops).str.liveNodup
      have hnot : c ∉ (run (ops ++ [.closed c])).live := by
        simp only [run, List.foldl_append, List.foldl_cons, List.foldl_nil, step]
        show c ∉ (closePeer (run ops) c).live
        unfold closePeer
        split
        · intro hm
          have hm' : c ∈ (run ops).live.erase c := by
            by_cases hp : (run ops).parent = some c
            · simp only [if_pos hp] at hm; simpa using hm
            · simp only [if_neg hp] at hm; exact hm
          exact (hnd.mem_erase_iff.1 hm').1 rfl
        · assumption
      exact absurd hlive hnot

/-- **Own searches are silent**: a carrier whose user is the logged-in user — on any of the three carriers, in
any state — is neither forwarded nor answered, and the shares are not even queried (no
`SearchRequestReceivedEvent`). -/
theorem C14_own_silent (env : Env) (s : DState) (r : Req) (hown : s.session = some r.user) :
    handle env s r = [] ∧ received env s r = none := by
  have hq := queried_own env s r hown
  refine ⟨?_, ?_⟩
  · unfold handle
    rw [forward_own s r hown]
    unfold reply
    rw [hown]
    simp [hq]
  · unfold received
    simp [hq]

/-- **Answered iff there are matches.** Logged in, foreign asker that is not search-blocked, search carrier:
a reply is written iff the shares hold a visible or locked match for the asking user; and never more than one. -/
theorem C14_answer_iff (env : Env) (s : DState) (r : Req) (me : Name) (hs : s.session = some me)
    (hu : r.user ≠ me) (hsearch : r.IsSearch) (hb : env.blocked r.user = false) :
    (reply env s r ≠ [] ↔ env.hasMatch r.user r.query) ∧ (reply env s r).length ≤ 1 := by
  refine ⟨?_, reply_length_le env s r⟩
  rw [reply_eq env s r me hs (queried_true env s r me hs hu hsearch hb)]
  unfold Env.hasMatch
  by_cases h0 : (env.answer r.user r.query).1.length + (env.answer r.user r.query).2.length = 0
  · rw [if_pos h0]
    have h := (len_zero_iff _ _).1 h0
    constructor
    · intro hne; exact absurd rfl hne
    · rintro (h1 | h2)
      · exact absurd h.1 h1
      · exact absurd h.2 h2
  · rw [if_neg h0]
    constructor
    · intro _
      by_cases h1 : (env.answer r.user r.query).1 = []
      · right; intro h2; exact h0 ((len_zero_iff _ _).2 ⟨h1, h2⟩)
      · exact Or.inl h1
    · intro _ hnil; cases hnil

/-- **Content of the answer**: when there is a match the one reply goes to the asking user and carries the
carrier's ticket, the own user name, and exactly the visible and the locked files the shares returned for
(asking user, query). -/
theorem C14_answer_content (env : Env) (s : DState) (r : Req) (me : Name) (hs : s.session = some me)
    (hu : r.user ≠ me) (hsearch : r.IsSearch) (hb : env.blocked r.user = false)
    (hm : env.hasMatch r.user r.query) :
    reply env s r =
      [Out.reply r.user r.ticket me (env.answer r.user r.query).1 (env.answer r.user r.query).2] := by
  rw [reply_eq env s r me hs (queried_true env s r me hs hu hsearch hb)]
  have h0 : ¬ ((env.answer r.user r.query).1.length + (env.answer r.user r.query).2.length = 0) := by
    intro h0
    have h := (len_zero_iff _ _).1 h0
    rcases hm with h1 | h2
    · exact h1 h.1
    · exact h2 h.2
  rw [if_neg h0]

/-- **All frames, exactly** (the reading of DESIGN.md in one equation): logged in, foreign asker that is not
search-blocked, search carrier, any reachable tree state — everything written is one forwarded request per
child followed by the one reply iff there is a match. -/
theorem C14_frames_exact (env : Env) (ops : List Op) (r : Req) (me : Name) (hs : (run ops).session = some me)
    (hu : r.user ≠ me) (hsearch : r.IsSearch) (hb : env.blocked r.user = false) :
    handle env (run ops) r =
      (run ops).children.map (fun c => Out.fwd c r.outUnknown r.user r.ticket r.query) ++
      (if env.hasMatch r.user r.query then
        [Out.reply r.user r.ticket me (env.answer r.user r.query).1 (env.answer r.user r.query).2] else []) := by
  have hown : (run ops).session ≠ some r.user := by
    rw [hs]; intro h; exact hu (Option.some.inj h).symm
  unfold handle
  rw [forward_foreign _ r hown hsearch]
  congr 1
  by_cases hm : env.hasMatch r.user r.query
  · rw [if_pos hm]; exact C14_answer_content env _ r me hs hu hsearch hb hm
  · rw [if_neg hm]
    have := (C14_answer_iff env (run ops) r me hs hu hsearch hb).1
    exact Classical.byContradiction fun hne => hm (this.1 hne)

/-- no reply without a session, none to a search-blocked user, nothing at all for a wrapper that is not a
search (the forward to the children, where there is one, is unaffected: `C14_fanout_exact`). -/
theorem C14_no_answer (env : Env) (s : DState) (r : Req)
    (h : s.session = none ∨ env.blocked r.user = true ∨ ¬ r.IsSearch) : reply env s r = [] := by
  unfold reply
  split
  · rename_i me hs
    rcases h with h | h | h
    · rw [hs] at h; cases h
    · simp [queried, h]
    · have : reaches s r = false := by
        unfold reaches
        unfold Req.IsSearch at h
        split <;> simp_all
      simp [queried, this]
  · rfl

/-- **Membership changes between requests.** In any history of tree operations interleaved with carriers
(children joining / leaving, parent changes, session loss in between — and adds in progress, see below), what is
written for each carrier is `handle` in the tree state reached by the tree operations before it — so all theorems
above apply to every request of every history, each with the children *at that time*. -/
theorem C14_history (env : Env) (h : List SOp) (e : Req × List Out) (he : e ∈ (runS env h).log) :
    ∃ h', h' <+: h ∧ e.2 = handle env (run (treeOps h')) e.1 := by
  rcases history_aux env h [] e he with h1 | ⟨h', hp, heq⟩
  · simp [runS, SState.init] at h1
  · refine ⟨h', hp, ?_⟩
    rw [heq, List.nil_append, runS_state]

/-- **A child stays a child until its connection is closed.** Whatever the next tree operation is: a connection
listed as a child that is still registered (`distributed_peers`) afterwards is still listed as a child. Entries leave
`children` only through the `CLOSED` event of their connection (`_remove_child` is called from nowhere else; `reset`
and the refusals disconnect). -/
theorem C14_child_until_closed (ops : List Op) (op : Op) (c : ConnId) (hc : c ∈ (run ops).children)
    (hl : c ∈ (run (ops ++ [op])).live) : c ∈ (run (ops ++ [op])).children := by
  rw [run_append] at hl ⊢
  exact step_stays (run ops) op (run_inv ops) c hc hl

/-- **"Current child", observably.** A registered distributed connection to which a `DistributedBranchLevel` has been
written (`toldL c ≠ none`) is listed as a child — the library writes branch levels to children only, and
`children.append` precedes the write in `_add_child`. Hence (with `C14_exactly_once`) every connection that has been
sent our branch level and has not been closed receives each foreign search carrier exactly once. This is the reading
of "current child" the monitor of `props/c14.py` evaluates on what the remote ends see. -/
theorem C14_told_is_child (env : Env) (ops : List Op) (c : ConnId) (hl : c ∈ (run ops).live)
    (ht : (run ops).toldL c ≠ none) :
    c ∈ (run ops).children ∧
    ∀ r : Req, (run ops).session ≠ some r.user → r.IsSearch →
      (handle env (run ops) r).countP (Out.toConn c) = 1 := by
  have hc := run_tc ops c hl ht
  refine ⟨hc, fun r hown hs => ?_⟩
  rw [C14_exactly_once env ops r hown hs c, if_pos hc]

/-- **Carriers handled while a child is being added.** In any small-step history — tree operations, carriers,
`addBegin n` (a peer connects, `_add_child` runs up to its suspension in the sends of level and root) and `addEnd c`
(it resumes) in any order and number — a connection whose add is in progress is registered and listed as a child,
and every foreign search carrier handled at that point is passed on to it exactly once. -/
theorem C14_adding_served (env : Env) (h : List SOp) (c : ConnId) (hc : c ∈ (runS env h).adding) :
    c ∈ (runS env h).d.live ∧ c ∈ (runS env h).d.children ∧
    ∀ r : Req, (runS env h).d.session ≠ some r.user → r.IsSearch →
      (handle env (runS env h).d r).countP (Out.toConn c) = 1 := by
  have hok := runS_addingOK env h c hc
  refine ⟨hok.1, hok.2, fun r hown hs => ?_⟩
  have hch := hok.2
  rw [runS_state] at hown hch ⊢
  rw [C14_exactly_once env (treeOps h) r hown hs c, if_pos hch]

/-- **`C14_fanout_exact` over histories with adds in progress.** For every carrier `e.1` logged by a small-step
history there is the prefix `h'` handled before it such that: what was written is `handle` in the tree state of
`h'`; if the carrier is a foreign search, the forwards are exactly one frame per entry of `children` of that state,
fields preserved; and `children` of that state contains every connection whose add was in progress then. -/
theorem C14_fanout_exact_suspended (env : Env) (h : List SOp) (e : Req × List Out) (he : e ∈ (runS env h).log) :
    ∃ h', h' <+: h ∧ e.2 = handle env (runS env h').d e.1 ∧
      ((runS env h').d.session ≠ some e.1.user → e.1.IsSearch →
        forward (runS env h').d e.1 =
          (runS env h').d.children.map (fun c => Out.fwd c e.1.outUnknown e.1.user e.1.ticket e.1.query)) ∧
      ∀ c, c ∈ (runS env h').adding → c ∈ (runS env h').d.children := by
  rcases history_aux env h [] e he with h1 | ⟨h', hp, heq⟩
  · simp [runS, SState.init] at h1
  · refine ⟨h', hp, by simpa using heq, fun hown hs => forward_foreign _ _ hown hs,
      fun c hc => (runS_addingOK env h' c hc).2⟩

/-- **Carriers handled while a connection is between its CLOSING and its CLOSED notification.** In any small-step
history — tree operations, carriers, adds in progress, and `closeBegin c` (connection `c` is reported CLOSING: EOF, a
failed write, a time-out; `disconnect` is suspended until the transport is gone, up to DISCONNECT_TIMEOUT) in any order
and number, several connections closing at once included — for every carrier `e.1` there is the prefix `h'` handled
before it such that what was WRITTEN for it is what `handle` queued in the tree state of `h'` minus the frames for the
connections closing at that point, and:
* every closing connection is still registered (it leaves `children` / `distributed_peers` only with `CLOSED`);
* if the carrier is a foreign search: every connection receives it exactly once if it is a current child that is not
  closing and not at all otherwise — a closing child costs none of its siblings their copy, wherever it stands in the list;
* the reply is unaffected, and nothing is written that `handle` did not queue. -/
theorem C14_closing_window (env : Env) (h : List SOp) (e : Req × List Out) (he : e ∈ (runS env h).sent) :
    ∃ h', h' <+: h ∧
      e.2 = written (runS env h').closing (handle env (runS env h').d e.1) ∧
      (∀ c, c ∈ (runS env h').closing → c ∈ (runS env h').d.live) ∧
      ((runS env h').d.session ≠ some e.1.user → e.1.IsSearch → ∀ c,
        e.2.countP (Out.toConn c) =
          if c ∈ (runS env h').d.children ∧ c ∉ (runS env h').closing then 1 else 0) ∧
      (∀ o, o ∈ reply env (runS env h').d e.1 → o ∈ e.2) ∧
      (∀ o, o ∈ e.2 → o ∈ handle env (runS env h').d e.1) := by
  rcases sent_aux env h [] e he with h1 | ⟨h', hp, heq⟩
  · simp [runS, SState.init] at h1
  · rw [List.nil_append] at heq
    refine ⟨h', hp, heq, (runS_closingOK env h').1, fun hown hs c => ?_, fun o ho => ?_, fun o ho => ?_⟩
    · rw [heq, countP_written]
      rw [runS_state] at hown ⊢
      rw [C14_exactly_once env (treeOps h') e.1 hown hs c]
      by_cases hcl : c ∈ (runS env h').closing
      · simp [hcl]
      · by_cases hch : c ∈ (run (treeOps h')).children <;> simp [hcl, hch]
    · rw [heq]; exact reply_sub_written env _ e.1 _ o ho
    · rw [heq] at ho; exact written_sub _ _ o ho

/-- **A closing connection keeps its place until CLOSED.** Reporting connection `c` CLOSING changes nothing in the tree
(`children`, `parent`, `distributed_peers`, the adds in progress): the library acts on `CLOSED` only. And the `CLOSED`
notification ends the window: `c` is not closing afterwards (and, `C14_no_send_to_closing`, not a child either). -/
theorem C14_closing_keeps_place (env : Env) (h : List SOp) (c : ConnId) :
    (runS env (h ++ [.closeBegin c])).d = (runS env h).d ∧
    (runS env (h ++ [.closeBegin c])).adding = (runS env h).adding ∧
    c ∉ (runS env (h ++ [.tree (.closed c)])).closing := by
  refine ⟨?_, ?_, closed_not_closing env h c⟩
  · rw [runS_append, stepS_closeBegin_d]
  · rw [runS_append, stepS_closeBegin_adding]

/-- a small-step operation that reports a connection CLOSING -/
def isCloseBegin : SOp → Bool
  | .closeBegin _ => true
  | _ => false

/-- **Without closing windows everything queued is written**: in a history in which no connection is reported CLOSING
ahead of its `CLOSED` notification (the atomic reading of the theorems above) the log of written frames is the log of
queued frames. -/
theorem C14_written_is_queued (env : Env) (h : List SOp) (hno : ∀ op, op ∈ h → isCloseBegin op = false) :
    (runS env h).sent = (runS env h).log ∧ (runS env h).closing = [] := by
  unfold runS
  suffices ∀ (st : SState), st.sent = st.log → st.closing = [] →
      (h.foldl (stepS env) st).sent = (h.foldl (stepS env) st).log ∧ (h.foldl (stepS env) st).closing = [] from
    this SState.init rfl rfl
  induction h with
  | nil => intro st h1 h2; exact ⟨h1, h2⟩
  | cons op h ih =>
    intro st h1 h2
    have hno' : ∀ op, op ∈ h → isCloseBegin op = false := fun o ho => hno o (List.mem_cons_of_mem _ ho)
    have hop := hno op List.mem_cons_self
    rw [List.foldl_cons]
    cases op with
    | tree op => exact ih hno' _ h1 (by simp [stepS, stillAdding, h2])
    | search r => exact ih hno' _ (by simp [stepS, h1, h2, written_nil]) h2
    | addBegin n => exact ih hno' _ h1 (by simp [stepS, stillAdding, h2])
    | addEnd c => exact ih hno' _ h1 h2
    | closeBegin c => simp [isCloseBegin] at hop
    | credentials n => exact ih hno' _ h1 h2

/-- **Never back to the parent's USER, over small-step histories.** For every carrier logged by a small-step history
(adds in progress, closing windows, credential changes included) there is the prefix `h'` handled before it such that
every frame queued on a distributed connection `c` went to a current child of that state, and — if there was a parent
`p` then — `c` is not the parent's connection and the user of `c` is not the parent's user: a second connection of the
parent's user is never served, whether or not the potential-parents cache still remembers the name
(`checkNewChild` refuses by `parentName`, `checkNewParent` by `isChildName`; C13's invariant `pnc`). -/
theorem C14_never_back_to_parent_user (env : Env) (h : List SOp) (e : Req × List Out) (he : e ∈ (runS env h).log)
    (o : Out) (ho : o ∈ e.2) (c : ConnId) (hc : o.toConn c = true) :
    ∃ h', h' <+: h ∧ c ∈ (runS env h').d.children ∧
      ∀ p, (runS env h').d.parent = some p →
        p ≠ c ∧ (runS env h').d.name c ≠ (runS env h').d.name p := by
  rcases history_aux env h [] e he with h1 | ⟨h', hp, heq⟩
  · simp [runS, SState.init] at h1
  · rw [List.nil_append] at heq
    rw [heq, runS_state] at ho
    have hn := C14_not_to_others env (treeOps h') e.1 o c ho hc
    refine ⟨h', hp, ?_, fun p hpar => ?_⟩
    · rw [runS_state]; exact hn.1
    · rw [runS_state] at hpar ⊢
      exact ⟨fun hpc => hn.2.1 (hpc ▸ hpar), hn.2.2.1 p hpar⟩

/-- **The configured login name is irrelevant.** Assigning `settings.credentials.username` while the session lasts
(`SOp.credentials n`, any number of times, anywhere in a small-step history) changes nothing: the tree, everything
queued and everything written for every carrier, the adds in progress and the closing connections are those of the
history with the assignments left out. "The logged-in user" is the session's user (`DState.session`), not the
configuration for the next login. -/
theorem C14_configured_name_irrelevant (env : Env) (h : List SOp) :
    (runS env h).d = (runS env (h.filter (fun op => !isCredentials op))).d ∧
    (runS env h).log = (runS env (h.filter (fun op => !isCredentials op))).log ∧
    (runS env h).sent = (runS env (h.filter (fun op => !isCredentials op))).sent ∧
    (runS env h).adding = (runS env (h.filter (fun op => !isCredentials op))).adding ∧
    (runS env h).closing = (runS env (h.filter (fun op => !isCredentials op))).closing := by
  have hf : forget (runS env h) = runS env (h.filter (fun op => !isCredentials op)) := by
    unfold runS
    rw [forget_foldl]
    rfl
  refine ⟨?_, ?_, ?_, ?_, ?_⟩
  · exact (congrArg SState.d hf : (forget (runS env h)).d = _)
  · exact (congrArg SState.log hf : (forget (runS env h)).log = _)
  · exact (congrArg SState.sent hf : (forget (runS env h)).sent = _)
  · exact (congrArg SState.adding hf : (forget (runS env h)).adding = _)
  · exact (congrArg SState.closing hf : (forget (runS env h)).closing = _)

/-- **Own = the session's user, whatever is configured.** Right after the configured name was set to `n` (any `n`, the
session's own name or another account): a carrier of the session's user is neither forwarded nor answered, and every
other search carrier — the one of user `n` included — goes to every current child, fields preserved. -/
theorem C14_own_is_session_user (env : Env) (h : List SOp) (n : Name) (r : Req) :
    (runS env (h ++ [.credentials n])).configured = some n ∧
    (runS env (h ++ [.credentials n])).d = (runS env h).d ∧
    ((runS env h).d.session = some r.user → handle env (runS env (h ++ [.credentials n])).d r = []) ∧
    ((runS env h).d.session ≠ some r.user → r.IsSearch →
      forward (runS env (h ++ [.credentials n])).d r =
        (runS env h).d.children.map (fun c => Out.fwd c r.outUnknown r.user r.ticket r.query)) := by
  have hd : (runS env (h ++ [.credentials n])).d = (runS env h).d := by rw [runS_append]; rfl
  refine ⟨by rw [runS_append]; rfl, hd, fun hown => ?_, fun hown hs => ?_⟩
  · rw [hd]; exact (C14_own_silent env _ r hown).1
  · rw [hd]; exact forward_foreign _ r hown hs

/-- **What a protocol-following peer can read.** Every frame queued for a carrier is written in the form the protocol
prescribes for its connection, whichever port the connection came through: a forwarded request travels on a distributed
connection and is written IN THE CLEAR — also to a child that connected to the obfuscated listening port (only its
PeerInit was obfuscated) —, a reply travels on a peer connection and is obfuscated exactly when that connection goes
through an obfuscated port. (`wireObf` is the table `obfAfterInit`, read off `Network._finalize_peer_connection` /
`PeerConnection.set_connection_state` at every run; finite, hence `decide`.) -/
theorem C14_wire_form (env : Env) (s : DState) (r : Req) (o : Out) (_ho : o ∈ handle env s r) (viaObf : Bool) :
    (∀ c unk u t q, o = Out.fwd c unk u t q → wireObf o.connType viaObf = false) ∧
    (∀ to t me v l, o = Out.reply to t me v l → wireObf o.connType viaObf = viaObf) := by
  have table : ∀ (t : ConnType) (via : Bool), wireObf t via = (decide (t = ConnType.peer) && via) := by
    intro t via; cases t <;> cases via <;> decide
  refine ⟨fun c unk u t q ho => ?_, fun to t me v l ho => ?_⟩
  · subst ho; rw [table]; rfl
  · subst ho; rw [table]; cases viaObf <;> rfl

/-! Non-vacuity. A reachable state with a session (user 0), a parent (connection 2, user 3), two children
(connections 0 and 1, users 1 and 2) and a candidate (connection 3, user 4: proposed after the parent was
chosen, has not announced anything). A foreign search from user 5 with matches is forwarded to exactly the two
children and answered; the own search is silent; after child 0 left, only child 1 receives the next one. -/
def demo : List Op :=
  [.sessionInit 0, .initialized 1 false, .initialized 2 false, .potentialParents [3], .initialized 3 true,
   .level 2 1, .root 2 7, .potentialParents [4], .initialized 4 true]

def demoEnv : Env where
  answer := fun u q => if q = "rock" then (["a"], if u = 5 then ["b"] else []) else ([], [])
  blocked := fun u => u == 7

example : (run demo).session = some 0 ∧ (run demo).parent = some 2 ∧ (run demo).children = [0, 1] ∧
    (run demo).live = [0, 1, 2, 3] := by decide
example : handle demoEnv (run demo) ⟨.distributed 49, 5, 77, "rock"⟩ =
    [.fwd 0 49 5 77 "rock", .fwd 1 49 5 77 "rock", .reply 5 77 0 ["a"] ["b"]] := by decide
example : handle demoEnv (run demo) ⟨.legacy 3 1, 6, 78, "jazz"⟩ =
    [.fwd 0 legacyUnknown 6 78 "jazz", .fwd 1 legacyUnknown 6 78 "jazz"] := by decide
example : handle demoEnv (run demo) ⟨.server 3 49, 0, 79, "rock"⟩ = [] := by decide
example : handle demoEnv (run (demo ++ [.closed 0])) ⟨.distributed 49, 5, 80, "rock"⟩ =
    [.fwd 1 49 5 80 "rock", .reply 5 80 0 ["a"] ["b"]] := by decide
example : (⟨.distributed 49, 5, 77, "rock"⟩ : Req).IsSearch ∧ demoEnv.hasMatch 5 "rock" ∧
    ¬ (⟨.legacy 4 1, 5, 77, "rock"⟩ : Req).IsSearch := by decide

/-! A small-step history: session, child 0, then user 2 connects (connection 1) and its add is suspended; the server's
search handled meanwhile goes to both; the connection of the suspended add is closed (e.g. write time-out): the next
search goes to child 0 only. -/
def demoS : List SOp :=
  [.tree (.sessionInit 0), .tree (.initialized 1 false), .addBegin 2, .search ⟨.server 3 49, 5, 77, "rock"⟩,
   .tree (.closed 1), .search ⟨.server 3 49, 5, 78, "rock"⟩, .addEnd 1]

example : (runS demoEnv (demoS.take 3)).adding = [1] ∧ (runS demoEnv (demoS.take 3)).d.children = [0, 1] ∧
    (runS demoEnv (demoS.take 3)).d.toldL 1 = some 0 := by decide
example : (runS demoEnv demoS).log =
    [(⟨.server 3 49, 5, 77, "rock"⟩, [.fwd 0 49 5 77 "rock", .fwd 1 49 5 77 "rock", .reply 5 77 0 ["a"] ["b"]]),
     (⟨.server 3 49, 5, 78, "rock"⟩, [.fwd 0 49 5 78 "rock", .reply 5 78 0 ["a"] ["b"]])] ∧
    (runS demoEnv demoS).adding = [] := by decide

/-! A closing window: session, children 0, 1, 2; child 0 (first of the list) is reported CLOSING; the search handled
meanwhile is queued for all three and written to 1 and 2; a second child (1) starts closing too: the next search reaches 2
only; after both CLOSED notifications the list is `[2]`. -/
def demoC : List SOp :=
  [.tree (.sessionInit 0), .tree (.initialized 1 false), .tree (.initialized 2 false), .tree (.initialized 3 false),
   .closeBegin 0, .search ⟨.server 3 49, 5, 77, "rock"⟩, .closeBegin 1, .search ⟨.server 3 49, 5, 78, "rock"⟩,
   .tree (.closed 0), .tree (.closed 1), .search ⟨.server 3 49, 5, 79, "rock"⟩]

example : (runS demoEnv (demoC.take 5)).closing = [0] ∧ (runS demoEnv (demoC.take 5)).d.children = [0, 1, 2] := by decide
example : (runS demoEnv demoC).sent =
    [(⟨.server 3 49, 5, 77, "rock"⟩, [.fwd 1 49 5 77 "rock", .fwd 2 49 5 77 "rock", .reply 5 77 0 ["a"] ["b"]]),
     (⟨.server 3 49, 5, 78, "rock"⟩, [.fwd 2 49 5 78 "rock", .reply 5 78 0 ["a"] ["b"]]),
     (⟨.server 3 49, 5, 79, "rock"⟩, [.fwd 2 49 5 79 "rock", .reply 5 79 0 ["a"] ["b"]])] ∧
    (runS demoEnv demoC).closing = [] ∧ (runS demoEnv demoC).d.children = [2] := by decide
example : ((runS demoEnv demoC).log.map (fun e => e.2.length)) = [4, 4, 2] := by decide
example : wireObf .distributed true = false ∧ wireObf .peer true = true ∧ wireObf .peer false = false := by decide

/-! The configured name changes during the session (user 5's account is stored for the next login): a search of user 5 is
still passed on and answered, one of the session's user (0) is not. And the parent's user (1, connection 0) connecting a
second time after 20 further names were proposed is not a child: the parent's search reaches connection 21 (user 2) only. -/
def demoCr : List SOp :=
  [.tree (.sessionInit 0), .tree (.initialized 1 false), .credentials 5, .search ⟨.server 3 49, 5, 77, "rock"⟩,
   .search ⟨.server 3 49, 0, 78, "rock"⟩]

example : (runS demoEnv demoCr).configured = some 5 ∧ (runS demoEnv demoCr).d.session = some 0 ∧
    (runS demoEnv demoCr).log =
      [(⟨.server 3 49, 5, 77, "rock"⟩, [.fwd 0 49 5 77 "rock", .reply 5 77 0 ["a"] ["b"]]),
       (⟨.server 3 49, 0, 78, "rock"⟩, [])] := by decide

def demoPb : List Op :=
  [.sessionInit 0, .potentialParents [1], .initialized 1 true, .level 0 0,
   .potentialParents (List.replicate 20 3), .initialized 1 false, .initialized 2 false]

example : (run demoPb).parent = some 0 ∧ (1 ∉ (run demoPb).potential) ∧ (run demoPb).children = [2] ∧
    (run demoPb).name 1 = 1 ∧ 1 ∈ (run demoPb).live ∧
    forward (run demoPb) ⟨.distributed 49, 5, 77, "rock"⟩ = [.fwd 2 49 5 77 "rock"] := by decide

end AioslskVerif.C14
