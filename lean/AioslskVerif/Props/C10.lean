import AioslskVerif.Proofs.Conn
/-!
# C10 — connection life cycle is monotone and the connection registry is exact

Property theorems only (model: `Model/Conn.lean`, helpers: `Proofs/Conn.lean`, `Proofs/ConnBase.lean`,
`Proofs/ConnTable1..8.lean`).  The model is the code **with** `fixes/C10-accept-connected-first.patch`,
`fixes/C10-connect-cancel-or-closed.patch`, `fixes/C11-attempt-cleanup.patch`,
`fixes/C16-disconnect-releases-stream-first.patch`, `fixes/C16-closing-cancellation-arrives-before-closed.patch`,
`fixes/C10-accepted-registered-when-reported.patch` and `fixes/C10-connecting-notification-cancel.patch` applied.

`run ops` is the net after any list of operations: connections created by a direct attempt, a
connect-back, an accept, or the server connection; and, addressed to any of them in any order: the
connect outcome (ok / refused / timeout; the init write succeeding, blocking, failing), cancellation of
the attempt wherever it is parked, first frame (PeerInit / known or unknown PeerPierceFirewall /
undecodable), frames, partial frame, EOF, reset, read timeout, `disconnect()` calls (any number, at any
time, with any close reason), `wait_closed` returning late, sends that succeed / block / fail / time out, and
messages queued with `queue_message` (fire-and-forget tasks that `disconnect` cancels): going out at once,
held back in `drain()` while the connection is closed by anybody, failing or timing out themselves (the queued
task then closes the connection and is cancelled by its own `disconnect`), the raw data calls of file
connections (`send_data`, `receive_data`, raw bytes) — and **every state notification as a step of its own**
(`Op.newF`, `Op.atF`): after CONNECTING / CONNECTED / CLOSING / CLOSED has been reported the task that reported it
waits for the listeners (`noteA` / `noteC`: they are done; `parkA` / `parkC`: one of them suspends), and all of the
above may be delivered in between — the connect completing while a listener of CLOSING is suspended, a `disconnect()`
from inside the CONNECTED notification of an accepted connection, cancellation of the attempt inside a
notification, ….  `Op.new` / `Op.at` are the special case in which no listener suspends.  Every state of `run ops`
is a quiescent point.  `c.evs` is what was observable for connection `c`, in order.
-/
namespace AioslskVerif.C10
open AioslskVerif.Conn

/-- Reported states of a peer connection only move forward. -/
theorem C10_monotone (ops : List Op) (c : Conn) (hc : c ∈ (run ops).conns) (hp : c.k.origin ≠ .server) :
    (states c.evs).Pairwise fun a b => a.rank < b.rank :=
  (track_mono hp c.evs .uninit c.k.st (inv_run ops c hc).hist).1

/-- CLOSED is reported at most once and nothing is reported after it. -/
theorem C10_closed_once_last (ops : List Op) (c : Conn) (hc : c ∈ (run ops).conns) (hp : c.k.origin ≠ .server)
    (pre post : List Ev) (r : Reason) (he : c.evs = pre ++ Ev.st .closed r :: post) :
    states post = [] ∧ CState.closed ∉ states pre := by
  have h := (inv_run ops c hc).hist
  rw [he, track_append] at h
  cases h1 : track c.k.origin .uninit pre with
  | none => simp [h1] at h
  | some s1 =>
    simp only [h1, Option.bind_some, track] at h
    split at h
    · rename_i hok
      refine ⟨(track_closed hp post c.k.st h).1, fun hmem => ?_⟩
      have hle := (track_mono hp pre .uninit s1 h1).2.2.2 .closed hmem
      have hlt := (okNext_peer hp s1 .closed).mp hok
      omega
    · cases h

/-- … and it *is* reported for every connection whose life ended: a connection for which anything was
reported and that has no open (or still closing) socket and no running attempt opening it, is CLOSED. -/
theorem C10_closed_if_ended (ops : List Op) (c : Conn) (hc : c ∈ (run ops).conns)
    (hd : c.k.live = false) : (states c.evs).getLast? = some .closed := by
  have hi := inv_run ops c hc
  have hl := track_last c.k.origin c.evs .uninit c.k.st hi.hist
  have hg := hi.good
  have hst : c.k.st = .closed := (good_facts hg).2.1 hd
  rw [hst] at hl
  cases hs : (states c.evs).getLast? with
  | none =>
    rw [hs] at hl
    cases hl
  | some x =>
    rw [hs] at hl
    simp only [Option.getD_some] at hl
    rw [← hl]

/-- After CLOSED no message from the connection is delivered. -/
theorem C10_no_delivery_after_closed (ops : List Op) (c : Conn) (hc : c ∈ (run ops).conns)
    (hp : c.k.origin ≠ .server) (pre post : List Ev) (r : Reason) (he : c.evs = pre ++ Ev.st .closed r :: post) :
    Ev.delivered ∉ post := by
  have h := (inv_run ops c hc).hist
  rw [he, track_append] at h
  cases h1 : track c.k.origin .uninit pre with
  | none => simp [h1] at h
  | some s1 =>
    simp only [h1, Option.bind_some, track] at h
    split at h
    · exact (track_closed hp post c.k.st h).2.1
    · cases h

/-- After CLOSED no send reaches the socket: no bytes of a message (`send_message`, `queue_message`) and no raw data
of a file connection (`send_data`). -/
theorem C10_no_send_after_closed (ops : List Op) (c : Conn) (hc : c ∈ (run ops).conns)
    (hp : c.k.origin ≠ .server) (pre post : List Ev) (r : Reason) (he : c.evs = pre ++ Ev.st .closed r :: post) :
    Ev.wrote ∉ post ∧ Ev.wroteRaw ∉ post := by
  have h := (inv_run ops c hc).hist
  rw [he, track_append] at h
  cases h1 : track c.k.origin .uninit pre with
  | none => simp [h1] at h
  | some s1 =>
    simp only [h1, Option.bind_some, track] at h
    split at h
    · exact ⟨(track_closed hp post c.k.st h).2.2.1, (track_closed hp post c.k.st h).2.2.2.1⟩
    · cases h

/-- After CLOSED no `receive_data` call hands out data of the connection. -/
theorem C10_no_raw_data_after_closed (ops : List Op) (c : Conn) (hc : c ∈ (run ops).conns)
    (hp : c.k.origin ≠ .server) (pre post : List Ev) (r : Reason) (he : c.evs = pre ++ Ev.st .closed r :: post) :
    Ev.recvData ∉ post := by
  have h := (inv_run ops c hc).hist
  rw [he, track_append] at h
  cases h1 : track c.k.origin .uninit pre with
  | none => simp [h1] at h
  | some s1 =>
    simp only [h1, Option.bind_some, track] at h
    split at h
    · exact (track_closed hp post c.k.st h).2.2.2.2
    · cases h

/-- Stronger form of the two previous theorems (any connection, the server included): a message is
delivered / bytes are written only while the last reported state is CONNECTED. -/
theorem C10_io_only_while_connected (ops : List Op) (c : Conn) (hc : c ∈ (run ops).conns)
    (pre post : List Ev) (e : Ev) (he : c.evs = pre ++ e :: post) (hio : e = .delivered ∨ e = .wrote) :
    (states pre).getLast? = some .connected := by
  have h := (inv_run ops c hc).hist
  rw [he, track_append] at h
  cases h1 : track c.k.origin .uninit pre with
  | none => simp [h1] at h
  | some s1 =>
    have hl := track_last c.k.origin pre .uninit s1 h1
    have hs1 : s1 = .connected := by
      rcases hio with rfl | rfl <;> simp only [h1, Option.bind_some, track] at h <;> split at h <;>
        first | assumption | cases h
    cases hs : (states pre).getLast? with
    | none => rw [hs, hs1] at hl; cases hl
    | some x => rw [hs, hs1] at hl; simp only [Option.getD_some] at hl; rw [← hl]

/-- The raw data paths of a file connection have no `_is_closing` guard: data is written / handed out while the last
reported state is CONNECTED or CLOSING (a `send_data` made while a listener of the CLOSING notification is still
running does reach the socket), never before and never after. -/
theorem C10_raw_io_only_while_open (ops : List Op) (c : Conn) (hc : c ∈ (run ops).conns)
    (pre post : List Ev) (e : Ev) (he : c.evs = pre ++ e :: post) (hio : e = .wroteRaw ∨ e = .recvData) :
    (states pre).getLast? = some .connected ∨ (states pre).getLast? = some .closing := by
  have h := (inv_run ops c hc).hist
  rw [he, track_append] at h
  cases h1 : track c.k.origin .uninit pre with
  | none => simp [h1] at h
  | some s1 =>
    have hl := track_last c.k.origin pre .uninit s1 h1
    have hs1 : s1 = .connected ∨ s1 = .closing := by
      rcases hio with rfl | rfl <;> simp only [h1, Option.bind_some, track] at h <;> split at h <;>
        first | assumption | cases h
    cases hs : (states pre).getLast? with
    | none => rw [hs] at hl; rcases hs1 with hs1 | hs1 <;> rw [hs1] at hl <;> cases hl
    | some x =>
      rw [hs] at hl; simp only [Option.getD_some] at hl
      rcases hs1 with hs1 | hs1
      · left; rw [← hl, hs1]
      · right; rw [← hl, hs1]

/-- At every quiescent point the registry holds exactly the peer connections that are not CLOSED and
are open (socket open or still closing) or being opened by a still-running attempt. -/
theorem C10_registry_exact (ops : List Op) (c : Conn) (hc : c ∈ (run ops).conns) :
    c.k.registered = true ↔
      (c.k.origin ≠ .server ∧ (states c.evs).getLast? ≠ some .closed ∧ c.k.live = true) := by
  have hi := inv_run ops c hc
  have hl := track_last c.k.origin c.evs .uninit c.k.st hi.hist
  have hg := hi.good
  have key := (good_facts hg).1
  have hne : c.k.st ≠ .uninit := (good_facts hg).2.2.1
  rw [key]
  have : c.k.st ≠ .closed ↔ (states c.evs).getLast? ≠ some .closed := by
    cases hs : (states c.evs).getLast? with
    | none => rw [hs] at hl; exact absurd hl hne
    | some x =>
      rw [hs] at hl
      simp only [Option.getD_some] at hl
      rw [hl]
      simp
  rw [this]

/-- `Net.registry` lists exactly the indices of the registered connections. -/
theorem C10_registry_members (ops : List Op) (i : Nat) :
    i ∈ (run ops).registry ↔ ∃ c, (run ops).conns[i]? = some c ∧ c.k.registered = true := by
  simp only [Net.registry, List.mem_filter, List.mem_range]
  constructor
  · rintro ⟨hlt, h⟩
    cases hg : (run ops).conns[i]? with
    | none => simp [hg] at h
    | some c => exact ⟨c, rfl, by simpa [hg] using h⟩
  · rintro ⟨c, hg, hr⟩
    exact ⟨(List.getElem?_eq_some_iff.mp hg).1, by simp [hg, hr]⟩

/-- Only the server connection is ever reported to go backwards, and only from CLOSED to CONNECTING. -/
theorem C10_server_restart_only (ops : List Op) (c : Conn) (hc : c ∈ (run ops).conns)
    (pre mid post : List Ev) (a b : CState) (r1 r2 : Reason)
    (he : c.evs = pre ++ Ev.st a r1 :: (mid ++ Ev.st b r2 :: post)) (hm : states mid = [])
    (hback : ¬ a.rank < b.rank) : c.k.origin = .server ∧ a = .closed ∧ b = .connecting := by
  have h := (inv_run ops c hc).hist
  rw [he, track_append] at h
  cases h1 : track c.k.origin .uninit pre with
  | none => simp [h1] at h
  | some s1 =>
    simp only [h1, Option.bind_some, track] at h
    split at h
    · rw [track_append] at h
      cases h2 : track c.k.origin a mid with
      | none => simp [h2] at h
      | some s2 =>
        have hl := track_last c.k.origin mid a s2 h2
        rw [hm] at hl
        simp only [List.getLast?_nil, Option.getD_none] at hl
        subst hl
        simp only [h2, Option.bind_some, track] at h
        split at h
        · rename_i hok
          simp only [okNext, Bool.or_eq_true, decide_eq_true_eq, Bool.and_eq_true, beq_iff_eq] at hok
          rcases hok with hok | ⟨⟨h1, h2⟩, h3⟩
          · exact absurd hok hback
          · exact ⟨h1, h2, h3⟩
        · cases h
    · cases h

/-- Output pending on the socket (a direct send or a queued message parked in `drain()`) and a parked reader exist
only while the connection is CONNECTED, or CLOSING with the listeners of that notification still running (`disconnect`
has not got to the writer yet): once `disconnect` is past its CLOSING notification nothing of the connection is left
waiting on the socket — whoever closed it, and whatever was queued at that moment. -/
theorem C10_nothing_pending_unless_connected (ops : List Op) (c : Conn) (hc : c ∈ (run ops).conns)
    (hs : (states c.evs).getLast? ≠ some .connected) (hn : c.k.closingNotified = false) :
    c.k.sendParked = false ∧ c.k.qParked = false ∧ c.k.reader = false := by
  have hi := inv_run ops c hc
  have hl := track_last c.k.origin c.evs .uninit c.k.st hi.hist
  refine good_parked hi.good (fun hst => hs ?_) hn
  cases hg : (states c.evs).getLast? with
  | none => rw [hg, hst] at hl; cases hl
  | some x => rw [hg, hst] at hl; simp only [Option.getD_some] at hl; rw [← hl]

/-- CLOSED is final for a peer connection, step by step: whatever is addressed to a CLOSED peer connection — a
late connect result, frames, EOF, further `disconnect` / `send_message` / `queue_message` / `send_data` calls, the
listeners of CLOSED returning or suspending — it stays CLOSED and unregistered, its socket stays released, and
nothing is reported, delivered, written or handed out. -/
theorem C10_closed_is_final (k k' : K) (op : FOp) (out : List Ev) (hg : good k = true)
    (hp : k.origin ≠ .server) (hc : k.st = .closed) (h : stepF k op = some (k', out)) :
    k'.st = .closed ∧ states out = [] ∧ Ev.delivered ∉ out ∧ Ev.wrote ∉ out ∧ Ev.wroteRaw ∉ out ∧
      Ev.recvData ∉ out ∧ k'.registered = false ∧ k'.sock = false := by
  obtain ⟨hg', ht, ho, _⟩ := step_ok hg h
  rw [hc] at ht
  obtain ⟨h1, h2, h3, h4, h5⟩ := track_closed hp out k'.st ht
  have hl := track_last k.origin out .closed k'.st ht
  rw [h1] at hl
  simp only [List.getLast?_nil, Option.getD_none] at hl
  refine ⟨hl, h1, h2, h3, h4, h5, ?_, (good_facts hg').2.2.2 hl⟩
  cases hr : k'.registered with
  | false => rfl
  | true => exact absurd hl ((good_facts hg').1.mp hr).2.1

/-- … in particular a second `connect()` on a peer connection object is not a step of the model at all (the
server connection is the only one that is ever connected again). -/
theorem C10_peer_never_reconnects (k : K) (hp : k.origin ≠ .server) : stepF k (.op .restart) = none := by
  simp [stepF, stepOp, hp]

/-- A socket that arrives late is dropped: when `open_connection` returns and the connection is no longer CONNECTING
— `disconnect()` was called meanwhile, whether it is already CLOSED or a listener of its CLOSING notification is still
running — nothing is reported, the socket is not attached and the state does not move (the attempt fails). -/
theorem C10_late_socket_dropped (k k' : K) (m : SendMode) (out : List Ev) (ha : k.att = .opening)
    (hs : k.st ≠ .connecting) (h : stepF k (.op (.connectOk m)) = some (k', out)) :
    states out = [] ∧ k'.st = k.st ∧ k'.sock = k.sock ∧ k'.registered = k.registered ∧ Ev.attRes .fail ∈ out := by
  simp only [stepF, stepOp, ha, ne_eq, not_true_eq_false, if_false, hs, not_false_eq_true, if_true,
    Option.some.injEq, attemptOver, Prod.mk.injEq] at h
  obtain ⟨rfl, rfl⟩ := h
  refine ⟨?_, rfl, rfl, rfl, by simp⟩
  split <;> simp [states]

/-- While the listeners of a state notification are running the registry is already right: an accepted connection is
registered from the moment CONNECTED is reported (before `on_peer_accepted` has run), and a connection is out of the
registry from the moment CLOSED is reported (before `disconnect()` has returned).  (Instances of `C10_registry_exact`,
which holds at every step, spelt out for the two notifications.) -/
theorem C10_registry_right_inside_notifications (ops : List Op) (c : Conn) (hc : c ∈ (run ops).conns)
    (hp : c.k.origin ≠ .server) :
    (c.k.att = .noteConnected → c.k.st = .connected → c.k.registered = true) ∧
      (c.k.closer ≠ .none → c.k.cph = .noteClosed → c.k.registered = false) := by
  have hi := inv_run ops c hc
  have hf := good_facts hi.good
  refine ⟨fun _ hst => hf.1.mpr ⟨hp, by rw [hst]; decide, ?_⟩, fun hcl hph => ?_⟩
  · cases hl : c.k.live with
    | true => rfl
    | false => have := hf.2.1 hl; rw [hst] at this; cases this
  · have hst := good_noteClosed hi.good hcl hph
    cases hr : c.k.registered with
    | false => rfl
    | true => exact absurd hst (hf.1.mp hr).2.1

/-! Non-vacuity: concrete reachable histories. -/

-- accepted connection, EOF before the init message: CONNECTED, CLOSING, CLOSED and the registry is empty again
example : (run [.new .incoming false false, .at 0 .eof]).conns.map (fun c => (states c.evs, c.k.registered)) =
    [([.connected, .closing, .closed], false)] := by decide
-- direct attempt cancelled inside open_connection: closed and unregistered
example : (run [.new .direct false false, .at 0 .cancelAttempt]).conns.map (fun c => (states c.evs, c.k.registered)) =
    [([.connecting, .closing, .closed], false)] := by decide
-- disconnect() while connecting, then the socket opens: nothing more is reported, the attempt fails
example : (run [.new .direct false false, .at 0 (.disconnect .requested), .at 0 (.connectOk .ok)]).conns.map
    (fun c => (c.evs, c.k.sock, c.k.registered)) =
    [([.st .connecting .unknown, .st .closing .requested, .st .closed .requested, .attRes .fail], false, false)] := by decide
-- … the same with the socket opening WHILE a listener of the CLOSING notification is suspended (hypotheses of
-- C10_late_socket_dropped): CONNECTING, CLOSING, then CLOSED when the listener returns; never CONNECTED
example : (run [.new .direct false false, .atF 0 (.op (.disconnect .requested)), .atF 0 .parkC,
    .atF 0 (.op (.connectOk .ok)), .atF 0 .noteC, .atF 0 .noteC]).conns.map
    (fun c => (c.evs, c.k.sock, c.k.registered, c.k.closer)) =
    [([.st .connecting .unknown, .st .closing .requested, .attRes .fail, .st .closed .requested], false, false, .none)] := by
  decide
-- an accepted connection is registered while the listeners of its CONNECTED notification run; one of them closes it
-- from inside the notification; `on_peer_accepted` then finds it closed: CONNECTED, CLOSING, CLOSED, registry empty
example : (run [.newF .incoming false false]).registry = [0] := by decide
example : (run [.newF .incoming false false, .atF 0 .parkA, .at 0 (.disconnect .requested), .atF 0 (.noteA .ok)]).conns.map
    (fun c => (states c.evs, c.k.registered, c.k.att, c.k.live)) =
    [([.connected, .closing, .closed], false, .idle, false)] := by decide
-- a connect-back attempt cancelled while a listener of its CONNECTING notification is suspended ends CLOSED
example : (run [.newF .back false false, .atF 0 .parkA, .at 0 .cancelAttempt]).conns.map
    (fun c => (c.evs, c.k.registered, c.k.live)) =
    [([.st .connecting .unknown, .st .closing .connectFailed, .st .closed .connectFailed, .attRes .cancelled], false, false)] := by
  decide
-- established connection delivers, then two concurrent disconnect calls while wait_closed is slow, a send is skipped
example : (run [.new .incoming false true, .at 0 (.firstFrame .initP), .at 0 (.frame true), .at 0 (.disconnect .requested),
    .at 0 (.disconnect .requested), .at 0 (.send .ok), .at 0 .closeDone]).conns.map (fun c => (c.evs, c.k.registered, c.k.live)) =
    [([.st .connected .unknown, .init false, .delivered, .st .closing .requested, .sendRes true, .st .closed .requested],
      false, false)] := by decide
-- a queued message is held back in drain() when a disconnect is requested and a second disconnect (here: EOF seen by
-- the reader is not even enabled any more) follows: CLOSING, CLOSED once; the queued task ends cancelled
example : (run [.new .direct false false, .at 0 (.connectOk .ok), .at 0 (.queue .block), .at 0 (.disconnect .requested),
    .at 0 (.disconnect .eof), .at 0 .eof]).conns.map (fun c => (c.evs.drop 5, c.k.qParked, c.k.registered)) =
    [([.wrote, .st .closing .requested, .queueRes .cancelled, .st .closed .requested], false, false)] := by decide
-- the queued send itself times out while wait_closed is slow: its own disconnect cancels it, CLOSED comes at once
example : (run [.new .incoming false true, .at 0 (.firstFrame .initP), .at 0 (.queue .block), .at 0 .queueTimeout]).conns.map
    (fun c => (c.evs.drop 2, c.k.live)) =
    [([.wrote, .st .closing .timeout, .st .closed .timeout, .queueRes .cancelled], false)] := by decide
-- file connection: send_data while a listener of CLOSING is suspended still reaches the socket (CLOSING is the last
-- reported state: hypotheses of C10_raw_io_only_while_open), after CLOSED it raises and a receive_data gets nothing
example : (run [.new .direct true false, .at 0 (.connectOk .ok), .atF 0 (.op (.disconnect .requested)), .atF 0 .parkC,
    .atF 0 (.op (.sendData .ok)), .atF 0 .noteC, .atF 0 .parkC, .atF 0 (.op (.sendData .ok)), .atF 0 (.op .recvData),
    .atF 0 .noteC]).conns.map (fun c => (c.evs.drop 5, c.k.reader, c.k.sock)) =
    [([.st .closing .requested, .wroteRaw, .sendRes true, .st .closed .requested, .sendRes false], false, false)] := by decide
-- a parked reader and a parked send survive while the CLOSING listeners run (C10_nothing_pending_unless_connected needs
-- its second hypothesis) and are gone once `disconnect` is past the notification
example : ((run [.new .direct false true, .at 0 (.connectOk .ok), .at 0 (.send .block), .atF 0 (.op (.disconnect .requested))]).conns.map
    (fun c => (c.k.reader, c.k.sendParked, c.k.closingNotified)),
    (run [.new .direct false true, .at 0 (.connectOk .ok), .at 0 (.send .block), .atF 0 (.op (.disconnect .requested)),
      .atF 0 .noteC]).conns.map (fun c => (c.k.reader, c.k.sendParked, c.k.closingNotified))) =
    ([(true, true, true)], [(false, false, false)]) := by decide
-- the server connection does restart
example : (run [.new .server false false, .at 0 (.connectOk .ok), .at 0 .eof, .at 0 .restart]).conns.map
    (fun c => states c.evs) = [[.connecting, .connected, .closing, .closed, .connecting]] := by decide
-- a registered, live connection exists (hypotheses of C10_registry_exact are satisfiable both ways)
example : (run [.new .direct false false, .at 0 (.connectOk .ok)]).registry = [0] := by decide

end AioslskVerif.C10
