import AioslskVerif.Proofs.Rate
/-!
# C20 — configured bandwidth limits are never exceeded and never stall a transfer

Property theorems only (helpers: `Proofs/Rate.lean`, model: `Model/Rate.lean`).
Time unit: tick = 1/1024 s, so a limit of `L` bytes/s credits `L * ticks / 1024` bytes and the
window bound `grants ≤ L·T + L` reads `1024 * grants ≤ L * ticks + 1024 * L`.
-/
namespace AioslskVerif.C20
open AioslskVerif.Rate AioslskVerif.Generated.Rate

/-- With no limit a request for tokens is answered at once with a positive grant. -/
theorem C20_unlimited (b last now : Nat) :
    (Limiter.poll (.unlimited b last) now).2 = unlimitedGrant ∧ 0 < unlimitedGrant := by
  exact ⟨rfl, by decide⟩

/-- `create_limiter` + `copy_tokens`: 0 means unlimited (the bucket and the refill clock of the replaced
limiter are kept for the limiter that will replace this one), anything else a limited limiter of
`kbps·1024` B/s that takes over the old tokens (capped) and the old refill clock. -/
theorem C20_create (old : Limiter) (kbps : Nat) :
    (kbps = 0 → setLimit old kbps = .unlimited old.bucket old.last) ∧
    (0 < kbps → ∃ l, setLimit old kbps = .limited l ∧ l.L = kbps * bytesPerKb ∧ l.bucket ≤ l.L ∧
        l.bucket ≤ old.bucket ∧ l.last = old.last) := by
  constructor
  · intro h; simp [setLimit, h]
  · intro h
    have : ¬ kbps = 0 := by omega
    unfold setLimit addTokens
    simp only [this, if_false]
    split
    · exact ⟨_, rfl, rfl, Nat.le_refl _, by dsimp only; omega, rfl⟩
    · exact ⟨_, rfl, rfl, by dsimp only; omega, by dsimp only; omega, rfl⟩

/-- **Window bound, every run (limit changes and periods without a limit included).**
For any sequence of polls and limit changes (all limits ≤ `Lmax`; 0 = "no limit" allowed) starting from any
well-formed limiter object, the bytes granted *while a limit is in force* are at most `Lmax·T + Lmax` plus one
grant quantum (128 B) per "full-bucket" event — at most one at the start of the window and one per limit
change. Passing through "no limit" hands out nothing extra: the unlimited limiter keeps the bucket and the
refill clock for its successor. The quantum term is the known finding `C20-full-bucket-stale-clock`: a poll
that finds the bucket full does not advance the refill clock, so the next refill credits the idle period again. -/
theorem C20_window_piecewise_partial (Lmax : Nat) (ops : List Op) (lim : Limiter) (now G : Nat)
    (hwf : lim.WF now Lmax) (hops : LimitsWithin Lmax ops) :
    1024 * ((run { lim := lim, now := now, granted := G } ops).granted - G)
      ≤ Lmax * elapsed ops + 1024 * Lmax + 1024 * minBucket * (1 + changes ops) := by
  obtain ⟨_, _, h⟩ := run_phi Lmax ops lim now G hwf hops
  have h1 := phiL_ge Lmax (run { lim := lim, now := now, granted := G } ops).lim (now + elapsed ops)
    (run { lim := lim, now := now, granted := G } ops).granted
  have h2 := phiL_le Lmax lim now G
  rw [Nat.mul_add, Nat.mul_one]
  omega

/-- **Window bound at full strength** (`grants ≤ L·T + L`) for a limiter whose bucket is not
full when the window starts, over any number of polls with any gaps. -/
theorem C20_window (ops : List Op) (l : Lim) (now G : Nat)
    (hwf : l.WF now) (hnf : l.bucket < l.L) (hops : LimitsWithin l.L ops) (hnc : changes ops = 0) :
    1024 * ((run { lim := .limited l, now := now, granted := G } ops).granted - G)
      ≤ l.L * elapsed ops + 1024 * l.L := by
  obtain ⟨_, _, h⟩ := run_phi l.L ops (.limited l) now G ⟨hwf, Nat.le_refl _⟩ hops
  have h1 := phiL_ge l.L (run { lim := .limited l, now := now, granted := G } ops).lim (now + elapsed ops)
    (run { lim := .limited l, now := now, granted := G } ops).granted
  have h2 := phi_le_notfull l.L l now G hnf
  have h3 : phiL l.L (.limited l) now G = phi l.L l now G := rfl
  rw [hnc, h3] at h
  omega

/-- The full-strength bound is **false** of the code as it stands when the window starts on a
full bucket whose refill clock is stale (known finding; replayed on the implementation by the
check): 1 KiB/s, bucket full, idle for 10 s, then 9 polls at the same instant are granted
1152 bytes > 1024. -/
theorem C20_window_counterexample :
    ¬ (1024 * ((run { lim := .limited { L := 1024, bucket := 1024, last := 0 }, now := 10240, granted := 0 }
          (List.replicate 9 (.poll 0))).granted - 0) ≤ 1024 * elapsed (List.replicate 9 (.poll 0)) + 1024 * 1024) := by
  decide

/-- Bucket never exceeds the limit, whatever the history (limit changes, periods without a limit). -/
theorem C20_bucket_bounded (Lmax : Nat) (ops : List Op) (lim : Limiter) (now G : Nat)
    (hwf : lim.WF now Lmax) (hops : LimitsWithin Lmax ops) :
    ∀ l', (run { lim := lim, now := now, granted := G } ops).lim = .limited l' →
      l'.bucket ≤ l'.L ∧ l'.L ≤ Lmax := by
  intro l' hl
  obtain ⟨h1, _, _⟩ := run_phi Lmax ops lim now G hwf hops
  rw [hl] at h1
  exact ⟨h1.1.1, h1.2⟩

/-- **Progress, lone waiter.** With a positive limit (`L ≥ 1024`) a poller that re-polls no sooner
than 10 ticks (< `INTERVAL` = 10 ms) after an empty poll is granted tokens within 16 polls. -/
theorem C20_single_waiter_bounded (l : Lim) (now : Nat) (dts : List Nat) (hwf : l.WF now)
    (hL : 1024 ≤ l.L) (hd : ∀ d ∈ dts, 10 ≤ d) (hlen : 16 ≤ dts.length) :
    0 < (polls l now dts).2.2 := by
  apply Nat.pos_of_ne_zero
  intro hz
  have hne : dts ≠ [] := by intro h; simp [h] at hlen
  have := polls_starved dts l now hwf hL hd hz hne
  have hq : minBucket = 128 := rfl
  omega

/-- **Progress without the lock's discipline (up to four pollers polling independently).** This is the theorem that
was provable of the limiter BEFORE the FIFO lock was added (fix dde9e7c): when each of up to four pollers re-polls no
sooner than 10 ticks after its own last empty poll, any four consecutive gaps of the merged poll sequence add up to at
least 10 ticks; then within 26 such blocks (104 polls) *some* poller is granted tokens — which one is not bounded (that
gap is what exposed the starvation defect). With the lock only the holder polls; the per-request bound for any number
of connections is `C20_bounded_wait` below. Kept as a statement about `poll` sequences in general. -/
theorem C20_some_waiter_progress (l : Lim) (now : Nat) (bs : List (Nat × Nat × Nat × Nat))
    (hwf : l.WF now) (hL : 1024 ≤ l.L) (hd : ∀ b ∈ bs, 10 ≤ b.1 + b.2.1 + b.2.2.1 + b.2.2.2)
    (hlen : 26 ≤ bs.length) : 0 < (blockPolls l now bs).2.2 := by
  apply Nat.pos_of_ne_zero
  intro hz
  have hne : bs ≠ [] := by intro h; simp [h] at hlen
  have := blocks_starved bs l now hwf hL hd hz hne
  omega

/-- **FIFO service order.** Over every history of requests (`take_tokens()` calls) and wake-ups of the lock holder on
one limiter object: the pollers served so far, followed by the lock holder and the queue, are exactly the pollers in
order of arrival. Hence requests are granted in the order in which they were made and nobody is overtaken. -/
theorem C20_fifo_order (ops : List LOp) (lim : Lim) (now : Nat) :
    let s := lrun { o := { lim := lim, holder := none, queue := [] }, now := now, arrivals := [], served := [] } ops
    s.served ++ waitingList s.o = s.arrivals := by
  exact (lrun_fifo ops _ (by intro _; rfl) (by simp [waitingList])).1

/-- **Window bound for the whole network** — every file connection together, through the FIFO lock of the limiter,
through limit changes at run time (requests pending on a replaced limiter object are handed to its successor) and
through periods without a limit. For ANY history of requests (`take_tokens()` calls of any connection), wake-ups of lock
holders after any sleep, and `set_*_speed_limit` calls (every limit ≤ `Lmax`, 0 = none), in any interleaving: the tokens
granted while a limit is in force are at most `Lmax·T + Lmax`, plus one grant quantum at the start and per limit change
(the known finding `C20-full-bucket-stale-clock`). Proof: every such grant is a poll of the *current* limiter object
(`netPoll_evolves`: a replaced object never grants), so the potential argument of the single limiter carries over. -/
theorem C20_network_window_partial (Lmax : Nat) (ops : List NOp) (s : NRun)
    (hwf : s.net.cur.limiter.WF s.net.now Lmax) (hops : NLimitsWithin Lmax ops) :
    1024 * ((nrun s ops).granted - s.granted)
      ≤ Lmax * nelapsed ops + 1024 * Lmax + 1024 * minBucket * (1 + nchanges ops) := by
  obtain ⟨_, h, _⟩ := nrun_phi Lmax ops s hwf hops
  have h1 := phiL_ge Lmax (nrun s ops).net.cur.limiter (s.net.now + nelapsed ops) (nrun s ops).granted
  have h2 := phiL_le Lmax s.net.cur.limiter s.net.now s.granted
  rw [Nat.mul_add, Nat.mul_one]
  omega

/-- **No request is lost or served twice, also across limit changes.** Over every history of requests, wake-ups and
`set_*_speed_limit` calls on the whole network of limiter objects: the requests granted so far, together with the
requests that hold or wait for the lock of some limiter object (replaced objects included), are a permutation of the
requests made. A request pending on a replaced limiter is handed on — never dropped, never duplicated — and by
`C20_bounded_wait` it is then served on the current object within a bounded number of wake-ups. -/
theorem C20_no_request_lost (ops : List NOp) (s : NGhost) (h : s.Inv) : (grun s ops).Inv :=
  grun_inv ops s h

/-- **Bytes follow grants.** Over any history of grants and reads on any number of file connections, counted from
any moment on: the bytes moved since then are at most the tokens granted since then plus the tokens the connections
were holding at that moment — at most one grant per connection (`gmax` = 128 B under a limit, 8192 B if the grant
was taken while no limit was in force). Together with `C20_window_piecewise_partial` (a bound on the *grants* of a
window) this bounds the *bytes* of a window: `Lmax·T + Lmax + quanta + k·gmax`. -/
theorem C20_bytes_follow_grants (s : XSt) (evs : List XEv) (gmax : Nat) (hh : ∀ x ∈ s.holding, x ≤ gmax) :
    (xrun s evs).moved - s.moved ≤ ((xrun s evs).granted - s.granted) + s.holding.length * gmax := by
  obtain ⟨h1, h2, h3, _⟩ := xrun_inv evs s
  have := sum_le_of_all_le s.holding gmax hh
  omega

/-- The term `k·gmax` cannot be dropped — the literal statement "bytes moved in a window ≤ what the limit grants in
that window" is **false** of the download direction as it stands (known finding `C20-inflight-read-grants`, replayed
on the real `receive_file` by the check): two connections were each granted 128 B before the window began; in the
window nothing is granted, yet 256 B move. -/
theorem C20_bytes_window_counterexample :
    let s : XSt := xrun { holding := [0, 0], granted := 0, moved := 0 } [.grant 0 128, .grant 1 128]
    ¬ ((xrun s [.move 0 128, .move 1 128]).moved - s.moved ≤ (xrun s [.move 0 128, .move 1 128]).granted - s.granted) := by
  decide

/-- **Bounded wait, any number of connections.** On a limited limiter (`L ≥ 1024` B/s, i.e. any positive limit) whose
lock holders really sleep at least 10 ticks (< `INTERVAL`) between polls: over ANY history of further requests and
wake-ups, a request that has `j` requests ahead of it (the lock holder included) has been granted its tokens after at
most `16·(j+1)` wake-ups — whoever arrives meanwhile, however the clock jumps. (`idx` identifies the request by its
position in the order of arrival; `idx - served` requests are ahead of it.) No waiter is starved, and the bound is
explicit: with the library's 10 ms sleeps, 0.16 s per request ahead at the lowest limit. -/
theorem C20_bounded_wait (idx : Nat) (ops : List LOp) (s : LockRun) (hi : LInv s)
    (hf : s.served ++ waitingList s.o = s.arrivals) (hpending : s.served.length ≤ idx) (hreq : idx < s.arrivals.length)
    (hd : Disciplined ops) (hw : 16 * (idx - s.served.length + 1) ≤ wakes ops) :
    idx < (lrun s ops).served.length := by
  apply bounded_wait_aux idx ops s hi hf hpending hreq hd
  have := rem_le s.o.lim
  omega

/-- the library's re-poll interval is at least the 10 ticks assumed above, and every positive
limit is at least the 1024 B/s assumed above (constants regenerated from the source). -/
theorem C20_constants : 10 * 1000 ≤ intervalMs * tps ∧ 1024 ≤ 1 * bytesPerKb ∧ minBucket ≤ bytesPerKb := by
  decide

/-! Non-vacuity: the hypotheses are met by reachable states. -/
example : ({ L := 2048, bucket := 100, last := 5 } : Lim).WF 7 := by unfold Lim.WF; decide
example : LimitsWithin 4096 [.poll 3, .setLimit 4, .poll 0, .setLimit 0, .poll 7, .setLimit 1] := by simp [LimitsWithin]; decide
example : (Limiter.limited { L := 2048, bucket := 100, last := 5 }).WF 7 4096 := by unfold Limiter.WF Lim.WF; decide
-- off and on again at one instant hands out nothing extra: 8 grants of 128 B = the 1024 tokens that were there
example : (run { lim := .limited { L := 1024, bucket := 1024, last := 100 }, now := 100, granted := 0 }
    ([.setLimit 0, .poll 0, .setLimit 1] ++ List.replicate 12 (.poll 0))).granted = 1024 := by decide
example : (polls { L := 1024, bucket := 0, last := 0 } 0 (List.replicate 16 10)).2.2 = 128 := by decide
example : (lrun { o := { lim := { L := 1024, bucket := 300, last := 0 }, holder := none, queue := [] }, now := 0,
                  arrivals := [], served := [] }
    [.arrive 7 0, .arrive 8 0, .arrive 9 0, .arrive 5 1, .wake 200, .wake 200]).served = [7, 8, 9, 5] := by decide
-- four connections, a limit change while two requests are pending, a period without a limit: 2 KiB/s at clock 2048
-- with an empty bucket and a stale clock -> the first refill fills the bucket (2048 B = 16 grants at most before it is empty)
example : (nrun { net := { olds := [], cur := .limited { lim := { L := 2048, bucket := 0, last := 0 }, holder := none, queue := [] },
                            now := 2048 }, granted := 0 }
    [.poll 0 0, .poll 1 0, .setLimit 1, .poll 2 0, .poll 0 11, .poll 3 0, .setLimit 0, .poll 3 5, .setLimit 2, .poll 1 11]).granted
      ≤ 2048 + 2048 := by decide
-- three requests at 1 KiB/s on an empty bucket, a limit change while two of them are pending, their hand-over:
-- an instance of the invariant computed by the kernel (4 requests made = granted + still pending)
def exGhost : NGhost :=
  { net := { olds := [], cur := .limited { lim := { L := 1024, bucket := 0, last := 100 }, holder := none, queue := [] }, now := 100 },
    arrivals := [], served := [] }
def exOps : List NOp := [.poll 0 0, .poll 1 0, .poll 2 0, .setLimit 2, .poll 3 200, .poll 0 11, .poll 1 11, .poll 2 300]
-- requests 0,1,2 are pending on the 1 KiB/s object when the limit becomes 2 KiB/s; 3 arrives at the new object and is served
-- first; when 0's sleep ends, 0,1,2 move on in this order; 1 asks again; in the end everybody has been served
example : (grun exGhost exOps).arrivals = [0, 1, 2, 3, 1] ∧ (grun exGhost exOps).served = [3, 0, 1, 2, 1] ∧
    pendingAll (grun exGhost exOps).net.olds (grun exGhost exOps).net.cur = [] := by decide
example : ({ net := { olds := [], cur := .unlimited 0 0, now := 0 }, arrivals := [], served := [] } : NGhost).Inv := by
  simp [NGhost.Inv, pendingAll, NObj.waiting]
example : NLimitsWithin 4096 [.poll 0 0, .setLimit 1, .poll 2 0, .setLimit 0, .setLimit 4] := by simp [NLimitsWithin]; decide
example : (xrun { holding := [0, 0, 0], granted := 0, moved := 0 }
    [.grant 0 128, .grant 2 8192, .move 2 100, .move 0 128, .grant 0 128]).moved = 228 := by decide
-- a reachable state meeting the hypotheses of `C20_bounded_wait`: poller 7 holds the lock on an empty bucket, 8 and 9 wait
example : LInv { o := { lim := { L := 1024, bucket := 3, last := 5 }, holder := some 7, queue := [8, 9] }, now := 5,
                 arrivals := [7, 8, 9], served := [] } := by
  refine ⟨by intro h; simp at h, by unfold Lim.WF; decide, by decide, by intro _; decide⟩
example : Disciplined [.wake 11, .arrive 4 0, .wake 10, .wake 500] := by simp [Disciplined]
example : 0 < (blockPolls { L := 1024, bucket := 0, last := 0 } 0 (List.replicate 26 (3, 2, 3, 2))).2.2 := by decide

end AioslskVerif.C20
