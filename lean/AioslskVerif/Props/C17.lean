import AioslskVerif.Proofs.Cache
/-!
# C17 — transfers survive a restart: nothing lost, duplicated, or left "in progress"

Property theorems only (model: `Model/Cache.lean`, helpers: `Proofs/Cache.lean`).

The model is the code **with** `fixes/C17-cache-key-ambiguous.patch` applied (length-prefixed
user name in the hashed string, stale entries removed by key). `sha256(..).hexdigest()` is the
parameter `H`; every theorem that needs it assumes `Function.Injective H` explicitly (no axiom).
A database `db` is *arbitrary* in every theorem: it may hold records written under the previous
key format, legacy pickles, or garbage keys.

The cache can be written at any moment a write can really happen (`write_cache()` is synchronous and
public: an application's listener, a periodic writer, `stop()`): `C17_reports_match_list`,
`C17_restart_any_write` and `C17_remove_phases` are stated over histories in which `add()` /
`remove()` are split at their suspension points and writes / the end of the process occur anywhere.
-/
namespace AioslskVerif.C17
open AioslskVerif.Cache AioslskVerif.Generated.Cache

/-- **The hashed bytes determine the identity.** `str(len(user)) + ':' + user + path + str(dir.value)`,
UTF-8 encoded, is injective in (user, remote path, direction) — for all strings. -/
theorem C17_key_injective (u p u' p' : Str) (d d' : Dir) (h : keyBytes u p d = keyBytes u' p' d') :
    u = u' ∧ p = p' ∧ d = d' :=
  keyBytes_inj h

/-- The key of the unpatched code (`user + path + str(dir.value)`) is **not** injective: the defect
repaired by the patch (replayed on the real code by the check when the patch is absent). -/
theorem C17_old_key_collides :
    oldKeyBytes ['a', 'b'] ['c'] .download = oldKeyBytes ['a'] ['b', 'c'] .download ∧
    (['a', 'b'], ['c'], Dir.download) ≠ ((['a'], ['b', 'c'], Dir.download) : Str × Str × Dir) := by
  exact ⟨rfl, by decide⟩

/-- What one pickle round trip does to a transfer (`canon`): identity, local path, sizes, progress,
state, fail reason and all other persisted attributes are unchanged; the abort reason is unchanged
except that an ABORTED transfer without one gets `AbortReason.REQUESTED`; runtime-only parts are
reset (no listeners, no tasks, no `_offset`). -/
theorem C17_canon_fields (t : Transfer) :
    let c := canon t
    ident c = ident t ∧ c.state = t.state ∧ c.localPath = t.localPath ∧ c.filesize = t.filesize ∧
    c.bytes = t.bytes ∧ c.failReason = t.failReason ∧ c.remotelyQueued = t.remotelyQueued ∧
    c.placeInQueue = t.placeInQueue ∧ c.queueAttempts = t.queueAttempts ∧
    c.lastQueueAttempt = t.lastQueueAttempt ∧ c.uploadRequestAttempts = t.uploadRequestAttempts ∧
    c.lastUploadRequestAttempt = t.lastUploadRequestAttempt ∧
    c.startTime = t.startTime ∧ c.completeTime = t.completeTime ∧
    (¬ (t.abortReason = none ∧ t.state = .aborted) → c.abortReason = t.abortReason) ∧
    (t.abortReason = none ∧ t.state = .aborted → c.abortReason = some abortRequested.toList) ∧
    c.listeners = [] ∧ c.tasks = 0 ∧ c.hasOffset = false := by
  simp only [canon, ident, fixAbort, true_and, and_true]
  constructor
  · intro h; rw [if_neg h]
  · intro h; rw [if_pos h]

/-- **Legacy records.** A pickle that lacks `abort_reason` and/or carries `_offset` loads as the
same transfer with abort reason `None` (`REQUESTED` when ABORTED). -/
theorem C17_legacy_restore (t : Transfer) (lacksAbort carriesOffset : Bool) :
    restore { persist t with
                abortReason := if lacksAbort then none else some t.abortReason,
                hasOffset := carriesOffset }
      = some (canon { t with abortReason := if lacksAbort then none else t.abortReason }) := by
  cases lacksAbort <;> simp [restore, persist, stateOfValue_value, canon]

/-- **Round trip.** For transfers with pairwise distinct identity, written over *any* database:
reading yields exactly the written transfers (up to `canon`), each once. -/
theorem C17_roundtrip {K : Type} [DecidableEq K] (H : ByteArray → K) (hH : Function.Injective H)
    (db : Db K) (ts : List Transfer) (hnd : (ts.map ident).Nodup) :
    ∃ l, readAll (write H db ts) = some l ∧ l.Perm (ts.map canon) ∧ (l.map ident).Nodup := by
  have hk : (ts.map fun t => H (keyOf t)).Nodup := by
    unfold List.Nodup at hnd ⊢
    rw [List.pairwise_map] at hnd ⊢
    exact hnd.imp fun {a b} hab e => hab (keyOf_inj (hH e))
  refine ⟨ts.reverse.map canon, ?_, ?_, ?_⟩
  · unfold readAll
    rw [write_eq H db ts hk, ← List.map_reverse, List.map_map]
    exact restoreAll_map_persist ts.reverse
  · exact (List.reverse_perm ts).map canon
  · rw [List.map_map]
    have : (ts.reverse.map (ident ∘ canon)) = (ts.map ident).reverse := by
      rw [List.map_reverse]; rfl
    rw [this]
    unfold List.Nodup at hnd ⊢
    rw [List.pairwise_reverse]
    exact hnd.imp fun h => h.symm

/-- **Removed transfers are gone, mutated ones are current.** After a later `write` of the list
`ts'` (whatever was written before, under whatever key format) the cache holds exactly `ts'`:
in particular no transfer whose identity is not in `ts'` is read back. -/
theorem C17_removed_gone {K : Type} [DecidableEq K] (H : ByteArray → K) (hH : Function.Injective H)
    (db : Db K) (ts ts' : List Transfer) (hnd : (ts'.map ident).Nodup) :
    ∃ l, readAll (write H (write H db ts) ts') = some l ∧ l.Perm (ts'.map canon) ∧
      ∀ x ∈ l, ident x ∈ ts'.map ident := by
  obtain ⟨l, h1, h2, _⟩ := C17_roundtrip H hH (write H db ts) ts' hnd
  refine ⟨l, h1, h2, ?_⟩
  intro x hx
  have := h2.mem_iff.1 hx
  simp only [List.mem_map] at this ⊢
  obtain ⟨t, ht, rfl⟩ := this
  exact ⟨t, ht, rfl⟩

/-- **Restart.** `store_data()` then `load_data()` in a new manager: the new manager holds exactly
the stored transfers (round-tripped, repaired, with the manager attached), each once, and emitted
one `TransferAddedEvent` per transfer. -/
theorem C17_restart {K : Type} [DecidableEq K] (H : ByteArray → K) (hH : Function.Injective H)
    (db : Db K) (ts : List Transfer) (hnd : (ts.map ident).Nodup) (i : Nat) :
    ∃ m', (Mgr.empty i).load (write H db ts) = some m' ∧
      m'.transfers.Perm (ts.map fun t => attach i (repair (canon t)).1) ∧
      m'.addedEvents = ts.length ∧ m'.id = i := by
  obtain ⟨l, h1, h2, h3⟩ := C17_roundtrip H hH db ts hnd
  refine ⟨(Mgr.empty i).addAll l, by simp [Mgr.load, h1], ?_, ?_, addAll_id _ _⟩
  · have := (addAll_fresh l (Mgr.empty i) h3 (by simp [Mgr.empty])).1
    rw [this]
    simp only [Mgr.empty, List.nil_append]
    have := h2.map (fun t => attach i (repair t).1)
    rwa [List.map_map] at this
  · have := (addAll_fresh l (Mgr.empty i) h3 (by simp [Mgr.empty])).2
    rw [this, h2.length_eq]
    simp [Mgr.empty]

/-! ### the cache is written at ANY moment a write can really happen

Histories (`Op`, `Model/Cache.lean`): `add()` and `remove()` split at their suspension points (the
delivery of `TransferAddedEvent`; the state listeners of the abort transition, transfer still listed;
the delivery of `TransferRemovedEvent`, transfer detached), any number of them in progress at once,
attribute changes, `write_cache()` and the end of the process at every point in between. The ghost
lists say what the user had been told when the cache was written. -/

/-- **What the user was told is what the manager lists — at every point of every history.** An identity
whose addition has been reported (and whose removal has not been asked for since) is listed, exactly
once; an identity whose removal has been reported (and whose addition has not been asked for since)
is not listed. So whatever `write_cache()` is handed, at whatever moment, agrees with the reports. -/
theorem C17_reports_match_list {K : Type} [DecidableEq K] (H : ByteArray → K) (s₀ : Sys K) (h₀ : GhostInv s₀)
    (ops : List Op) :
    let s := run H s₀ ops
    (s.mgr.transfers.map ident).Nodup ∧ (∀ i ∈ s.there, i ∈ s.mgr.transfers.map ident) ∧
      (∀ i ∈ s.gone, i ∉ s.mgr.transfers.map ident) := by
  obtain ⟨a, b, c⟩ := inv_run H ops h₀
  exact ⟨a, b, c⟩

/-- **Restart after a write at any point.** Take any history `ops₁` (operations suspended anywhere),
write the cache *there*, let anything else happen that does not write again (`ops₂`: operations
resume, new ones start, attributes change), and end the process. The new manager then holds exactly
the transfers that were listed at the moment of the write (round-tripped and repaired), each once —
in particular every transfer whose addition had been reported by then, and none whose removal had
been reported by then — and nothing is left suspended. Over *any* database the history started from. -/
theorem C17_restart_any_write {K : Type} [DecidableEq K] (H : ByteArray → K) (hH : Function.Injective H)
    (s₀ : Sys K) (h₀ : GhostInv s₀) (ops₁ ops₂ : List Op) (hq : ∀ o ∈ ops₂, o.quiet = true) :
    let w := run H s₀ ops₁
    let s := run H s₀ (ops₁ ++ [.store] ++ ops₂ ++ [.restart])
    s.mgr.transfers.Perm (w.mgr.transfers.map fun t => attach mgrId (repair (canon t)).1) ∧
    (s.mgr.transfers.map ident).Nodup ∧
    (∀ i ∈ w.there, i ∈ s.mgr.transfers.map ident) ∧
    (∀ i ∈ w.gone, i ∉ s.mgr.transfers.map ident) ∧
    s.mgr.addedEvents = w.mgr.transfers.length ∧ s.pending = [] := by
  intro w s
  have hw : GhostInv w := inv_run H ops₁ h₀
  obtain ⟨m', hload, hperm, hadd, _⟩ := C17_restart H hH w.db w.mgr.transfers hw.nodup mgrId
  -- the database at the end of the process is the one written at `w`
  have hdb : (run H (step H w .store).1 ops₂).db = write H w.db w.mgr.transfers := by
    rw [quiet_run_db H ops₂ _ hq]; rfl
  have hs : s = (doRestart (run H (step H w .store).1 ops₂)).1 := by
    show run H s₀ (ops₁ ++ [.store] ++ ops₂ ++ [.restart]) = _
    rw [run_append, run_append, run_append]
    rfl
  have hm : s.mgr = m' ∧ s.pending = [] := by
    rw [hs]
    unfold doRestart
    rw [hdb, hload]
    exact ⟨rfl, rfl⟩
  have hids : (s.mgr.transfers.map ident).Perm (w.mgr.transfers.map ident) := by
    rw [hm.1]
    have := hperm.map ident
    rw [List.map_map] at this
    refine this.trans (List.Perm.of_eq ?_)
    apply List.map_congr_left
    intro t _
    simp only [Function.comp, ident_attach, ident_repair, ident_canon]
  refine ⟨hm.1 ▸ hperm, hids.nodup_iff.2 hw.nodup, ?_, ?_, hm.1 ▸ hadd, hm.2⟩
  · intro i hi; exact hids.mem_iff.2 (hw.there i hi)
  · intro i hi h; exact hw.gone i hi (hids.mem_iff.1 h)

/-- **A transfer whose removal is in progress.** While `remove()` is suspended in a state listener of
its abort transition the transfer is still listed (a write there keeps it, with the aborted
attributes); once `TransferRemovedEvent` is being delivered it is not (a write there drops it). -/
theorem C17_remove_phases {K : Type} [DecidableEq K] (H : ByteArray → K) (s : Sys K) (h : GhostInv s)
    (id : Ident) (now : Nat) :
    ((step H s (.rmCall id now)).2 = .aborting →
      id ∈ (step H s (.rmCall id now)).1.mgr.transfers.map ident ∧
      (step H (step H s (.rmCall id now)).1 (.rmStep id)).2 = .announcing) ∧
    ((step H s (.rmCall id now)).2 = .announcing →
      id ∉ (step H s (.rmCall id now)).1.mgr.transfers.map ident ∧ id ∈ (step H s (.rmCall id now)).1.gone) := by
  simp only [step]
  unfold doRmCall
  split
  · exact ⟨(fun h => nomatch h), (fun h => nomatch h)⟩
  · rename_i q hq
    have hqi : ident q = id := by simpa using List.find?_some hq
    have hqm : q ∈ s.mgr.transfers := List.mem_of_find?_eq_some hq
    split
    · exact ⟨(fun h => nomatch h), (fun h => nomatch h)⟩
    · rename_i hrem
      simp only
      split
      · rename_i q' hq'
        have hi' : ident q' = id := (abortEffect_ident hq').trans hqi
        refine ⟨fun _ => ⟨?_, ?_⟩, (fun h => nomatch h)⟩
        · simp only [if_true]
          rw [ids_replace hi']
          exact hqi ▸ List.mem_map_of_mem hqm
        · simp only [if_true]
          unfold doRmStep
          have hnone : ∀ p ∈ s.pending, ¬ (p.id = id ∧ p.phase ≠ .adding) := by
            intro p hp hc
            apply hrem
            exact List.any_eq_true.2 ⟨p, hp, by simpa using hc⟩
          have hf : (s.pending ++ [({ id := id, phase := .aborting, tainted := false } : Pending)]).find?
              (fun p => p.id = id ∧ p.phase ≠ .adding) =
                some ({ id := id, phase := .aborting, tainted := false } : Pending) := by
            rw [List.find?_append, List.find?_eq_none.2 (by simpa using hnone)]
            simp
          simp only [hf]
          rfl
      · refine ⟨(fun h => nomatch h), fun _ => ⟨?_, ?_⟩⟩
        · simp only [if_true, detach]
          exact not_mem_ids_eraseP id _ h.nodup
        · simp only [if_true, detach]
          exact List.mem_cons_self

/-- **Repair table** (finite: every persisted state × `is_transfered()`): was-initialising ↦ QUEUED,
was-transferring ↦ COMPLETE if all bytes had arrived else INCOMPLETE, every other state unchanged;
`repair` follows the table; and "in progress" (`is_processing`) means exactly
INITIALIZING / DOWNLOADING / UPLOADING. The state sets come from the regenerated tables. -/
theorem C17_repair_mapping :
    (∀ (s : St) (transfered : Bool), repairState s transfered =
      match s, transfered with
      | .initializing, _ => .queued
      | .downloading, true => .complete
      | .downloading, false => .incomplete
      | .uploading, true => .complete
      | .uploading, false => .incomplete
      | s, _ => s) ∧
    (∀ t : Transfer, (repair t).1.state = repairState t.state (isTransfered t)) ∧
    (∀ s : St, isProcessing s = true ↔ (s = .initializing ∨ s = .downloading ∨ s = .uploading)) ∧
    (∀ t : Transfer, isTransfered t = true ↔ t.filesize = some t.bytes) := by
  refine ⟨?_, repair_state, ?_, ?_⟩
  · intro s b; cases s <;> cases b <;> decide
  · intro s; cases s <;> decide
  · intro t; simp [isTransfered]

/-- the persisted attributes of the model record are exactly the attributes `Transfer.__init__`
assigns minus `_UNPICKABLE_FIELDS` (both regenerated from the source) -/
theorem C17_fields_pinned :
    initFields.filter (fun f => !unpickable.contains f) = persistedFields := by
  decide

/-- **Nothing is left in progress.** After `load_data()` on *any* database, every transfer the load
added is not INITIALIZING / DOWNLOADING / UPLOADING, has its remote-queue mark cleared, its state is
the repair-table image of a persisted state, and the repair itself notified nobody. -/
theorem C17_no_in_progress {K : Type} (m m' : Mgr) (db : Db K) (h : m.load db = some m') :
    ∀ t ∈ m'.transfers, t ∈ m.transfers ∨
      (isProcessing t.state = false ∧ t.remotelyQueued = false ∧
       ∃ (r : Rec) (x : Transfer), r ∈ db.map (·.2) ∧ restore r = some x ∧ t = attach m.id (repair x).1 ∧
         t.state = repairState x.state (isTransfered x) ∧ (repair x).2 = []) := by
  intro t ht
  unfold Mgr.load at h
  cases hr : readAll db with
  | none => simp [hr] at h
  | some l =>
    simp only [hr, Option.map_some, Option.some.injEq] at h
    subst h
    rcases mem_addAll l m t ht with h1 | ⟨x, hx, rfl⟩
    · exact .inl h1
    · right
      obtain ⟨r, hr', hx'⟩ := restoreAll_mem hr x hx
      have hs : (attach m.id (repair x).1).state = repairState x.state (isTransfered x) := repair_state x
      refine ⟨?_, repair_remotelyQueued x, r, x, hr', hx', rfl, hs, repair_notifications x (restore_runtime hx').1⟩
      rw [hs]; exact not_processing_repairState _ _

/-- **Loaded transfers are wired like fresh ones.** After `load_data()` every added transfer has
exactly the manager as state listener, holds no task and no `_offset`; hence any later state
change is reported to the manager exactly once — as for a transfer created by `download()`. -/
theorem C17_listener_attached {K : Type} (m m' : Mgr) (db : Db K) (h : m.load db = some m') :
    (∀ t ∈ m'.transfers, t ∈ m.transfers ∨
      (t.listeners = [m.id] ∧ t.tasks = 0 ∧ t.hasOffset = false ∧
       ∀ s, (transition t s).2 = [(m.id, t.state, s)])) ∧
    (∀ u p d, (fresh m.id u p d).listeners = [m.id] ∧ (fresh m.id u p d).tasks = 0 ∧
       ∀ s, (transition (fresh m.id u p d) s).2 = [(m.id, .virgin, s)]) := by
  refine ⟨?_, fun u p d => ⟨rfl, rfl, fun s => rfl⟩⟩
  intro t ht
  obtain h1 | ⟨_, _, r, x, _, hx, rfl, _, _⟩ := C17_no_in_progress m m' db h t ht
  · exact .inl h1
  · right
    obtain ⟨hl, htk, ho⟩ := restore_runtime hx
    obtain ⟨rl, rt, ro⟩ := repair_runtime x
    have hl' : (attach m.id (repair x).1).listeners = [m.id] := by
      simp [attach, rl, hl]
    refine ⟨hl', by simp [attach, rt, htk], by simp [attach, ro, ho], ?_⟩
    intro s
    simp [transition, hl']

/-- **Scheduling picks loaded downloads up.** For a transfer added by the load, membership in the
scheduler's eligible downloads depends only on user status, direction, state and fail reason — the
persisted remote-queue mark no longer blocks it. So a download persisted as INITIALIZING (now
QUEUED), as DOWNLOADING with bytes missing (now INCOMPLETE), or as QUEUED/INCOMPLETE with the
remote-queue mark set, is picked up by the next management cycle. -/
theorem C17_schedulable_download {K : Type} (m m' : Mgr) (db : Db K) (h : m.load db = some m')
    (offline : Str → Bool) :
    ∀ t ∈ m'.transfers, t ∈ m.transfers ∨
      (t ∈ (eligible offline m'.transfers).1 ↔
        (offline t.user = false ∧ t.dir = .download ∧
          (t.state = .queued ∨ t.state = .incomplete ∨ (t.state = .failed ∧ t.failReason = none)))) := by
  intro t ht
  obtain h1 | ⟨_, hrq, _⟩ := C17_no_in_progress m m' db h t ht
  · exact .inl h1
  · right
    rw [eligible_downloads]
    simp only [List.mem_filter, ht, true_and, downloadWanted, hrq, Bool.not_false, Bool.true_and,
      Bool.and_eq_true, Bool.not_eq_true', decide_eq_true_eq, Bool.or_eq_true, or_assoc]

/-- **Scheduling picks loaded uploads up.** After a load into a new manager no user counts as
"uploading" (nothing is in progress), every user who is not offline and has a QUEUED upload gets one
of their uploads into the eligible list, and the eligible list holds only QUEUED uploads of the
manager. -/
theorem C17_schedulable_upload {K : Type} (i : Nat) (m' : Mgr) (db : Db K)
    (h : (Mgr.empty i).load db = some m') (offline : Str → Bool) :
    uploadingUsers m'.transfers = [] ∧
    (∀ t ∈ m'.transfers, offline t.user = false → t.dir = .upload → t.state = .queued →
      ∃ t' ∈ (eligible offline m'.transfers).2, t'.user = t.user) ∧
    (∀ t' ∈ (eligible offline m'.transfers).2,
      t' ∈ m'.transfers ∧ offline t'.user = false ∧ t'.dir = .upload ∧ t'.state = .queued) := by
  have hup : uploadingUsers m'.transfers = [] := by
    unfold uploadingUsers
    rw [List.map_eq_nil_iff, List.filter_eq_nil_iff]
    intro t ht
    obtain h1 | ⟨hp, _⟩ := C17_no_in_progress _ m' db h t ht
    · simp [Mgr.empty] at h1
    · simp [hp]
  have key := sched_uploads offline (uploadingUsers m'.transfers) m'.transfers ([], [], [])
  simp only at key
  obtain ⟨_, k2, k3, k4⟩ := key
  refine ⟨hup, ?_, ?_⟩
  · intro t ht h1 h2 h3
    have hu := k2 t ht h1 h2 (by rw [hup]; simp) h3
    exact k3 (by simp) _ hu
  · intro t' ht'
    rcases k4 t' ht' with h0 | ⟨a, b, c, d, _⟩
    · simp at h0
    · exact ⟨a, b, c, d⟩

/-! ### the read itself is split at its suspension points; caches left by another release of the writer

`read_cache()` awaits the listeners of `TransferAddedEvent` after every entry it registers. While one of them is
suspended anything else can run: `add()` / `download()` of an identity the loop has not reached yet (an
application restoring its wish list next to `client.start()`), further writes, attribute changes. The histories
below contain `loadCall order` (the process ends, a new manager starts loading; `order` = the order in which
`shelve` hands out the entries, the environment's choice) and `loadStep` (the suspended listener resumes) among
all the other operations; `C17_reports_match_list` above already covers them (identities stay pairwise distinct
at every point of every such history). -/

/-- **Each exactly once — also when the read is interleaved with other operations.** Start loading ANY database
(any key format, one transfer under two keys, …) in any order, let any operations that are not removals happen
between the phases of the read (additions of identities the loop has yet to reach, of other identities, suspended
additions, attribute changes, writes, environment rewrites), until the read has ended. Then the manager lists every
identity once, every transfer of the cache is there, and the list agrees with what was reported. -/
theorem C17_load_interleaved {K : Type} [DecidableEq K] (H : ByteArray → K) (s : Sys K) (order : List Ident)
    (ops : List Op) (hk : ∀ o ∈ ops, o.keeps = true)
    (hload : (step H s (.loadCall order)).2 ≠ .loadError)
    (hdone : (run H (step H s (.loadCall order)).1 ops).loading = none) :
    let e := run H (step H s (.loadCall order)).1 ops
    (e.mgr.transfers.map ident).Nodup ∧
    (∀ r ∈ s.db, ∀ x, restore r.2 = some x → ident x ∈ e.mgr.transfers.map ident) ∧
    (∀ i ∈ e.there, i ∈ e.mgr.transfers.map ident) ∧ (∀ i ∈ e.gone, i ∉ e.mgr.transfers.map ident) := by
  intro e
  have hinv : GhostInv e := inv_run H ops (inv_doLoadCall s order)
  refine ⟨hinv.nodup, ?_, hinv.there, hinv.gone⟩
  intro r hr x hx
  cases hl : readAll s.db with
  | none =>
    exfalso; apply hload
    simp only [step, doLoadCall, hl]
  | some l =>
    -- after the first phase every entry is listed or still to be reached
    have h0 : LoadInv (l.map ident) (step H s (.loadCall order)).1 := by
      simp only [step, doLoadCall, hl]
      intro i hi
      apply (loadRun_spec _ _).2
      obtain ⟨y, hy, rfl⟩ := List.mem_map.1 hi
      exact List.mem_map.2 ⟨y, (mem_readOrder order l y).2 hy, rfl⟩
    have h1 : LoadInv (l.map ident) e := loadInv_run H ops h0 hk
    obtain ⟨y, hy, hy'⟩ := restoreAll_complete hl r.2 (List.mem_map.2 ⟨r, hr, rfl⟩)
    rw [hx] at hy'
    cases hy'
    rcases h1 (ident x) (List.mem_map.2 ⟨x, hy, rfl⟩) with h2 | ⟨rem, h2, _⟩
    · exact h2
    · rw [hdone] at h2; cases h2

/-- **The phases add up to the load.** When nothing else runs between the phases of the read, the manager it ends
with is exactly the one the uninterrupted `load_data()` builds from the same entries in the same order — so all that
is proved of `restart` above (`C17_restart`, `C17_no_in_progress`, `C17_listener_attached`, `C17_schedulable_*`)
holds of a read that merely *suspends*; for `order = []` it is the manager of `restart` itself. -/
theorem C17_load_phases_add_up {K : Type} [DecidableEq K] (H : ByteArray → K) (s : Sys K) (order : List Ident)
    (n : Nat) (l : List Transfer) (hl : readAll s.db = some l) :
    let e := run H (step H s (.loadCall order)).1 (List.replicate n .loadStep)
    (e.loading = none → e.mgr = (Mgr.empty mgrId).addAll (readOrder order l)) ∧
    (order = [] → e.loading = none → e.mgr = (step H s .restart).1.mgr) := by
  intro e
  have key : e.loading = none → e.mgr = (Mgr.empty mgrId).addAll (readOrder order l) := by
    intro hn
    have h := run_replicate_loadStep H n (step H s (.loadCall order)).1
    have h0 : (step H s (.loadCall order)).1.mgr.addAll ((step H s (.loadCall order)).1.loading.getD [])
        = (Mgr.empty mgrId).addAll (readOrder order l) := by
      simp only [step, doLoadCall, hl]
      exact loadRun_addAll _ _
    rw [h0] at h
    have hn' : e.loading.getD [] = [] := by rw [hn]; rfl
    rw [← h, hn']
    rfl
  refine ⟨key, ?_⟩
  intro ho hn
  rw [key hn, ho]
  simp only [step, doRestart, Mgr.load, hl, Option.map_some, readOrder]

/-- **What a phase of the read registers** is the repaired image of a cache entry: remote-queue mark cleared, not
in progress, state by the repair table — exactly as in the uninterrupted load (`C17_no_in_progress`). -/
theorem C17_load_phase_marks {K : Type} (s : Sys K) (l : List Transfer) :
    ∀ t ∈ (loadRun s l).1.mgr.transfers, t ∈ s.mgr.transfers ∨
      ∃ x ∈ l, t = attach s.mgr.id (repair x).1 ∧ t.remotelyQueued = false ∧ isProcessing t.state = false ∧
        t.state = repairState x.state (isTransfered x) := by
  intro t ht
  rcases loadRun_registers l s t ht with h | ⟨x, hx, rfl⟩
  · exact .inl h
  · have hs : (attach s.mgr.id (repair x).1).state = repairState x.state (isTransfered x) := repair_state x
    refine .inr ⟨x, hx, rfl, repair_remotelyQueued x, ?_, hs⟩
    rw [hs]; exact not_processing_repairState _ _

/-- **A cache written by the previous release.** Whatever the cache holds, put into it the entry the pinned writer
(`persist` = `Transfer.__getstate__` as pinned by `C17_fields_pinned`) leaves for ANY transfer `t` — any state, the
remote-queue mark set or not, every attribute present — under the current or the pre-fix key, and start a new
client on it. If the load succeeds: `t`'s identity is listed, every identity once, every loaded transfer has its
remote-queue mark cleared, is not in progress and reports to the manager, and the scheduler's choice of downloads
depends on user status, direction, state and fail reason only (the stored mark blocks nothing). -/
theorem C17_previous_release_cache {K : Type} [DecidableEq K] (H : ByteArray → K) (s : Sys K) (t : Transfer)
    (oldKey : Bool) :
    let r := step H (step H s (.prev t oldKey)).1 .restart
    r.2 = .loaded →
      ident t ∈ r.1.mgr.transfers.map ident ∧ (r.1.mgr.transfers.map ident).Nodup ∧
      (∀ x ∈ r.1.mgr.transfers,
        x.remotelyQueued = false ∧ isProcessing x.state = false ∧ x.listeners = [mgrId] ∧ x.tasks = 0) ∧
      (∀ (offline : Str → Bool), ∀ x ∈ r.1.mgr.transfers,
        (x ∈ (eligible offline r.1.mgr.transfers).1 ↔
          (offline x.user = false ∧ x.dir = .download ∧
            (x.state = .queued ∨ x.state = .incomplete ∨ (x.state = .failed ∧ x.failReason = none))))) := by
  intro r hr
  let s1 := (step H s (.prev t oldKey)).1
  have hnd : (r.1.mgr.transfers.map ident).Nodup := (inv_doRestart s1).nodup
  have hr1 : r = doRestart s1 := rfl
  cases hm : (Mgr.empty mgrId).load s1.db with
  | none =>
    rw [hr1] at hr
    unfold doRestart at hr
    rw [hm] at hr
    cases hr
  | some m =>
    have hmgr : r.1.mgr = m := by
      rw [hr1]; unfold doRestart; rw [hm]
    rw [hmgr] at hnd ⊢
    refine ⟨?_, hnd, ?_, ?_⟩
    · -- the entry just written is read back
      unfold Mgr.load at hm
      cases hl : readAll s1.db with
      | none => simp [hl] at hm
      | some l =>
        simp only [hl, Option.map_some, Option.some.injEq] at hm
        subst hm
        have hmem : persist t ∈ s1.db.map (·.2) := by
          show persist t ∈ (Db.put s.db _ (persist t)).map (·.2)
          simp [Db.put]
        obtain ⟨y, hy, hy'⟩ := restoreAll_complete hl (persist t) hmem
        rw [restore_persist] at hy'
        cases hy'
        exact addAll_complete l _ (canon t) hy
    · intro x hx
      obtain h1 | ⟨hp, hq, _⟩ := C17_no_in_progress _ m s1.db hm x hx
      · simp [Mgr.empty] at h1
      obtain h2 | ⟨hl, htk, _⟩ := (C17_listener_attached _ m s1.db hm).1 x hx
      · simp [Mgr.empty] at h2
      exact ⟨hq, hp, hl, htk⟩
    · intro offline x hx
      obtain h1 | h1 := C17_schedulable_download _ m s1.db hm offline x hx
      · simp [Mgr.empty] at h1
      · exact h1

/-! ### Non-vacuity: the hypotheses are met by non-trivial concrete states -/

/-- two downloads whose *unpatched* keys collide, persisted in the middle of their life -/
def exA : Transfer :=
  { user := ['a', 'b'], path := ['c'], dir := .download, state := .downloading, localPath := some ['x'],
    filesize := some 10, bytes := 4, failReason := none, abortReason := none, remotelyQueued := true,
    placeInQueue := some 2, queueAttempts := 1, lastQueueAttempt := 0, uploadRequestAttempts := 0,
    lastUploadRequestAttempt := 0, startTime := some 5, completeTime := none, hasOffset := true,
    listeners := [7], tasks := 1 }
def exB : Transfer := { exA with user := ['a'], path := ['b', 'c'], state := .initializing, bytes := 0 }

example : ([exA, exB].map ident).Nodup := by decide
example : keyOf exA ≠ keyOf exB := fun h => absurd (keyOf_inj h) (by decide)
example : (repair (canon exA)).1.state = .incomplete ∧ (repair (canon exB)).1.state = .queued ∧
    (repair (canon exA)).1.remotelyQueued = false := by decide
/-- `Function.Injective H` is satisfiable (the driver runs the model with `H = id`) -/
example : Function.Injective (id : ByteArray → ByteArray) := fun _ _ h => h
/-- a load that adds something and whose eligible lists are not empty -/
example : ∃ m', (Mgr.empty 1).load ([((0 : Nat), persist exA), (1, persist { exB with dir := .upload })]) = some m' ∧
    (eligible (fun _ => false) m'.transfers).1.length = 1 ∧ (eligible (fun _ => false) m'.transfers).2.length = 1 := by
  refine ⟨_, rfl, ?_, ?_⟩ <;> decide

/-- a history with operations suspended in listeners: `exB`'s removal is being announced (reported gone, not
listed), `exA`'s addition has been reported while its `add()` is still suspended (reported there, listed) -/
example :
    let s := run (id : ByteArray → ByteArray) Sys.init
      [.add exB, .addCall exA, .rmCall (ident exB) 1000, .rmStep (ident exB)]
    s.there = [ident exA] ∧ s.gone = [ident exB] ∧ s.pending.length = 2 ∧ (s.mgr.transfers.map ident) = [ident exA] := by
  decide
example : GhostInv (Sys.init : Sys ByteArray) := inv_init

/-- a history in which the read is interleaved: the cache holds `exA` (under both key formats) and `exB` (as the
previous release left it, remote-queue mark set); the loop registers `exB` and is suspended; `exA` — which the loop
has yet to reach — is added by another task; the loop resumes and ends. Each identity is listed once. -/
example :
    let s := run (id : ByteArray → ByteArray) Sys.init
      [.add exA, .store, .dupKey (ident exA), .prev exB false,
       .loadCall [ident exB, ident exA], .add { exA with state := .virgin, remotelyQueued := false }, .loadStep]
    s.loading = none ∧ s.mgr.transfers.map ident = [ident exB, ident exA] ∧ s.mgr.addedEvents = 2 ∧
      s.db.length = 3 ∧ s.mgr.transfers.all (fun t => !t.remotelyQueued) = true := by
  decide
example : Op.keeps (.add exA) = true ∧ Op.keeps .loadStep = true ∧ Op.keeps .store = true ∧
    Op.keeps (.rm (ident exA) 0) = false ∧ Op.keeps .restart = false := by decide
example : Op.quiet (.rmStep (ident exA)) = true ∧ Op.quiet (.addCall exA) = true ∧ Op.quiet .store = false := by decide

end AioslskVerif.C17
