import AioslskVerif.Proofs.FileXfer
/-!
# C04 — COMPLETE means the whole file arrived intact; resuming never corrupts it

Property theorems only (model: `Model/FileXfer.lean`, helpers: `Proofs/FileXfer.lean`).
The model is the code AFTER `fixes/C04-zero-remaining.patch` and `fixes/C04-offset-send-failure.patch`.

`F` is the remote file, `pre` what the local file holds before the first modelled attempt (a prefix of `F`
left by an earlier session, usually `[]`), `ops` ANY sequence of attempts / deliveries / cuts:
every `begin` is one attempt, `seg bs` makes `bs` readable (any segmentation), `eof` / `err` /
`beginCut` are the cut points. `Honest F` restricts only what an honest uploader controls (announced size
`|F|`, bytes continue `F` at the offset it was sent); cuts stay arbitrary.
-/
namespace AioslskVerif.C04
open AioslskVerif.FileXfer

/-- **COMPLETE ⇒ the local file is the remote file**, for every file, every sequence of attempts, every
segmentation and every cut point (honest uploader). -/
theorem C04_complete_exact (F pre : Bytes) (ops : List Op) (hpre : pre <+: F)
    (hon : Honest F (Dl.init pre) ops) (hc : (run (Dl.init pre) ops).st = .complete) :
    (run (Dl.init pre) ops).loc = F := by
  have hi := inv_run ops _ (inv_init pre)
  have hh := hinv_run F ops _ (hinv_init F pre hpre) hon
  have h1 := hi.bt_len (by simp [hc])
  have h2 := hi.complete_size hc
  have h3 := hh.size (by simp [hc])
  exact hh.pre.eq_of_length (by omega)

/-- **Whatever was cut, wherever: the local file is a prefix of the remote file**, and
`bytes_transfered` equals its length once an attempt has begun. -/
theorem C04_prefix_on_cut (F pre : Bytes) (ops : List Op) (hpre : pre <+: F)
    (hon : Honest F (Dl.init pre) ops) :
    (run (Dl.init pre) ops).loc <+: F ∧
    ((run (Dl.init pre) ops).st ≠ .queued → (run (Dl.init pre) ops).bt = (run (Dl.init pre) ops).loc.length) :=
  ⟨(hinv_run F ops _ (hinv_init F pre hpre) hon).pre, (inv_run ops _ (inv_init pre)).bt_len⟩

/-- **What a cut does to a running download**: a reset / read time-out gives INCOMPLETE, a close by the
sender gives COMPLETE when everything is there and FAILED("Cancelled") otherwise; in every case the
received bytes are kept, nothing is appended, and the connection is closed. -/
theorem C04_cut_outcome (d : Dl) (hs : d.st = .downloading) :
    (step d .err).st = .incomplete ∧ (step d .err).loc = d.loc ∧ (step d .err).closed = true ∧
    ((step d .eof).st = .complete ∧ d.filesize = d.bt ∨ (step d .eof).st = .failedCancelled ∧ d.filesize ≠ d.bt) ∧
    (step d .eof).loc = d.loc ∧ (step d .eof).closed = true ∧
    ∀ a, (step d (.beginCut a)) = d := by
  have he : step d .err = { d with st := .incomplete, closed := true } := by simp [step, hs]
  have hf : step d .eof = finish d := by simp [step, hs]
  rw [he, hf]
  refine ⟨rfl, rfl, rfl, finish_st d, rfl, rfl, fun a => ?_⟩
  simp [step, canBegin, hs]

/-- **Resume offset.** Every attempt that starts puts exactly the local file size on the wire, and (honest
uploader) what the uploader then sends — `F` from that offset — is exactly what is missing. -/
theorem C04_resume_offset (F pre : Bytes) (ops : List Op) (hpre : pre <+: F)
    (hon : Honest F (Dl.init pre) ops) (a : Nat) (lim : Bool)
    (hb : canBegin (run (Dl.init pre) ops) = true) :
    (step (run (Dl.init pre) ops) (.begin a lim)).offset = (run (Dl.init pre) ops).loc.length ∧
    (run (Dl.init pre) ops).loc ++ F.drop (step (run (Dl.init pre) ops) (.begin a lim)).offset = F := by
  have hh := hinv_run F ops _ (hinv_init F pre hpre) hon
  have ho : (step (run (Dl.init pre) ops) (.begin a lim)).offset = (run (Dl.init pre) ops).loc.length := by
    simp only [step, hb, if_true, begin]
    split <;> rfl
  exact ⟨ho, by rw [ho]; exact prefix_drop hh.pre⟩

/-- **Dishonest senders** (any bytes, any announced sizes, too few, too many, wrong offset): COMPLETE is
reached only with a local file of exactly the announced size. -/
theorem C04_dishonest (pre : Bytes) (ops : List Op) (hc : (run (Dl.init pre) ops).st = .complete) :
    (run (Dl.init pre) ops).loc.length = (run (Dl.init pre) ops).filesize := by
  have hi := inv_run ops _ (inv_init pre)
  have h1 := hi.bt_len (by simp [hc])
  have h2 := hi.complete_size hc
  omega

/-- **Upload COMPLETE ⇒ every byte from the negotiated offset was written and the peer closed** — for every
file, every offset the downloader may send (also beyond the size), every interleaving of chunks, write
errors, closes and re-attempts. -/
theorem C04_upload_complete (F : Bytes) (ops : List UOp) (hc : (urun F (Ul.init F) ops).st = .complete) :
    (urun F (Ul.init F) ops).sent = F.drop (urun F (Ul.init F) ops).offset ∧
    (urun F (Ul.init F) ops).peerClosed = true := by
  have hi := uinv_run F ops _ (uinv_init F)
  refine ⟨?_, hi.closed hc⟩
  have h1 := hi.bt (by simp [hc])
  have h2 := hi.complete hc
  have h3 := hi.fs
  apply hi.sent.eq_of_length
  rw [List.length_drop]
  omega

/-- **Progress (download).** From ANY state in which an attempt can start (never started, INCOMPLETE after a
reset / time-out, FAILED after a close) and whose local file is a prefix of `F` — by `C04_prefix_on_cut`
that is every state reached by any history of attempts and cuts against an honest uploader — one
fault-free attempt, the missing bytes `segs.flatten` arriving in ANY segmentation, with or without a
bandwidth limit, ends in COMPLETE with the local file equal to `F` and the connection closed by the
downloader. The number of missing bytes is the measure (`C04_progress_measure`). Includes the case that
nothing is missing (empty file, or everything had arrived before the cut): `segs.flatten = []` and the
attempt completes at once — the case the unfixed `receive_file` waited out for 180 s, for ever. -/
theorem C04_progress (F : Bytes) (d : Dl) (lim : Bool) (segs : List Bytes)
    (hb : canBegin d = true) (hsegs : d.loc ++ segs.flatten = F) :
    (run d (.begin F.length lim :: segs.map .seg)).st = .complete ∧
    (run d (.begin F.length lim :: segs.map .seg)).loc = F ∧
    (run d (.begin F.length lim :: segs.map .seg)).closed = true := by
  have hlen : F.length = d.loc.length + segs.flatten.length := by rw [← hsegs]; simp
  have hrun : run d (.begin F.length lim :: segs.map .seg) = run (begin d F.length lim) (segs.map .seg) := by
    simp only [run, List.foldl_cons, step, hb, if_true]
  rw [hrun]
  by_cases hz : segs.flatten.length = 0
  · -- nothing is missing
    have hfl : segs.flatten = [] := List.eq_nil_of_length_eq_zero hz
    have hbeg : begin d F.length lim =
        finish { d with filesize := F.length, offset := d.loc.length, bt := d.loc.length,
                        remaining := (F.length : Int) - (d.loc.length : Int), received := 0,
                        chunk := chunkOf lim, st := .downloading, closed := false, log := [] } := by
      unfold begin; dsimp only; rw [if_pos]; omega
    rw [hbeg, run_not_downloading_segs _ _ (finish_st_ne_downloading _)]
    refine ⟨?_, ?_, rfl⟩
    · simp only [finish]; rw [if_pos]; omega
    · rw [finish_loc]; dsimp only; rw [← hsegs, hfl]; simp
  · have hbeg : begin d F.length lim =
        { d with filesize := F.length, offset := d.loc.length, bt := d.loc.length,
                 remaining := (F.length : Int) - (d.loc.length : Int), received := 0,
                 chunk := chunkOf lim, st := .downloading, closed := false, log := [] } := by
      unfold begin; dsimp only; rw [if_neg]; omega
    rw [hbeg]
    have := run_segs_honest segs
      { d with filesize := F.length, offset := d.loc.length, bt := d.loc.length,
               remaining := (F.length : Int) - (d.loc.length : Int), received := 0,
               chunk := chunkOf lim, st := .downloading, closed := false, log := [] } []
      rfl rfl (chunkOf_pos lim) (by dsimp only; simp only [List.length_nil]; omega)
      (by dsimp only; simp only [List.length_nil]; omega) (by simp only [List.length_nil]; omega)
    obtain ⟨h1, h2, _⟩ := this
    obtain ⟨hc, hcl⟩ := h2 rfl
    exact ⟨hc, by rw [h1]; exact hsegs, hcl⟩

/-- **Progress (download), measure step.** While a download runs against an honest uploader, a delivery
is consumed completely and exactly (nothing lost, nothing beyond it written): the number of missing bytes
`|F| - |local|` drops by the size of the delivery, and the download is COMPLETE precisely when it hits 0. -/
theorem C04_progress_measure (F pre : Bytes) (ops : List Op) (hpre : pre <+: F)
    (hon : Honest F (Dl.init pre) ops) (bs : Bytes)
    (hs : (run (Dl.init pre) ops).st = .downloading)
    (hbs : bs <+: F.drop (run (Dl.init pre) ops).loc.length) :
    (step (run (Dl.init pre) ops) (.seg bs)).loc = (run (Dl.init pre) ops).loc ++ bs ∧
    ((run (Dl.init pre) ops).loc ++ bs = F → bs ≠ [] → (step (run (Dl.init pre) ops) (.seg bs)).st = .complete) ∧
    ((run (Dl.init pre) ops).loc ++ bs ≠ F → (step (run (Dl.init pre) ops) (.seg bs)).st = .downloading) := by
  have hh := hinv_run F ops _ (hinv_init F pre hpre) hon
  have hi := inv_run ops _ (inv_init pre)
  generalize run (Dl.init pre) ops = d at hs hbs hh hi
  obtain ⟨t, ht⟩ := hbs
  have hF : d.loc ++ (bs ++ t) = F := by rw [ht]; exact prefix_drop hh.pre
  have hfs := hh.size (by simp [hs])
  have hbt := hi.bt_len (by simp [hs])
  obtain ⟨hc, hlt, hrem⟩ := hi.running hs
  have hlen : F.length = d.loc.length + bs.length + t.length := by
    rw [← hF]; simp only [List.length_append]; omega
  have hd := drain_honest bs.length d bs t (Nat.le_refl _) hs hbt hc (by omega) (by omega) (by omega)
  obtain ⟨h1, _, _, _, h5, h6⟩ := hd
  simp only [step, hs, if_true]
  refine ⟨h1, fun hall hne => ?_, fun hnot => ?_⟩
  · have : t = [] := by
      apply List.eq_nil_of_length_eq_zero
      have := congrArg List.length hall
      simp only [List.length_append] at this
      omega
    exact (h5 this hne).1
  · have : t ≠ [] := by
      intro h0; apply hnot; rw [← hF, h0]; simp
    exact (h6 this).1

/-- **Progress (upload).** For every offset within the file, once the downloader's offset is in, enough
fault-free `send_file` iterations followed by the peer's close end in COMPLETE (also for offset = size:
nothing is sent, the upload completes when the downloader closes). -/
theorem C04_progress_upload (F : Bytes) (ops : List UOp) (off n : Nat) (lim : Bool)
    (hb : (urun F (Ul.init F) ops).st = .queued ∨ (urun F (Ul.init F) ops).st = .failed ∨
          (urun F (Ul.init F) ops).st = .complete)
    (hoff : off ≤ F.length) (hn : F.length - off + chunkOf lim ≤ n * chunkOf lim) :
    (urun F (urun F (Ul.init F) ops) (.begin off lim :: List.replicate n .chunk ++ [.closed])).st = .complete := by
  have hi := uinv_run F ops _ (uinv_init F)
  generalize urun F (Ul.init F) ops = u at hb hi
  have hbeg : ustep F u (.begin off lim) = ubegin u off lim := by
    simp only [ustep]; rw [if_pos hb]
  have hrun : urun F u (.begin off lim :: List.replicate n .chunk ++ [.closed]) =
      ustep F (urun F (ustep F u (.begin off lim)) (List.replicate n .chunk)) .closed := by
    simp only [urun, List.cons_append, List.foldl_cons, List.foldl_append, List.foldl_nil]
  rw [hrun, hbeg]
  have := urun_chunks F n (ubegin u off lim) rfl (chunkOf_pos lim) hoff hn
  obtain ⟨g1, g2, g3, _⟩ := this
  have hfs : (ubegin u off lim).filesize = F.length := hi.fs
  have hbt : (ubegin u off lim).bt = off := rfl
  have hpos : (ubegin u off lim).pos = off := rfl
  simp only [ustep, g1, if_true]
  rw [if_pos]
  rw [g2, g3, hfs, hbt, hpos]; omega

/-! Non-vacuity: the hypotheses are met by non-trivial reachable histories (a 5-byte file, a cut after 2
bytes, a resumed attempt; a dishonest sender; an upload resumed at offset 2). -/
example : Honest [1, 2, 3, 4, 5] (Dl.init [])
    [.begin 5 true, .seg [1, 2], .err, .begin 5 false, .seg [3], .seg [4, 5]] := by
  simp only [Honest]; decide
example : (run (Dl.init []) [.begin 5 true, .seg [1, 2], .err]).st = .incomplete ∧
    (run (Dl.init []) [.begin 5 true, .seg [1, 2], .err]).loc = [1, 2] := by decide
example : (run (Dl.init []) [.begin 5 true, .seg [1, 2], .err, .begin 5 false, .seg [3], .seg [4, 5]]).st
    = .complete := by decide
example : (run (Dl.init []) [.begin 3 false, .seg [9, 9, 9, 9]]).st = .failedCancelled := by decide
example : (run (Dl.init []) [.begin 0 false]).st = .complete := by decide
example : (urun [1, 2, 3, 4, 5] (Ul.init [1, 2, 3, 4, 5]) [.begin 2 true, .chunk, .chunk, .closed]).st
    = .complete := by decide
example : (urun [1, 2, 3] (Ul.init [1, 2, 3]) [.begin 3 true, .chunk, .closed]).st = .complete := by decide

end AioslskVerif.C04
