import AioslskVerif.Proofs.FileXfer
/-!
# C04 — COMPLETE means the whole file arrived intact; resuming never corrupts it

Property theorems only (model: `Model/FileXfer.lean`, helpers: `Proofs/FileXfer.lean`).
The model is the code AFTER `fixes/C04-zero-remaining.patch`, `fixes/C04-offset-send-failure.patch`,
`fixes/C04-upload-eof-wait-read-error.patch` and `fixes/C04-upload-failed-undelivered.patch`.

`F` is the remote file, `pre` what the local file holds before the first modelled attempt (a prefix of `F`
left by an earlier session, usually `[]`), `ops` ANY sequence of attempts / deliveries / cuts:
every `begin` is one attempt, `seg bs` makes `bs` readable (any segmentation), `eof` / `err` /
`beginCut` are the cut points. `Honest F` restricts only what an honest uploader controls (announced size
`|F|`, bytes continue `F` at the offset it was sent); cuts stay arbitrary.
-/
namespace AioslskVerif.C04
open AioslskVerif.FileXfer

/-- **COMPLETE ⇒ the local file is the remote file**, for every file, every sequence of attempts, every
segmentation and every cut point, every `pause()` (also one that lands while a chunk is with the disk-write
thread) / `queue()`, every cache write and every restart from it (honest uploader of an unchanged file). -/
theorem C04_complete_exact (F pre : Bytes) (ops : List Op) (hpre : pre <+: F)
    (hon : Honest F (Dl.init pre) ops) (hc : (run (Dl.init pre) ops).st = .complete) :
    (run (Dl.init pre) ops).loc = F := by
  have hi := inv_run ops _ (inv_init pre true)
  have hh := hinv_run F ops _ (inv_init pre true) (hinv_init F pre true hpre) hon
  have h2 := hi.complete_size hc
  have h3 := hh.size (Or.inr hc)
  exact hh.pre.eq_of_length (by omega)

/-- **Whatever was cut, paused or restarted, wherever: the local file is a prefix of the remote file**, and
`bytes_transfered` equals its length while a download runs. -/
theorem C04_prefix_on_cut (F pre : Bytes) (ops : List Op) (hpre : pre <+: F)
    (hon : Honest F (Dl.init pre) ops) :
    (run (Dl.init pre) ops).loc <+: F ∧
    ((run (Dl.init pre) ops).st = .downloading → (run (Dl.init pre) ops).bt = (run (Dl.init pre) ops).loc.length) :=
  ⟨(hinv_run F ops _ (inv_init pre true) (hinv_init F pre true hpre) hon).pre,
   (inv_run ops _ (inv_init pre true)).bt_len⟩

/-- **What a cut does to a running download**: a reset / read time-out gives INCOMPLETE, a close by the
sender gives COMPLETE when everything is there and FAILED("Cancelled") otherwise; in every case the
received bytes are kept, nothing is appended, and the connection is closed. -/
theorem C04_cut_outcome (d : Dl) (hs : d.st = .downloading) :
    (step d .err).st = .incomplete ∧ (step d .err).loc = d.loc ∧ (step d .err).closed = true ∧
    ((step d .eof).st = .complete ∧ d.filesize = d.bt ∨ (step d .eof).st = .failedCancelled ∧ d.filesize ≠ d.bt) ∧
    (step d .eof).loc = d.loc ∧ (step d .eof).closed = true ∧
    ∀ a, (step d (.beginCut a)) = d := by
  have he : step d .err = { d with st := .incomplete, closed := true } := by simp [step, hs]
  have hf : step d .eof = finish d := by simp [step, hs]
  rw [he, hf]
  refine ⟨rfl, rfl, rfl, finish_st d, rfl, rfl, fun a => ?_⟩
  simp [step, canBegin, hs]

/-- **Resume offset, whatever the counter says.** In EVERY state in which an attempt can start — in particular
with a `bytes_transfered` that lags behind the file (a chunk written but not counted when `pause()` cancelled the
task; a cache saved before more data arrived) or runs ahead of it (counted bytes lost with the process) — the
offset put on the wire is the size of the local file, and the counter is set to it. -/
theorem C04_resume_offset_any_counter (d : Dl) (a : Nat) (lim : Bool) (hb : canBegin d = true) :
    (step d (.begin a lim)).offset = d.loc.length ∧ (step d (.begin a lim)).bt = d.loc.length ∧
    (step d (.begin a lim)).loc = d.loc := by
  simp only [step, hb, if_true, begin]
  split <;> exact ⟨rfl, rfl, rfl⟩

/-- **Resume offset.** Every attempt that starts puts exactly the local file size on the wire, and (honest
uploader) what the uploader then sends — `F` from that offset — is exactly what is missing. -/
theorem C04_resume_offset (F pre : Bytes) (ops : List Op) (hpre : pre <+: F)
    (hon : Honest F (Dl.init pre) ops) (a : Nat) (lim : Bool)
    (hb : canBegin (run (Dl.init pre) ops) = true) :
    (step (run (Dl.init pre) ops) (.begin a lim)).offset = (run (Dl.init pre) ops).loc.length ∧
    (run (Dl.init pre) ops).loc ++ F.drop (step (run (Dl.init pre) ops) (.begin a lim)).offset = F := by
  have hh := hinv_run F ops _ (inv_init pre true) (hinv_init F pre true hpre) hon
  have ho := (C04_resume_offset_any_counter (run (Dl.init pre) ops) a lim hb).1
  exact ⟨ho, by rw [ho]; exact prefix_drop hh.pre⟩

/-- **Dishonest senders / changing announcements** (any bytes, any announced sizes — also another size in every
attempt —, too few, too many, wrong offset; any user action, any restart): COMPLETE is reached only with a local
file of exactly the size announced by the request of the attempt that completed (`ann` is set by `begin` from the
request and by nothing else). -/
theorem C04_dishonest (pre : Bytes) (hp : Bool) (ops : List Op) (hc : (run (Dl.init pre hp) ops).st = .complete) :
    (run (Dl.init pre hp) ops).loc.length = (run (Dl.init pre hp) ops).ann :=
  (inv_run ops _ (inv_init pre hp)).complete_size hc

/-- **The remote file changes between the attempts** (it grew, shrank, became empty, was replaced; the honest
uploader measures it again and announces the new size; `remote F'`): a download that reaches COMPLETE holds
exactly as many bytes as the file served in the attempt that completed, and from the offset of that attempt on it
IS that file. (What lies before the offset came from earlier versions of the file: the protocol has no means to
compare it, nothing is claimed about it here — see `C04_complete_exact_growing`.) -/
theorem C04_complete_served (pre F₀ : Bytes) (hp : Bool) (ops : List Op)
    (hon : HonestV { Dl.init pre hp with remote := F₀ } ops)
    (hc : (run { Dl.init pre hp with remote := F₀ } ops).st = .complete) :
    (run { Dl.init pre hp with remote := F₀ } ops).loc.length =
      (run { Dl.init pre hp with remote := F₀ } ops).served.length ∧
    (run { Dl.init pre hp with remote := F₀ } ops).loc.drop (run { Dl.init pre hp with remote := F₀ } ops).offset =
      (run { Dl.init pre hp with remote := F₀ } ops).served.drop (run { Dl.init pre hp with remote := F₀ } ops).offset := by
  have hi0 : Inv { Dl.init pre hp with remote := F₀ } := by
    have := inv_init pre hp
    exact ⟨this.bt_len, this.size_ann, this.complete_size, this.running, this.path, this.saved_complete,
           this.saved_running, this.saved_path⟩
  have hi := inv_run ops _ hi0
  have ha := ainv_run ops _ hi0 (ainv_init pre hp F₀) hon
  generalize run { Dl.init pre hp with remote := F₀ } ops = d at hc hi ha
  obtain ⟨h1, h2, h3⟩ := ha.att (Or.inr hc)
  have h4 := hi.complete_size hc
  refine ⟨by omega, h2.eq_of_length ?_⟩
  rw [List.length_drop, List.length_drop]; omega

/-- … and when the file only ever GROWS at its end (a log, a recording) the finished file is the whole remote
file as it was served in the attempt that completed — although its size was announced differently in every
attempt. -/
theorem C04_complete_exact_growing (pre F₀ : Bytes) (ops : List Op) (hpre : pre <+: F₀)
    (hon : HonestV { Dl.init pre with remote := F₀ } ops) (hg : Grows { Dl.init pre with remote := F₀ } ops)
    (hc : (run { Dl.init pre with remote := F₀ } ops).st = .complete) :
    (run { Dl.init pre with remote := F₀ } ops).loc = (run { Dl.init pre with remote := F₀ } ops).served := by
  have hi0 : Inv { Dl.init pre with remote := F₀ } := by
    have := inv_init pre true
    exact ⟨this.bt_len, this.size_ann, this.complete_size, this.running, this.path, this.saved_complete,
           this.saved_running, this.saved_path⟩
  have hg0 : GInv { Dl.init pre with remote := F₀ } := ⟨by simpa [Dl.init] using hpre, fun hq => by simp [Dl.init] at hq⟩
  have hi := inv_run ops _ hi0
  have ha := ainv_run ops _ hi0 (ainv_init pre true F₀) hon
  have hgi := ginv_run ops _ hi0 hg0 hon hg
  generalize run { Dl.init pre with remote := F₀ } ops = d at hc hi ha hgi
  obtain ⟨_, _, h3⟩ := ha.att (Or.inr hc)
  have h4 := hi.complete_size hc
  have hp : d.loc <+: d.served := List.prefix_of_prefix_length_le hgi.pre (hgi.srv (Or.inr hc)) (by omega)
  exact hp.eq_of_length (by omega)

/-- **Upload COMPLETE ⇒ every byte from the negotiated offset was written and the peer closed** — for every
file, every offset the downloader may send (also beyond the size), every interleaving of chunks, write
errors, closes and re-attempts. -/
theorem C04_upload_complete (F : Bytes) (ops : List UOp) (hc : (urun F (Ul.init F) ops).st = .complete) :
    (urun F (Ul.init F) ops).sent = F.drop (urun F (Ul.init F) ops).offset ∧
    (urun F (Ul.init F) ops).peerClosed = true := by
  have hi := uinv_run F ops _ (uinv_init F)
  refine ⟨?_, hi.closed hc⟩
  have h1 := hi.bt (by simp [hc])
  have h2 := hi.complete hc
  have h3 := hi.fs
  apply hi.sent.eq_of_length
  rw [List.length_drop]
  omega

/-- **Progress (download).** From ANY state in which an attempt can start (never started, INCOMPLETE after a
reset / time-out, FAILED after a close) and whose local file is a prefix of `F` — by `C04_prefix_on_cut`
that is every state reached by any history of attempts and cuts against an honest uploader — one
fault-free attempt, the missing bytes `segs.flatten` arriving in ANY segmentation, with or without a
bandwidth limit, ends in COMPLETE with the local file equal to `F` and the connection closed by the
downloader. The number of missing bytes is the measure (`C04_progress_measure`). Includes the case that
nothing is missing (empty file, or everything had arrived before the cut): `segs.flatten = []` and the
attempt completes at once — the case the unfixed `receive_file` waited out for 180 s, for ever. -/
theorem C04_progress (F : Bytes) (d : Dl) (lim : Bool) (segs : List Bytes)
    (hb : canBegin d = true) (hsegs : d.loc ++ segs.flatten = F) :
    (run d (.begin F.length lim :: segs.map .seg)).st = .complete ∧
    (run d (.begin F.length lim :: segs.map .seg)).loc = F ∧
    (run d (.begin F.length lim :: segs.map .seg)).closed = true := by
  have hlen : F.length = d.loc.length + segs.flatten.length := by rw [← hsegs]; simp
  have hrun : run d (.begin F.length lim :: segs.map .seg) = run (begin d F.length lim) (segs.map .seg) := by
    simp only [run, List.foldl_cons, step, hb, if_true]
  rw [hrun]
  by_cases hz : segs.flatten.length = 0
  · -- nothing is missing
    have hfl : segs.flatten = [] := List.eq_nil_of_length_eq_zero hz
    have hbeg : begin d F.length lim =
        finish { d with filesize := F.length, offset := d.loc.length, bt := d.loc.length,
                        remaining := (F.length : Int) - (d.loc.length : Int), received := 0,
                        chunk := chunkOf lim, st := .downloading, closed := false, log := [],
                        hasPath := true, ann := F.length, served := d.remote } := by
      unfold begin; dsimp only; rw [if_pos]; omega
    rw [hbeg, run_not_downloading_segs _ _ (finish_st_ne_downloading _)]
    refine ⟨?_, ?_, rfl⟩
    · simp only [finish]; rw [if_pos]; omega
    · rw [finish_loc]; dsimp only; rw [← hsegs, hfl]; simp
  · have hbeg : begin d F.length lim =
        { d with filesize := F.length, offset := d.loc.length, bt := d.loc.length,
                 remaining := (F.length : Int) - (d.loc.length : Int), received := 0,
                 chunk := chunkOf lim, st := .downloading, closed := false, log := [],
                        hasPath := true, ann := F.length, served := d.remote } := by
      unfold begin; dsimp only; rw [if_neg]; omega
    rw [hbeg]
    have := run_segs_honest segs
      { d with filesize := F.length, offset := d.loc.length, bt := d.loc.length,
               remaining := (F.length : Int) - (d.loc.length : Int), received := 0,
               chunk := chunkOf lim, st := .downloading, closed := false, log := [],
                        hasPath := true, ann := F.length, served := d.remote } []
      rfl rfl (chunkOf_pos lim) (by dsimp only; simp only [List.length_nil]; omega)
      (by dsimp only; simp only [List.length_nil]; omega) (by simp only [List.length_nil]; omega)
    obtain ⟨h1, h2, _⟩ := this
    obtain ⟨hc, hcl⟩ := h2 rfl
    exact ⟨hc, by rw [h1]; exact hsegs, hcl⟩

/-- **Whatever happened before, one fault-free attempt finishes the file.** After ANY history against an honest
uploader — cuts at any byte, `pause()` with a chunk on disk that was never counted, `queue()`, a restart from a
cache saved at any earlier moment (stale counter, bytes lost with the process) — in which an attempt can start,
the attempt that delivers what is missing, in any segmentation, ends COMPLETE with the local file equal to `F`. -/
theorem C04_resume_completes (F pre : Bytes) (ops : List Op) (hpre : pre <+: F)
    (hon : Honest F (Dl.init pre) ops) (lim : Bool) (segs : List Bytes)
    (hb : canBegin (run (Dl.init pre) ops) = true)
    (hsegs : segs.flatten = F.drop (run (Dl.init pre) ops).loc.length) :
    (run (Dl.init pre) (ops ++ .begin F.length lim :: segs.map .seg)).st = .complete ∧
    (run (Dl.init pre) (ops ++ .begin F.length lim :: segs.map .seg)).loc = F := by
  have hh := hinv_run F ops _ (inv_init pre true) (hinv_init F pre true hpre) hon
  have hrun : run (Dl.init pre) (ops ++ .begin F.length lim :: segs.map .seg) =
      run (run (Dl.init pre) ops) (.begin F.length lim :: segs.map .seg) := by
    simp only [run, List.foldl_append]
  rw [hrun]
  have := C04_progress F (run (Dl.init pre) ops) lim segs hb (by rw [hsegs]; exact prefix_drop hh.pre)
  exact ⟨this.1, this.2.1⟩

/-- **Progress (download), measure step.** While a download runs against an honest uploader, a delivery
is consumed completely and exactly (nothing lost, nothing beyond it written): the number of missing bytes
`|F| - |local|` drops by the size of the delivery, and the download is COMPLETE precisely when it hits 0. -/
theorem C04_progress_measure (F pre : Bytes) (ops : List Op) (hpre : pre <+: F)
    (hon : Honest F (Dl.init pre) ops) (bs : Bytes)
    (hs : (run (Dl.init pre) ops).st = .downloading)
    (hbs : bs <+: F.drop (run (Dl.init pre) ops).loc.length) :
    (step (run (Dl.init pre) ops) (.seg bs)).loc = (run (Dl.init pre) ops).loc ++ bs ∧
    ((run (Dl.init pre) ops).loc ++ bs = F → bs ≠ [] → (step (run (Dl.init pre) ops) (.seg bs)).st = .complete) ∧
    ((run (Dl.init pre) ops).loc ++ bs ≠ F → (step (run (Dl.init pre) ops) (.seg bs)).st = .downloading) := by
  have hh := hinv_run F ops _ (inv_init pre true) (hinv_init F pre true hpre) hon
  have hi := inv_run ops _ (inv_init pre true)
  generalize run (Dl.init pre) ops = d at hs hbs hh hi
  obtain ⟨t, ht⟩ := hbs
  have hF : d.loc ++ (bs ++ t) = F := by rw [ht]; exact prefix_drop hh.pre
  have hfs : d.filesize = F.length := (hi.size_ann hs).trans (hh.size (Or.inl hs))
  have hbt := hi.bt_len hs
  obtain ⟨hc, hlt, hrem⟩ := hi.running hs
  have hlen : F.length = d.loc.length + bs.length + t.length := by
    rw [← hF]; simp only [List.length_append]; omega
  have hd := drain_honest bs.length d bs t (Nat.le_refl _) hs hbt hc (by omega) (by omega) (by omega)
  obtain ⟨h1, _, _, _, h5, h6⟩ := hd
  simp only [step, hs, if_true]
  refine ⟨h1, fun hall hne => ?_, fun hnot => ?_⟩
  · have : t = [] := by
      apply List.eq_nil_of_length_eq_zero
      have := congrArg List.length hall
      simp only [List.length_append] at this
      omega
    exact (h5 this hne).1
  · have : t ≠ [] := by
      intro h0; apply hnot; rw [← hF, h0]; simp
    exact (h6 this).1

/-- **Progress (upload).** For every offset within the file, once the downloader's offset is in, enough
fault-free `send_file` iterations followed by the peer's close end in COMPLETE (also for offset = size:
nothing is sent, the upload completes when the downloader closes). (`hq`: the task of an earlier, failed attempt is
not still busy telling the downloader — `manage_transfers` starts no second task beside it.) -/
theorem C04_progress_upload (F : Bytes) (ops : List UOp) (off n : Nat) (lim : Bool)
    (hb : (urun F (Ul.init F) ops).st = .queued ∨ (urun F (Ul.init F) ops).st = .failed ∨
          (urun F (Ul.init F) ops).st = .complete)
    (hq : (urun F (Ul.init F) ops).notifying = false)
    (hoff : off ≤ F.length) (hn : F.length - off + chunkOf lim ≤ n * chunkOf lim) :
    (urun F (urun F (Ul.init F) ops) (.begin off lim :: List.replicate n .chunk ++ [.closed])).st = .complete := by
  have hi := uinv_run F ops _ (uinv_init F)
  generalize urun F (Ul.init F) ops = u at hb hq hi
  have hbeg : ustep F u (.begin off lim) = ubegin u off lim := by
    simp only [ustep]; rw [if_pos ⟨hb, hq⟩]
  have hrun : urun F u (.begin off lim :: List.replicate n .chunk ++ [.closed]) =
      ustep F (urun F (ustep F u (.begin off lim)) (List.replicate n .chunk)) .closed := by
    simp only [urun, List.cons_append, List.foldl_cons, List.foldl_append, List.foldl_nil]
  rw [hrun, hbeg]
  have := urun_chunks F n (ubegin u off lim) rfl (chunkOf_pos lim) hoff hn
  obtain ⟨g1, g2, g3, _⟩ := this
  have hfs : (ubegin u off lim).filesize = F.length := hi.fs
  have hbt : (ubegin u off lim).bt = off := rfl
  have hpos : (ubegin u off lim).pos = off := rfl
  simp only [ustep, g1, if_true]
  rw [if_pos]
  rw [g2, g3, hfs, hbt, hpos]; omega

/-! ## The hand-shake values on the wire

Numbers are unbounded in the model, on the wire the ticket has 4 bytes and the offset 8. The widths the RECEIVERS use
(`Generated/XferWire.lean`) are regenerated from the code on every run; these theorems hold for 4/4 and 8/8 only. -/

/-- **The offset survives the wire, for every size a local file can have** (below 2^64, in particular beyond 4 GiB):
what `receive_transfer_offset` returns is the number `_initialize_download` sent, it takes exactly the 8 bytes from the
stream (whatever follows stays), and with fewer than 8 bytes delivered it keeps waiting (any segmentation). -/
theorem C04_wire_offset_exact (off : Nat) (rest : Bytes) (h : off < 2 ^ 64) :
    Wire.recvOffset (Wire.sendOffset off ++ rest) = some (off, rest) ∧
    ∀ s : Bytes, s.length < 8 → Wire.recvOffset s = none := by
  -- what the code says now (regenerated): all 8 bytes are taken from the stream, all 8 make up the number
  have hr : AioslskVerif.Generated.XferWire.offsetReadBytes = 8 := by decide
  have hd : AioslskVerif.Generated.XferWire.offsetDecodeBytes = 8 := by decide
  unfold Wire.recvOffset
  rw [hr, hd]
  exact ⟨Wire.recvValue_send 8 off rest (by omega), fun s hs => Wire.recvValue_wait 8 8 s hs⟩

/-- … and the ticket (below 2^32: `uint32(ticket).serialize()` raises for more). -/
theorem C04_wire_ticket_exact (t : Nat) (rest : Bytes) (h : t < 2 ^ 32) :
    Wire.recvTicket (Wire.sendTicket t ++ rest) = some (t, rest) ∧
    ∀ s : Bytes, s.length < 4 → Wire.recvTicket s = none := by
  have hr : AioslskVerif.Generated.XferWire.ticketReadBytes = 4 := by decide
  have hd : AioslskVerif.Generated.XferWire.ticketDecodeBytes = 4 := by decide
  unfold Wire.recvTicket
  rw [hr, hd]
  exact ⟨Wire.recvValue_send 4 t rest (by omega), fun s hs => Wire.recvValue_wait 4 4 s hs⟩

/-- **All 8 bytes are needed**: a receiver that takes the 8 bytes but makes its number of fewer of them (a helper
shared with the 4-byte ticket …) gets `offset mod 256^d` — for every such `d` there is an offset a real file can
have that arrives as another number (d = 4: every resume at or beyond 4 GiB). -/
theorem C04_wire_offset_all_bytes_needed (d : Nat) (hd : d < 8) :
    (∀ off rest, Wire.recvValue 8 d (Wire.sendOffset off ++ rest) = some (off % 256 ^ d, rest)) ∧
    ∃ off, off < 2 ^ 64 ∧ Wire.recvValue 8 d (Wire.sendOffset off) ≠ some (off, []) := by
  refine ⟨fun off rest => Wire.recvValue_narrow 8 d off rest (by omega), 256 ^ d, ?_, ?_⟩
  · calc 256 ^ d ≤ 256 ^ 7 := Nat.pow_le_pow_right (by omega) (by omega)
      _ < 2 ^ 64 := by decide
  · have h := Wire.recvValue_narrow 8 d (256 ^ d) [] (by omega)
    rw [List.append_nil] at h
    show Wire.recvValue 8 d (Wire.leBytes 8 (256 ^ d)) ≠ some (256 ^ d, [])
    rw [h, Nat.mod_self]
    intro hc
    have hp : 0 < 256 ^ d := Nat.pow_pos (by omega)
    simp only [Option.some.injEq, Prod.mk.injEq, and_true] at hc
    omega

/-- **Resume offset, end to end.** In every state in which an attempt can start, with a local file of any size below
2^64: the 8 bytes the downloader writes are read by the uploader as exactly the size of the local file, and that is
where the uploader seeks to (`bytes_transfered = offset`, `handle.seek(offset)`) — by `C04_upload_complete` what it then
sends to completion is `F` from there on, by `C04_resume_offset` exactly what the downloader is missing. -/
theorem C04_resume_offset_wire (d : Dl) (a : Nat) (lim : Bool) (hb : canBegin d = true)
    (hlt : d.loc.length < 2 ^ 64) (F : Bytes) (u : Ul) (ulim : Bool)
    (hu : (u.st = .queued ∨ u.st = .failed ∨ u.st = .complete) ∧ u.notifying = false) :
    ∃ off, Wire.recvOffset (Wire.sendOffset (step d (.begin a lim)).offset) = some (off, []) ∧
      off = d.loc.length ∧
      (ustep F u (.begin off ulim)).offset = d.loc.length ∧ (ustep F u (.begin off ulim)).pos = d.loc.length ∧
      (ustep F u (.begin off ulim)).st = .sending := by
  have ho := (C04_resume_offset_any_counter d a lim hb).1
  refine ⟨d.loc.length, ?_, rfl, ?_⟩
  · rw [ho]
    have := (C04_wire_offset_exact d.loc.length [] hlt).1
    rwa [List.append_nil] at this
  · simp only [ustep]; rw [if_pos hu]; exact ⟨rfl, rfl, rfl⟩

/-! ## A failed upload and what the downloader is told -/

/-- **FAILED first, then the message**: in every history of attempts, faults, re-requests and notification outcomes —
while `PeerUploadFailed` is being sent (it may take long: a new peer connection; it may fail) the upload has already
left UPLOADING (it is FAILED, or QUEUED again because the downloader re-requested it meanwhile), and an upload that is
sending / waiting for the close has no notification under way. So a re-request that arrives during the send is not
ignored, and an exception out of the send cannot leave the upload UPLOADING. -/
theorem C04_upload_failed_before_told (F : Bytes) (ops : List UOp) :
    ((urun F (Ul.init F) ops).notifying = true →
      (urun F (Ul.init F) ops).st = .failed ∨ (urun F (Ul.init F) ops).st = .queued) ∧
    ((urun F (Ul.init F) ops).st = .sending ∨ (urun F (Ul.init F) ops).st = .awaitEof →
      (urun F (Ul.init F) ops).notifying = false) :=
  let h := ninv_run F ops _ (ninv_init F)
  ⟨h.off, h.run⟩

/-- **What a network error does to a running upload**, whatever becomes of the message: a write error while sending and
a read error while waiting for the close give FAILED at once; when the message got out the upload stays FAILED and one
more `PeerUploadFailed` is on its way; when it could not be sent (no connection / the write failed) the upload is
QUEUED again — never COMPLETE, never left UPLOADING. -/
theorem C04_upload_fault_outcome (F : Bytes) (u : Ul) :
    (u.st = .sending → (ustep F u .werr).st = .failed ∧ (ustep F u .werr).notifying = true) ∧
    (u.st = .awaitEof → (ustep F u .rerr).st = .failed ∧ (ustep F u .rerr).notifying = true) ∧
    (u.notifying = true → u.st = .failed →
      (ustep F u .told).st = .failed ∧ (ustep F u .told).puf = u.puf + 1 ∧ (ustep F u .told).notifying = false ∧
      (ustep F u .untold).st = .queued ∧ (ustep F u .untold).puf = u.puf ∧ (ustep F u .untold).notifying = false) := by
  refine ⟨fun h => ?_, fun h => ?_, fun hn hf => ?_⟩
  · simp [ustep, h]
  · simp [ustep, h]
  · simp [ustep, hn, hf]

/-! ## The retry control plane (`FileXfer.Ctl`): "once faults stop, the pair finishes without user action"

Full statement: *after ANY history of attempts, resets (seen by the two ends in either order, any time apart),
time-outs of the hand-shake, message deliveries in any interleaving with the file-connection events, `pause()` /
`queue()`: when no further reset happens and nobody calls the API, every fair continuation ends with the download
COMPLETE (or waiting for the user because the USER paused / aborted it).* Proved below: (a) the invariant that makes
this possible — no re-queue request is ever lost (`C04_pair_no_requeue_lost`), over all op lists; (b) from every
reachable state in which nothing is in flight and no attempt is under way, ONE round of cycles, deliveries and a
fault-free attempt (whose data plane is `C04_progress`) completes both transfers (`C04_pair_progress_partial`).
Missing for the full statement: (c) that every fair fault-free continuation reaches such a quiescent state (a
termination argument over the messages and time-outs still pending) — exercised on the real pair (3600 virtual
seconds after the last fault) and by running the model's canonical continuation from every sampled real state, not
proved. Outside the alphabet: a downloader that gives up by its own 180 s read time-out closes the connection in an
orderly way; if its re-queue request overtakes that close the uploader ignores the one and takes the other for the
end of a complete upload — the protocol has no message that repairs this (remark in the report). -/

/-- **No re-queue request is lost.** In every state the pair can reach — any interleaving of management cycles,
message deliveries (FIFO per direction), hand-shake failures, resets learnt by either end first, control writes that
fail (`PeerUploadFailed` that cannot be delivered, a queue request or a reply that cannot be written), user actions —: a
download that is waiting for the uploader (`remotely_queued`, QUEUED or INCOMPLETE) is right to wait: the uploader
holds its request (QUEUED / being initialized / uploading) or will once the messages on their way to it have
arrived, or a `PeerUploadFailed` that ends the waiting is on its way; and a running download never has the flag.
(Before fixes/C04-upload-eof-wait-read-error.patch `uLearn` in the EOF wait ended COMPLETE without a message: the
invariant failed and the pair stayed INCOMPLETE / COMPLETE for ever — the witness case of `props/c04.py`. Before
fixes/C04-upload-failed-undelivered.patch `uLearnMute` left the upload FAILED with nothing in flight: the invariant
failed in the same way — second witness case.) -/
theorem C04_pair_no_requeue_lost (ops : List Ctl.Op) :
    Ctl.invB (Ctl.run Ctl.S.init ops) = true ∧
    (Ctl.retryable (Ctl.run Ctl.S.init ops).d = true → (Ctl.run Ctl.S.init ops).rq = true →
      Ctl.settleU (Ctl.uHolds (Ctl.run Ctl.S.init ops).u) (Ctl.run Ctl.S.init ops).toU = true ∨
      Ctl.ToD.puf ∈ (Ctl.run Ctl.S.init ops).toD) := by
  have h := Ctl.inv_run ops _ ((Ctl.invB_iff _).mp Ctl.inv_init)
  exact ⟨(Ctl.invB_iff _).mpr h, h.held⟩

/-- **Progress over attempts (partial: from quiescence).** After ANY history, in a state where nothing is in flight
and no attempt is under way, a download that is QUEUED or INCOMPLETE is finished by one fault-free round — the
downloader's cycle (re-)queues it remotely unless the uploader already holds it, the uploader's cycle offers it, the
reply, the file connection, the attempt — with no user action: both transfers COMPLETE, nothing left in flight. -/
theorem C04_pair_progress_partial (ops : List Ctl.Op)
    (hq : Ctl.quiescent (Ctl.run Ctl.S.init ops) = true)
    (hr : Ctl.retryable (Ctl.run Ctl.S.init ops).d = true) :
    (Ctl.run (Ctl.run Ctl.S.init ops) Ctl.round).d = .complete ∧
    (Ctl.run (Ctl.run Ctl.S.init ops) Ctl.round).u = .complete ∧
    Ctl.quiescent (Ctl.run (Ctl.run Ctl.S.init ops) Ctl.round) = true :=
  Ctl.round_completes _ (Ctl.inv_run ops _ ((Ctl.invB_iff _).mp Ctl.inv_init)) hq hr

/-- **Every way the uploader can learn of a break leaves the downloader a way forward**: `PeerUploadFailed` is on its
way (the upload FAILED: a re-request re-queues it), or — it could not be delivered — the upload is back in the queue
and will be offered again. -/
theorem C04_pair_upload_fault_way_forward (s : Ctl.S) (h : s.u = .uploading ∨ s.u = .eofWait) :
    (Ctl.step s .uLearn).u = .failed ∧ Ctl.ToD.puf ∈ (Ctl.step s .uLearn).toD ∧
    Ctl.uHolds (Ctl.step s .uLearnMute).u = true ∧ (Ctl.step s .uLearnMute).toD = s.toD := by
  simp only [Ctl.step, h, if_true]
  simp [Ctl.uHolds]

/-! the witness schedule: all bytes written, the reset reaches the downloader first, its re-queue request is
ignored by the uploader that still waits for the close; then the uploader learns of the reset — FAILED +
PeerUploadFailed, the flag is cleared, the next round finishes the transfer -/
example : (Ctl.run Ctl.S.init [.dCycle, .uRecv, .uCycle, .dRecv, .uRecv, .fUp, .uWroteAll,
      .dLearn, .dCycle, .uRecv, .uLearn]).d = .incomplete ∧
    (Ctl.run Ctl.S.init [.dCycle, .uRecv, .uCycle, .dRecv, .uRecv, .fUp, .uWroteAll,
      .dLearn, .dCycle, .uRecv, .uLearn]).rq = true ∧
    (Ctl.run Ctl.S.init [.dCycle, .uRecv, .uCycle, .dRecv, .uRecv, .fUp, .uWroteAll,
      .dLearn, .dCycle, .uRecv, .uLearn]).u = .failed ∧
    (Ctl.run Ctl.S.init [.dCycle, .uRecv, .uCycle, .dRecv, .uRecv, .fUp, .uWroteAll,
      .dLearn, .dCycle, .uRecv, .uLearn]).toD = [.puf] := by decide
example : Ctl.quiescent (Ctl.run Ctl.S.init [.dCycle, .uRecv, .uCycle, .dRecv, .uRecv, .fUp, .uWroteAll,
      .dLearn, .dCycle, .uRecv, .uLearn, .dRecv]) = true ∧
    Ctl.retryable (Ctl.run Ctl.S.init [.dCycle, .uRecv, .uCycle, .dRecv, .uRecv, .fUp, .uWroteAll,
      .dLearn, .dCycle, .uRecv, .uLearn, .dRecv]).d = true := by decide

/-! the second witness schedule: as above, but `PeerUploadFailed` cannot be delivered (the peer connection broke
together with the file connection): the upload is QUEUED again, the state is quiescent, one round finishes -/
example : (Ctl.run Ctl.S.init [.dCycle, .uRecv, .uCycle, .dRecv, .uRecv, .fUp,
      .dLearn, .dCycle, .uRecv, .uLearnMute]).d = .incomplete ∧
    (Ctl.run Ctl.S.init [.dCycle, .uRecv, .uCycle, .dRecv, .uRecv, .fUp,
      .dLearn, .dCycle, .uRecv, .uLearnMute]).rq = true ∧
    (Ctl.run Ctl.S.init [.dCycle, .uRecv, .uCycle, .dRecv, .uRecv, .fUp,
      .dLearn, .dCycle, .uRecv, .uLearnMute]).u = .queued ∧
    Ctl.quiescent (Ctl.run Ctl.S.init [.dCycle, .uRecv, .uCycle, .dRecv, .uRecv, .fUp,
      .dLearn, .dCycle, .uRecv, .uLearnMute]) = true := by decide
/-! a reply that cannot be written, a queue request that cannot be written -/
example : (Ctl.run Ctl.S.init [.dCycle, .uRecv, .uCycle, .dRecvFail]).d = .queued ∧
    (Ctl.run Ctl.S.init [.dCycle, .uRecv, .uCycle, .dRecvFail]).rq = false ∧
    (Ctl.run Ctl.S.init [.dCycle, .uRecv, .uCycle, .dRecvFail]).u = .initializing ∧
    (Ctl.run Ctl.S.init [.dCycle, .uRecv, .uCycle, .dRecv, .uRecv, .fUp, .dLearn, .dCycleFail]).d = .queued := by decide
/-! the wire: a resume at 4 GiB + 5 arrives as it was sent; read as a 4-byte number it would arrive as 5 -/
example : Wire.recvOffset (Wire.sendOffset (2 ^ 32 + 5)) = some (2 ^ 32 + 5, []) := by
  have h := (C04_wire_offset_exact (2 ^ 32 + 5) [] (by omega)).1
  rwa [List.append_nil] at h
example : Wire.recvValue 8 4 (Wire.sendOffset (2 ^ 32 + 5)) = some (5, []) := by
  have h := (C04_wire_offset_all_bytes_needed 4 (by omega)).1 (2 ^ 32 + 5) []
  rwa [List.append_nil] at h
/-! a write error, the message cannot be sent, the downloader asks again, the next attempt -/
example : (urun [1, 2, 3] (Ul.init [1, 2, 3]) [.begin 0 true, .werr]).st = .failed ∧
    (urun [1, 2, 3] (Ul.init [1, 2, 3]) [.begin 0 true, .werr, .untold]).st = .queued ∧
    (urun [1, 2, 3] (Ul.init [1, 2, 3]) [.begin 0 true, .werr, .requeue, .untold]).st = .queued ∧
    (urun [1, 2, 3] (Ul.init [1, 2, 3]) [.begin 0 true, .werr, .told]).puf = 1 ∧
    (urun [1, 2, 3] (Ul.init [1, 2, 3]) [.begin 0 true, .werr, .untold, .begin 0 true, .chunk, .chunk, .closed]).st
      = .complete := by decide

/-! Non-vacuity: the hypotheses are met by non-trivial reachable histories (a 5-byte file, a cut after 2
bytes, a resumed attempt; a dishonest sender; an upload resumed at offset 2). -/
example : Honest [1, 2, 3, 4, 5] (Dl.init [])
    [.begin 5 true, .seg [1, 2], .err, .begin 5 false, .seg [3], .seg [4, 5]] := by
  simp only [Honest]; decide
example : (run (Dl.init []) [.begin 5 true, .seg [1, 2], .err]).st = .incomplete ∧
    (run (Dl.init []) [.begin 5 true, .seg [1, 2], .err]).loc = [1, 2] := by decide
example : (run (Dl.init []) [.begin 5 true, .seg [1, 2], .err, .begin 5 false, .seg [3], .seg [4, 5]]).st
    = .complete := by decide
example : (run (Dl.init []) [.begin 3 false, .seg [9, 9, 9, 9]]).st = .failedCancelled := by decide
example : (run (Dl.init []) [.begin 0 false]).st = .complete := by decide
/-! `pause()` while a chunk is with the disk-write thread: on disk (4 bytes), not counted (2); `queue()`, resume -/
example : (run (Dl.init []) [.begin 5 false, .seg [1, 2], .pauseWrite [3, 4]]).st = .paused ∧
    (run (Dl.init []) [.begin 5 false, .seg [1, 2], .pauseWrite [3, 4]]).bt = 2 ∧
    (run (Dl.init []) [.begin 5 false, .seg [1, 2], .pauseWrite [3, 4]]).loc = [1, 2, 3, 4] := by decide
example : Honest [1, 2, 3, 4, 5] (Dl.init [])
    [.begin 5 false, .seg [1, 2], .pauseWrite [3, 4], .queue, .begin 5 true, .seg [5]] := by
  simp only [Honest]; decide
example : (run (Dl.init []) [.begin 5 false, .seg [1, 2], .pauseWrite [3, 4], .queue, .begin 5 true]).offset = 4 ∧
    (run (Dl.init []) [.begin 5 false, .seg [1, 2], .pauseWrite [3, 4], .queue, .begin 5 true, .seg [5]]).st
      = .complete := by decide
/-! cache saved after 1 byte, 2 more arrive, the client dies: counter 1, file 3 bytes (or, bytes lost with the
process: counter 1, file empty); the new instance resumes at the file size -/
example : (run (Dl.init []) [.begin 5 false, .seg [1], .save, .seg [2, 3], .crash 3]).st = .incomplete ∧
    (run (Dl.init []) [.begin 5 false, .seg [1], .save, .seg [2, 3], .crash 3]).bt = 1 ∧
    (run (Dl.init []) [.begin 5 false, .seg [1], .save, .seg [2, 3], .crash 3]).loc = [1, 2, 3] ∧
    (run (Dl.init []) [.begin 5 false, .seg [1], .save, .seg [2, 3], .crash 0]).loc = [] ∧
    (run (Dl.init []) [.begin 5 false, .seg [1], .save, .seg [2, 3], .crash 3, .begin 5 false]).offset = 3 := by
  decide
/-! the remote file grows from 3 to 5 bytes between the attempts; a read ends exactly at the old end -/
example : HonestV { Dl.init [] with remote := [1, 2, 3] }
      [.begin 3 false, .seg [1, 2], .err, .remote [1, 2, 3, 4, 5], .begin 5 false, .seg [3], .seg [4, 5]] ∧
    Grows { Dl.init [] with remote := [1, 2, 3] }
      [.begin 3 false, .seg [1, 2], .err, .remote [1, 2, 3, 4, 5], .begin 5 false, .seg [3], .seg [4, 5]] := by
  simp only [HonestV, Grows]; decide
example : (run { Dl.init [] with remote := [1, 2, 3] }
      [.begin 3 false, .seg [1, 2], .err, .remote [1, 2, 3, 4, 5], .begin 5 false, .seg [3]]).st = .downloading ∧
    (run { Dl.init [] with remote := [1, 2, 3] }
      [.begin 3 false, .seg [1, 2], .err, .remote [1, 2, 3, 4, 5], .begin 5 false, .seg [3], .seg [4, 5]]).loc
      = [1, 2, 3, 4, 5] := by decide
/-! the remote file shrank below what the downloader holds: never COMPLETE -/
example : (run { Dl.init [] with remote := [1, 2, 3] }
      [.begin 3 false, .seg [1, 2], .err, .remote [1], .begin 1 false]).st = .failedCancelled := by decide
example : (urun [1, 2, 3, 4, 5] (Ul.init [1, 2, 3, 4, 5]) [.begin 2 true, .chunk, .chunk, .closed]).st
    = .complete := by decide
example : (urun [1, 2, 3] (Ul.init [1, 2, 3]) [.begin 3 true, .chunk, .closed]).st = .complete := by decide

end AioslskVerif.C04
