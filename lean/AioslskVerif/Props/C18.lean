import AioslskVerif.Proofs.SearchReport
/-!
# C18 — search results reach only live requests; removal and timeouts are exact

Property theorems only (model: `Model/Search.lean`, helpers: `Proofs/Search.lean`).  The model is of the code
with `fixes/C18-remove-request-cancels-timer.patch`, `fixes/C18-timer-unset-task.patch` and
`fixes/C02-wishlist-interval.patch` applied.

A *history* is any `List Op` run from `init cfg`: searches of the three kinds, `WishlistInterval` messages (which
start wishlist rounds), server closing, `remove_request`, search replies with any ticket, `Timer.cancel` /
`Timer.reschedule` on a registered request, clock jumps of any size (the loop was busy), loop runs (`settle`),
SINGLE loop iterations (`tick`), and — round 4 — the environment of a request's set-up: `gate` (from now on
`send_server_messages` suspends / does not), `sendDone tk ok` (the suspended send of the set-up with ticket `tk`
returns / raises), `cancelCall tk` (the caller suspended in `search*` is cancelled), and — round 6 — the loss of the
server session and the re-login (`sessionDestroyed`, `sessionInitialized`), at any point of a history.  `sleepOps d` is the op list of
`asyncio.sleep(d)`, `stopOps` that of `stop()`.  All interleavings of these at one instant — including "in the loop
iteration after the sleep of a timer was over, before its task was resumed" and "while the request is between its
ticket draw and its registration" — are just different op lists; every theorem below is about all of them.

`NoWrap s` (`initial + draws ≤ 2³²−1`) says that the ticket generator has not wrapped: the property is claimed for
tickets drawn fewer than 2³²−1 draws apart (`C18_ticket_window` is the statement about the generator itself,
`C18_tickets_distinct` the consequence for the registry).
-/
namespace AioslskVerif.C18
open AioslskVerif.Search AioslskVerif.Generated.Search

/-- **Results iff live.** In *any* state a reply with ticket `tk` produces a `SearchResultEvent` iff a request
with that ticket is registered, and the event is for exactly that request and ticket. -/
theorem C18_result_iff_live (s : State) (tk : Nat) :
    ((∃ x, x ∈ (step s (.reply tk)).2) ↔ ∃ r ∈ s.requests, r.ticket = tk) ∧
    ∀ x ∈ (step s (.reply tk)).2, ∃ r ∈ s.requests, r.ticket = tk ∧ x = .result s.now r.rid tk := by
  simp only [step]
  cases hl : lookup s tk with
  | none =>
    refine ⟨⟨?_, ?_⟩, fun x hx => by cases hx⟩
    · intro h; obtain ⟨x, hx⟩ := h; cases hx
    · intro h; obtain ⟨r, hr, h⟩ := h; exact absurd h (lookup_none hl r hr)
  | some r =>
    obtain ⟨hr, htk⟩ := lookup_some hl
    refine ⟨⟨fun _ => ⟨r, hr, htk⟩, fun _ => ⟨_, List.mem_singleton.2 rfl⟩⟩, ?_⟩
    intro x hx
    exact ⟨r, hr, htk, by simpa using hx⟩

/-- …and nothing but a reply for a registered ticket ever produces a `SearchResultEvent`. -/
theorem C18_result_only_for_reply (cfg : Cfg) (ops : List Op) (op : Op)
    (hw : NoWrap (step (run (init cfg) ops).1 op).1) (t rid tk : Nat)
    (hx : Obs.result t rid tk ∈ (step (run (init cfg) ops).1 op).2) :
    op = .reply tk ∧ ∃ r ∈ (run (init cfg) ops).1.requests, r.rid = rid ∧ r.ticket = tk := by
  have hi := reach_inv cfg ops (noWrap_of_step _ _ hw)
  have := step_obs op hi hw _ hx
  exact ⟨this.1, this.2.2⟩

/-- **The generator.** Two tickets drawn fewer than 2³²−1 draws apart differ (constants regenerated from
utils.py: the theorem is re-checked against `ticket_generator` as it is now). -/
theorem C18_ticket_window (i j : Nat) (hij : i < j) (hd : j - i < maxTicket) :
    ticketAt defaultInitial i ≠ ticketAt defaultInitial j := by
  rw [ticketAt_default, ticketAt_default]
  have hm : maxTicket = 4294967295 := rfl
  rw [hm] at hd ⊢
  omega

/-- **Tickets in range**: every ticket ever drawn is in `1 … 2³²−1` (non-zero, fits `uint32`), also after the
generator wrapped; and without a wrap every registered request carries such a ticket. -/
theorem C18_tickets_in_range :
    (∀ n, 1 ≤ ticketAt defaultInitial n ∧ ticketAt defaultInitial n ≤ maxTicket ∧ maxTicket < 2 ^ 32) ∧
    (∀ (cfg : Cfg) (ops : List Op), 1 ≤ cfg.initial → NoWrap (run (init cfg) ops).1 →
      ∀ r ∈ (run (init cfg) ops).1.requests, 1 ≤ r.ticket ∧ r.ticket ≤ maxTicket) := by
  constructor
  · intro n
    rw [ticketAt_default]
    have hm : maxTicket = 4294967295 := rfl
    rw [hm]
    omega
  · intro cfg ops h1 hw r hr
    have hi := reach_inv cfg ops hw
    have := hi.req_tk r hr
    have hc : (run (init cfg) ops).1.cfg = cfg := by
      have := run_ind (P := fun s _ => s.cfg = cfg) (G := fun _ => True) (fun _ _ _ => trivial)
        (fun s _ op h _ => by rw [step_cfg]; exact h) ops (init cfg) [] rfl trivial
      exact this
    unfold NoWrap at hw
    rw [hc] at this hw
    omega

/-- **Distinct tickets.** In every history without a generator wrap the registered requests have pairwise
distinct tickets, and no registration ever replaced a live request (`clobber` is the model's ghost event for
`self.requests[ticket] = request` hitting an existing key). -/
theorem C18_tickets_distinct (cfg : Cfg) (ops : List Op) (hw : NoWrap (run (init cfg) ops).1) :
    (∀ r1 ∈ (run (init cfg) ops).1.requests, ∀ r2 ∈ (run (init cfg) ops).1.requests,
        r1.ticket = r2.ticket → r1 = r2) ∧
    ∀ a b, Obs.clobber a b ∉ (run (init cfg) ops).2 := by
  refine ⟨(reach_inv cfg ops hw).ticket_inj, ?_⟩
  intro a b hx
  exact (reach_obs cfg ops hw _ hx).2 a b rfl

/-- **Superseded timers never fire.** Whenever a timer callback runs (it reports a removal, or would raise) — in a
loop run or in a single loop iteration —, the task that runs it is un-cancelled, is *at that moment* the handle
`Timer._task` of a registered request, and that request is the one removed. `Timer.cancel` clears the handle and `Timer.reschedule` replaces it by a fresh task
(`C18_rearm_supersedes`), so a cancelled or re-armed timer cannot fire for the old deadline. -/
theorem C18_superseded_never_fires (cfg : Cfg) (ops : List Op) (op : Op)
    (hw : NoWrap (step (run (init cfg) ops).1 op).1) (t rid tk dl tid : Nat)
    (hx : Obs.removed t rid tk dl tid ∈ (step (run (init cfg) ops).1 op).2) :
    (op = .settle ∨ op = .tick) ∧
    (∃ task ∈ (run (init cfg) ops).1.tasks, task.id = tid ∧ task.rid = rid ∧ task.cancelled = false) ∧
    ∃ r ∈ (run (init cfg) ops).1.requests, r.rid = rid ∧ r.ticket = tk ∧ r.handle = some tid := by
  have hi := reach_inv cfg ops (noWrap_of_step _ _ hw)
  obtain ⟨h1, _, _, ⟨task, ht, k1, k2, k3, _⟩, h5⟩ := step_obs op hi hw _ hx
  exact ⟨h1, ⟨task, ht, k1, k2, k3⟩, h5⟩

/-- `reschedule` on a registered request: the old task (if any) is marked cancelled, the handle becomes a task id
that did not exist before, and exactly one new pending task carries it. -/
theorem C18_rearm_supersedes (cfg : Cfg) (ops : List Op) (tk n : Nat) (r : Req)
    (hw : NoWrap (run (init cfg) ops).1)
    (hl : lookup (run (init cfg) ops).1 tk = some r) (hto : r.timeout ≠ none) :
    let s := (run (init cfg) ops).1
    let s' := (step s (.timerReschedule tk n)).1
    (∀ old, r.handle = some old → ∀ t ∈ s'.tasks, t.id = old → t.cancelled = true) ∧
    (∀ t ∈ s.tasks, t.id ≠ s.nextTask) ∧
    (∃ r' ∈ s'.requests, r'.rid = r.rid ∧ r'.ticket = tk ∧ r'.handle = some s.nextTask ∧ r'.timeout = some n) ∧
    (∃ t ∈ s'.tasks, t.id = s.nextTask ∧ t.cancelled = false ∧ t.deadline = none ∧ t.timeout = n) := by
  intro s s'
  have hi : SInv s := reach_inv cfg ops hw
  obtain ⟨hr, htk⟩ := lookup_some hl
  obtain ⟨T, hT⟩ := Option.ne_none_iff_exists'.1 hto
  have hs' : s' = timerStart { (timerCancel s r.rid r.handle) with
      requests := setTimeout (timerCancel s r.rid r.handle).requests r.rid n } r.rid r.ticket n := by
    have hl' : lookup s tk = some r := hl
    show (step s (.timerReschedule tk n)).1 = _
    simp only [step, hl', hT]
  refine ⟨?_, ?_, ?_, ?_⟩
  · intro old hold t ht hid
    rw [hs', hold, timerCancel_some] at ht
    simp only [timerStart] at ht
    rcases List.mem_append.1 ht with ht | ht
    · obtain ⟨t0, _, rfl⟩ := List.mem_map.1 ht
      rw [markCancelled_cancelled]
      simp at hid; simp [hid]
    · simp at ht; subst ht
      simp at hid
      obtain ⟨t1, ht1, k1, _⟩ := hi.handle_task r hr old hold
      have := hi.task_id t1 ht1
      cases hh : r.handle <;> simp_all [timerCancel] <;> omega
  · intro t ht heq
    have := hi.task_id t ht
    omega
  · have hin := inv_reschedule hi.inv tk n
    rw [hs']
    refine ⟨{ r with handle := some s.nextTask, timeout := some n }, ?_, rfl, htk, ?_, rfl⟩
    · cases hh : r.handle with
      | none =>
        simp only [timerCancel, timerStart, setTimeout, setHandle, List.map_map]
        exact List.mem_map.2 ⟨r, hr, by simp⟩
      | some id =>
        simp only [timerCancel_some, timerStart, setTimeout, setHandle, List.map_map]
        exact List.mem_map.2 ⟨r, hr, by simp⟩
    · cases hh : r.handle <;> rfl
  · rw [hs']
    refine ⟨_, List.mem_append.2 (.inr (List.mem_singleton.2 rfl)), ?_, rfl, rfl, rfl⟩
    cases hh : r.handle <;> rfl

/-- **No error reaches the loop's exception handler**: in every history without a generator wrap no timer task
raises (`loopErr` is `KeyError` in `_timeout_search_request`). -/
theorem C18_no_loop_error (cfg : Cfg) (ops : List Op) (hw : NoWrap (run (init cfg) ops).1) :
    ∀ t rid tk tid, Obs.loopErr t rid tk tid ∉ (run (init cfg) ops).2 := by
  intro t rid tk tid hx
  exact (reach_obs cfg ops hw _ hx).1 t rid tk tid rfl

/-- **A request removed by the user is silent.** After a successful `remove_request(tk)` no later observation
of any continuation — result, timeout removal, error, re-announcement — concerns that request. -/
theorem C18_removed_silent (cfg : Cfg) (ops later : List Op) (tk : Nat) (r : Req)
    (hl : lookup (run (init cfg) ops).1 tk = some r)
    (hw : NoWrap (run (step (run (init cfg) ops).1 (.remove tk)).1 later).1) :
    (step (run (init cfg) ops).1 (.remove tk)).2 = [] ∧
    (∀ q ∈ (step (run (init cfg) ops).1 (.remove tk)).1.requests, q.rid ≠ r.rid ∧ q.ticket ≠ tk) ∧
    ∀ x ∈ (run (step (run (init cfg) ops).1 (.remove tk)).1 later).2, obsRid x ≠ some r.rid := by
  have hw1 : NoWrap (step (run (init cfg) ops).1 (.remove tk)).1 := by
    -- NoWrap is inherited backwards along a run
    generalize (step (run (init cfg) ops).1 (.remove tk)).1 = s1 at hw
    induction later generalizing s1 with
    | nil => simpa [run_nil] using hw
    | cons op rest ih => rw [run_cons] at hw; exact noWrap_of_step _ _ (ih _ hw)
  have hi := reach_inv cfg ops (noWrap_of_step _ _ hw1)
  have hg := gone_after_remove hi hl
  have hi1 := sinv_step (.remove tk) hi hw1
  refine ⟨by simp [step, hl], ?_, gone_run later _ hi1 hw hg⟩
  intro q hq
  refine ⟨hg.2.1 q hq, ?_⟩
  intro hqt
  -- a registered request with ticket `tk` would have the rid of `r`
  have h1 := hi1.req_tk q hq
  have h2 := hi.req_tk r (lookup_some hl).1
  have hc : (step (run (init cfg) ops).1 (.remove tk)).1.cfg = (run (init cfg) ops).1.cfg := step_cfg _ _
  rw [hc] at h1
  have := (lookup_some hl).2
  exact hg.2.1 q hq (by omega)

/-- **Timeout: exactly once, not before, not late, on the dot.**
1. the removals reported in a history are for pairwise different requests (at most once each);
2. a removal is reported only by a loop run / a loop iteration at a time `t` with `deadline ≤ t`, where `deadline` is the one of the
   task that currently is the Timer's handle (`C18_superseded_never_fires`), and the request is then gone for good
   (`Gone`: not registered in the resulting state; by `gone_run` nothing later concerns it);
3. after every loop run, whatever is still pending is un-cancelled, started and due strictly later — no request
   whose timeout has passed is still waiting (from *any* state);
4. while time only passes through `asyncio.sleep` (`sleepOps`) from a state with nothing overdue, every
   removal is reported at exactly its deadline (from *any* such state). -/
theorem C18_timeout_exact_once :
    (∀ (cfg : Cfg) (ops : List Op), NoWrap (run (init cfg) ops).1 →
      ((run (init cfg) ops).2.filterMap removedRid).Nodup) ∧
    (∀ (cfg : Cfg) (ops : List Op) (op : Op), NoWrap (step (run (init cfg) ops).1 op).1 →
      ∀ t rid tk dl tid, Obs.removed t rid tk dl tid ∈ (step (run (init cfg) ops).1 op).2 →
        (op = .settle ∨ op = .tick) ∧ t = (run (init cfg) ops).1.now ∧ dl ≤ t ∧
          Gone rid (step (run (init cfg) ops).1 op).1) ∧
    (∀ s : State, Ahead (step s .settle).1) ∧
    (∀ (s : State) (d : Nat), OnTime s →
      (∀ t rid tk dl tid, Obs.removed t rid tk dl tid ∈ (run s (sleepOps d)).2 → t = dl) ∧
      Ahead (run s (sleepOps d)).1) := by
  refine ⟨removed_once, ?_, settle_ahead, fun s d h => sleep_exact d h⟩
  intro cfg ops op hw t rid tk dl tid hx
  have hi := reach_inv cfg ops (noWrap_of_step _ _ hw)
  have hok := step_obs op hi hw _ hx
  obtain ⟨hop, ht, hdl, _, _⟩ := hok
  exact ⟨hop, ht, by omega, gone_after_timeout op hi hw hx⟩

/-- `OnTime` is not an empty hypothesis: the initial state has it, every op that is not a clock jump keeps it,
and `sleepOps` re-establishes it after its one-second jumps (part 4 above). -/
theorem C18_onTime_init (cfg : Cfg) : OnTime (init cfg) := by
  intro t ht; cases ht

/-! ### The removal is reported to every listener exactly once

`nstep` (Model/Search.lean) keeps the timer task alive while `EventBus.emit(SearchRequestRemovedEvent)` hands the
event from listener to listener: `NOp.resume rid` lets the listener that currently holds the report for request
`rid` return, every `Op` may happen in between (`NOp.base`), `n` listeners are registered.  A *history* is any
`List NOp` run from `ninit cfg n`. -/

/-- **The task that reports a removal is never cancelled.** In every history no report is aborted (`aborted` =
`CancelledError` inside `emit`: the suspended listener is torn down and the listeners after it are never called):
`remove_request`, `Timer.cancel`, `Timer.reschedule` and `stop()` (`stopOps`) reach a Timer only through the
registry, and the request whose removal is being reported is not in it any more (`del` before `emit`). -/
theorem C18_report_never_aborted (cfg : Cfg) (n : Nat) (ops : List NOp)
    (hw : NoWrap (nrun (ninit cfg n) ops).1.base) :
    (∀ t rid tk i, NObs.aborted t rid tk i ∉ (nrun (ninit cfg n) ops).2) ∧
    ∀ e ∈ (nrun (ninit cfg n) ops).1.reporting, e.cancelled = false := by
  have h := reach_ninv cfg n ops hw
  exact ⟨h.no_abort, fun e he => (h.rep_ok e he).1⟩

/-- `cancelTarget` is exactly what `step` cancels among the pending tasks: the named task is marked cancelled,
and a task that becomes cancelled in a step is the named one. -/
theorem C18_cancel_target_exact (cfg : Cfg) (ops : List Op) (op : Op) (hw : NoWrap (run (init cfg) ops).1) :
    (∀ id, cancelTarget (run (init cfg) ops).1 op = some id →
      (∃ t ∈ (run (init cfg) ops).1.tasks, t.id = id ∧ t.cancelled = false) ∧
      ∀ t ∈ (step (run (init cfg) ops).1 op).1.tasks, t.id = id → t.cancelled = true) ∧
    ∀ t ∈ (step (run (init cfg) ops).1 op).1.tasks, t.cancelled = true →
      (∃ t0 ∈ (run (init cfg) ops).1.tasks, t0.id = t.id ∧ t0.cancelled = true) ∨
        cancelTarget (run (init cfg) ops).1 op = some t.id := by
  have hi := reach_inv cfg ops hw
  exact ⟨fun id hc => ⟨cancelTarget_task hi hc, cancelTarget_marks hi hc⟩, cancelTarget_complete _ op⟩

/-- **At most once, only what happened, in order.** In every history: no listener is told twice of the same removal
(the `(request, listener)` pairs of the `told` observations are pairwise different); a listener that is told exists
(`i < n`), the removal it is told of was reported by a timer (`removed`, so `C18_timeout_exact_once` and
`C18_superseded_never_fires` apply to it), and all listeners registered before it have been told before. -/
theorem C18_removal_told_at_most_once (cfg : Cfg) (n : Nat) (ops : List NOp)
    (hw : NoWrap (nrun (ninit cfg n) ops).1.base) :
    ((nrun (ninit cfg n) ops).2.filterMap toldKey).Nodup ∧
    ∀ t rid tk i, NObs.told t rid tk i ∈ (nrun (ninit cfg n) ops).2 →
      i < n ∧ (∃ t0 dl tid, NObs.base (.removed t0 rid tk dl tid) ∈ (nrun (ninit cfg n) ops).2) ∧
      ∀ j, j < i → ∃ t' tk', NObs.told t' rid tk' j ∈ (nrun (ninit cfg n) ops).2 := by
  have h := reach_ninv cfg n ops hw
  refine ⟨h.told_nodup, ?_⟩
  intro t rid tk i hx
  have hn : (nrun (ninit cfg n) ops).1.listeners = n := nrun_listeners _ _
  exact ⟨by have := (h.told_ok t rid tk i hx).1; omega, h.told_src t rid tk i hx, h.in_order t rid tk i hx⟩

/-- **Nothing is lost.** At every point of every history, for every removal reported so far and every registered
listener: the listener has been told, or the report is still running, un-cancelled, and has not reached that
listener yet. -/
theorem C18_removal_never_lost (cfg : Cfg) (n : Nat) (ops : List NOp)
    (hw : NoWrap (nrun (ninit cfg n) ops).1.base) :
    ∀ t rid tk dl tid, NObs.base (.removed t rid tk dl tid) ∈ (nrun (ninit cfg n) ops).2 → ∀ i, i < n →
      (∃ t' tk', NObs.told t' rid tk' i ∈ (nrun (ninit cfg n) ops).2) ∨
      ∃ e ∈ (nrun (ninit cfg n) ops).1.reporting, e.rid = rid ∧ e.told ≤ i ∧ e.cancelled = false := by
  have h := reach_ninv cfg n ops hw
  intro t rid tk dl tid hx i hi
  have hn : (nrun (ninit cfg n) ops).1.listeners = n := nrun_listeners _ _
  rcases h.complete t rid tk dl tid hx i (by omega) with h1 | ⟨e, he, h1, h2⟩
  · exact .inl h1
  · exact .inr ⟨e, he, h1, h2, (h.rep_ok e he).1⟩

/-- **Exactly once.** Take any history and let every listener that is still suspended return (`drainOps`: the
running reports are resumed to their end, nothing else happens).  Then no report is running any more and every
registered listener has been told of every removal reported in the history exactly once. -/
theorem C18_removal_told_each_listener_exactly_once (cfg : Cfg) (n : Nat) (ops : List NOp)
    (hw : NoWrap (nrun (ninit cfg n) ops).1.base) :
    let all := ops ++ drainOps (nrun (ninit cfg n) ops).1
    (nrun (ninit cfg n) all).1.reporting = [] ∧
    (nrun (ninit cfg n) all).1.base = (nrun (ninit cfg n) ops).1.base ∧
    ∀ t rid tk dl tid, NObs.base (.removed t rid tk dl tid) ∈ (nrun (ninit cfg n) all).2 → ∀ i, i < n →
      ((nrun (ninit cfg n) all).2.filterMap toldKey).count (rid, i) = 1 := by
  intro all
  have h := reach_ninv cfg n ops hw
  have hst : (nrun (ninit cfg n) all).1 = { (nrun (ninit cfg n) ops).1 with reporting := [] } := by
    show (nrun (ninit cfg n) (ops ++ _)).1 = _
    rw [nrun_append]
    exact drain_state h
  have hw' : NoWrap (nrun (ninit cfg n) all).1.base := by rw [hst]; exact hw
  have h' := reach_ninv cfg n all hw'
  refine ⟨by rw [hst], by rw [hst], ?_⟩
  intro t rid tk dl tid hx i hi
  have hn : (nrun (ninit cfg n) all).1.listeners = n := nrun_listeners _ _
  have hmem : (rid, i) ∈ (nrun (ninit cfg n) all).2.filterMap toldKey := by
    rcases h'.complete t rid tk dl tid hx i (by omega) with ⟨t', tk', h1⟩ | ⟨e, he, _⟩
    · exact List.mem_filterMap.2 ⟨_, h1, rfl⟩
    · rw [hst] at he; cases he
  have h1 := List.nodup_iff_count.1 h'.told_nodup (rid, i)
  have h2 := List.count_pos_iff.2 hmem
  omega

/-- One step of a running, un-cancelled report in *any* state: the next listener is called, or — after the last
one — `emit` returns and the report is over. -/
theorem C18_report_progress (s : NState) (e : Emission)
    (hf : s.reporting.find? (fun x => decide (x.rid = e.rid)) = some e) (hc : e.cancelled = false) :
    (e.told < s.listeners → (nstep s (.resume e.rid)).2 = [.told s.base.now e.rid e.ticket e.told]) ∧
    (¬ e.told < s.listeners → (nstep s (.resume e.rid)).2 = [.finished s.base.now e.rid e.ticket] ∧
      ∀ x ∈ (nstep s (.resume e.rid)).1.reporting, x.rid ≠ e.rid) := by
  constructor
  · intro hlt
    simp only [nstep, hf, hc]
    simp [hlt]
  · intro hge
    simp only [nstep, hf, hc]
    simp only [Bool.false_eq_true, if_false, hge]
    refine ⟨by first | rfl | trivial, ?_⟩
    intro x hx
    simpa using (List.mem_filter.1 hx).2

/-! ### Set-ups in progress; single loop iterations

`Op.gate true` makes `send_server_messages` suspend: `search*` and the wishlist job then stop between drawing the
ticket and registering the request (`State.pending`) until `Op.sendDone tk ok` (the network answers / the send
raises) or `Op.cancelCall tk` / a cancellation of the wishlist task, and the owner's next step (`Op.tick`, or a
`settle`).  `Op.tick` is ONE loop iteration: every theorem above is about histories in which any op may sit between
two single iterations of the loop — before the sleep of a timer is over, after it is over but before the task
has been resumed (`woken`), after the callback. -/

/-- **Registered only together with the announcement.** In every history every registered request has been
announced by a `SearchRequestSentEvent` — so a request is never visible in `SearchManager.requests` (and can never
receive a result, `C18_result_iff_live`) while, or although, nobody was told about it. -/
theorem C18_registered_announced (cfg : Cfg) (ops : List Op) (hw : NoWrap (run (init cfg) ops).1) :
    ∀ r ∈ (run (init cfg) ops).1.requests, ∃ t, Obs.sent t r.rid r.ticket ∈ (run (init cfg) ops).2 := by
  have := run_ind (P := fun s tr => SInv s ∧ ∀ r ∈ s.requests, ∃ t, Obs.sent t r.rid r.ticket ∈ tr) (G := NoWrap)
    noWrap_of_step
    (by
      intro s tr op ⟨hi, ht⟩ hw
      have hi' := sinv_step op hi hw
      refine ⟨hi', ?_⟩
      intro r' hr'
      have k' := hi'.req_tk r' hr'
      rw [step_cfg] at k'
      rcases told_step op hi hw r' hr' with ⟨r, hr, he⟩ | ⟨t, hx⟩
      · obtain ⟨t, hx⟩ := ht r hr
        have k := hi.req_tk r hr
        refine ⟨t, List.mem_append.2 (.inl ?_)⟩
        rw [← he, show r'.ticket = r.ticket by omega]; exact hx
      · exact ⟨t, List.mem_append.2 (.inr (by rw [k'.1]; exact hx))⟩)
    ops (init cfg) [] ⟨sinv_init cfg, by simp [init]⟩ hw
  simpa using this.2

/-- … hence results and timeout removals are only ever reported for requests that were announced before. -/
theorem C18_reported_only_if_announced (cfg : Cfg) (ops : List Op) (op : Op)
    (hw : NoWrap (step (run (init cfg) ops).1 op).1) :
    (∀ t rid tk, Obs.result t rid tk ∈ (step (run (init cfg) ops).1 op).2 →
      ∃ t0, Obs.sent t0 rid tk ∈ (run (init cfg) ops).2) ∧
    (∀ t rid tk dl tid, Obs.removed t rid tk dl tid ∈ (step (run (init cfg) ops).1 op).2 →
      ∃ t0, Obs.sent t0 rid tk ∈ (run (init cfg) ops).2) := by
  have hw0 := noWrap_of_step _ _ hw
  have hi := reach_inv cfg ops hw0
  have hann := C18_registered_announced cfg ops hw0
  constructor
  · intro t rid tk hx
    obtain ⟨_, _, r, hr, h1, h2⟩ := step_obs op hi hw _ hx
    obtain ⟨t0, h0⟩ := hann r hr
    exact ⟨t0, by rw [← h1, ← h2]; exact h0⟩
  · intro t rid tk dl tid hx
    obtain ⟨_, _, _, _, r, hr, h1, h2, _⟩ := step_obs op hi hw _ hx
    obtain ⟨t0, h0⟩ := hann r hr
    exact ⟨t0, by rw [← h1, ← h2]; exact h0⟩

/-- **A request that is being set up is not registered** (whatever its ticket is used for meanwhile: a reply with it
finds no request, `remove_request` raises `KeyError`), and its ticket is nobody else's. -/
theorem C18_setup_not_registered (cfg : Cfg) (ops : List Op) (hw : NoWrap (run (init cfg) ops).1) :
    (∀ p ∈ (run (init cfg) ops).1.pending, ∀ r ∈ (run (init cfg) ops).1.requests, r.rid ≠ p.rid ∧ r.ticket ≠ p.ticket) ∧
    ∀ p ∈ (run (init cfg) ops).1.pending, ∀ q ∈ (run (init cfg) ops).1.pending, p.ticket = q.ticket → p = q := by
  have hi := reach_inv cfg ops hw
  constructor
  · intro p hp r hr
    have h1 := hi.pinv.pend_fresh p hp r hr
    have h2 := hi.pinv.pend_tk p hp
    have h3 := hi.req_tk r hr
    exact ⟨h1, by omega⟩
  · intro p hp q hq he
    have h2 := hi.pinv.pend_tk p hp
    have h3 := hi.pinv.pend_tk q hq
    exact pairwise_setup_inj hi.pinv.pend_nodup p hp q hq (by omega)

/-- **A set-up that fails, or whose owner is cancelled, leaves nothing behind.** If the send of a set-up raised, or
its caller was cancelled while suspended in it (`outcome = some false`), then after the owner's next step — one
loop iteration, or a loop run — the request object does not exist anywhere: not registered, not pending, and no
observation of any continuation (sent, result, removal, error) ever concerns it. -/
theorem C18_failed_setup_leaves_nothing (cfg : Cfg) (ops later : List Op) (op : Op) (hop : op = .tick ∨ op = .settle)
    (p : Setup) (hp : p ∈ (run (init cfg) ops).1.pending) (ho : p.outcome = some false)
    (hw : NoWrap (run (step (run (init cfg) ops).1 op).1 later).1) :
    Gone p.rid (step (run (init cfg) ops).1 op).1 ∧
    ∀ x ∈ (run (step (run (init cfg) ops).1 op).1 later).2, obsRid x ≠ some p.rid := by
  have hw1 : NoWrap (step (run (init cfg) ops).1 op).1 := by
    generalize (step (run (init cfg) ops).1 op).1 = s1 at hw
    induction later generalizing s1 with
    | nil => simpa [run_nil] using hw
    | cons o rest ih => rw [run_cons] at hw; exact noWrap_of_step _ _ (ih _ hw)
  have hi := reach_inv cfg ops (noWrap_of_step _ _ hw1)
  have hg : Gone p.rid (step (run (init cfg) ops).1 op).1 := by
    rcases hop with rfl | rfl
    · exact tick_failed hi hw1 hp ho
    · exact settle_failed hi hw1 hp ho
  exact ⟨hg, gone_run later _ (sinv_step op hi hw1) hw hg⟩

/-- `Op.cancelCall tk` (the caller suspended in `search*` is cancelled) gives the set-up that outcome, whether or not
the network has answered meanwhile. -/
theorem C18_cancelled_call_fails (s : State) (tk : Nat) (p : Setup)
    (hf : s.pending.find? (fun p => p.ticket = tk && p.kind != .wishlist) = some p) :
    ∃ p' ∈ (step s (.cancelCall tk)).1.pending, p'.rid = p.rid ∧ p'.outcome = some false := by
  have hpm : p ∈ s.pending := List.mem_of_find?_eq_some hf
  simp only [step, hf, setOutcome]
  exact ⟨{ p with outcome := some false }, List.mem_map.2 ⟨p, hpm, by simp⟩, rfl, rfl⟩

/-- **Cancelling the wishlist task in the middle of a round leaves nothing behind** (a `WishlistInterval` message,
the server connection closing, `stop()` — `stopOps` ends with `serverClosing`): the request that was being set up
is gone at once and for good. -/
theorem C18_cancelled_round_leaves_nothing (cfg : Cfg) (ops later : List Op) (op : Op)
    (hop : (∃ n, op = .wlInterval n) ∨ op = .serverClosing)
    (p : Setup) (hp : p ∈ (run (init cfg) ops).1.pending) (hk : p.kind = .wishlist)
    (hw : NoWrap (run (step (run (init cfg) ops).1 op).1 later).1) :
    Gone p.rid (step (run (init cfg) ops).1 op).1 ∧
    ∀ x ∈ (run (step (run (init cfg) ops).1 op).1 later).2, obsRid x ≠ some p.rid := by
  have hw1 : NoWrap (step (run (init cfg) ops).1 op).1 := by
    generalize (step (run (init cfg) ops).1 op).1 = s1 at hw
    induction later generalizing s1 with
    | nil => simpa [run_nil] using hw
    | cons o rest ih => rw [run_cons] at hw; exact noWrap_of_step _ _ (ih _ hw)
  have hi := reach_inv cfg ops (noWrap_of_step _ _ hw1)
  have hc := cancelWishlist_gone hi hp hk
  have hg : Gone p.rid (step (run (init cfg) ops).1 op).1 := by
    rcases hop with ⟨n, rfl⟩ | rfl
    · exact hc
    · exact hc
  exact ⟨hg, gone_run later _ (sinv_step op hi hw1) hw hg⟩

/-- **A timer task runs its callback only in the iteration after its sleep was over, and only if nobody cancelled it
in between.** One loop iteration (`tick`) fires exactly the pending tasks that are woken and un-cancelled; a task is
woken only when its deadline has passed (`PInv.woken_due`), and `Timer.cancel` in any phase — created, sleeping,
woken — makes it end without the callback (`C18_superseded_never_fires`, `C18_cancel_target_exact`). -/
theorem C18_tick_fires_woken_only (cfg : Cfg) (ops : List Op) (hw : NoWrap (run (init cfg) ops).1)
    (t rid tk dl tid : Nat) (hx : Obs.removed t rid tk dl tid ∈ (tick (run (init cfg) ops).1).2) :
    ∃ task ∈ (run (init cfg) ops).1.tasks, task.id = tid ∧ task.rid = rid ∧ task.cancelled = false ∧
      task.woken = true ∧ ∃ d, task.deadline = some d ∧ d ≤ (run (init cfg) ops).1.now := by
  have hi := reach_inv cfg ops hw
  obtain ⟨t0, ht0, hf, _, hid, hrid⟩ := removed_mem_tick _ hx
  exact ⟨t0, ht0, hid, hrid, firesNow_cancelled hf, firesNow_woken hf, hi.pinv.woken_due t0 ht0 (firesNow_woken hf)⟩

/-- **A registered request has a Timer exactly when a timeout is in force for it** — whichever way it was set up
(atomically, or through a suspended send that returned later): `request_timeout > 0` for searches, room and user
searches; an own `wishlist_request_timeout > 0` for wishlist requests (with `wishlist_request_timeout < 0` the
server's interval is the timeout: `Search.wishlistTimeout`).  `Op.search .wishlist` is excluded: it is not an API call,
wishlist requests are made by the wishlist job only. -/
theorem C18_timer_iff_timeout_in_force (cfg : Cfg) (ops : List Op) (hw : NoWrap (run (init cfg) ops).1)
    (hs : ∀ op ∈ ops, op ≠ .search .wishlist) :
    ∀ r ∈ (run (init cfg) ops).1.requests,
      (r.kind ≠ .wishlist → (r.timeout ≠ none ↔ 0 < cfg.requestTimeout)) ∧
      (r.kind = .wishlist → 0 < cfg.wishlistTimeout → r.timeout ≠ none) := by
  have h := reach_allGood false ops (init cfg) (sinv_init cfg) (by intro r hr; simp [init] at hr) hw
    (fun hb => by cases hb) hs
  intro r hr
  have := h r hr
  rw [run_cfg] at this
  exact ⟨this.1, this.2.1⟩

/-- **… and that Timer is armed**, unless the user himself cancelled it (`Timer.cancel` through the registry;
`stop()` is a list of those): in every history without such a call, every registered request that has a Timer has
a pending, un-cancelled timer task as its handle — no request is ever left registered with a timeout in force and
nothing that will remove it (with `C18_registered_announced`: nor without having been announced). -/
theorem C18_armed_unless_cancelled (cfg : Cfg) (ops : List Op) (hw : NoWrap (run (init cfg) ops).1)
    (hs : ∀ op ∈ ops, op ≠ .search .wishlist) (hnc : ∀ op ∈ ops, ∀ tk, op ≠ .timerCancel tk) :
    ∀ r ∈ (run (init cfg) ops).1.requests, r.timeout ≠ none →
      ∃ t ∈ (run (init cfg) ops).1.tasks, r.handle = some t.id ∧ t.rid = r.rid ∧ t.cancelled = false := by
  have h := reach_allGood true ops (init cfg) (sinv_init cfg) (by intro r hr; simp [init] at hr) hw
    (fun _ => hnc) hs
  have hi := reach_inv cfg ops hw
  intro r hr hto
  have hne := (h r hr).2.2 rfl hto
  obtain ⟨id, hid⟩ := Option.ne_none_iff_exists'.1 hne
  obtain ⟨t, ht, k1, k2, k3⟩ := hi.handle_task r hr id hid
  exact ⟨t, ht, by rw [hid, k1], k2, k3⟩

/-! ### Round 6: session loss and re-login

`Op.sessionDestroyed` / `Op.sessionInitialized` are ops of every history above, so all theorems of this file — in
particular `C18_tickets_distinct` — hold across any number of re-logins, with requests, timers and set-ups that live
through them.  The three statements below say what that rests on. -/

/-- **A session change resets nothing of the search state.**  `_on_session_destroyed` / `_on_session_initialized`
(manager.py:431-435) report nothing and leave the ticket counter, the draw count, the registry, the timer tasks, the
set-ups in progress and the wishlist state exactly as they were; only `_session` changes. -/
theorem C18_session_change_resets_nothing (s : State) (op : Op)
    (hop : op = .sessionDestroyed ∨ op = .sessionInitialized) :
    (step s op).2 = [] ∧ (step s op).1.gen = s.gen ∧ (step s op).1.draws = s.draws ∧
    (step s op).1.requests = s.requests ∧ (step s op).1.tasks = s.tasks ∧ (step s op).1.pending = s.pending ∧
    (step s op).1.wlInterval = s.wlInterval ∧ (step s op).1.wlNext = s.wlNext ∧ (step s op).1.now = s.now ∧
    (step s op).1.session = decide (op = .sessionInitialized) := by
  rcases hop with rfl | rfl <;> exact ⟨rfl, rfl, rfl, rfl, rfl, rfl, rfl, rfl, rfl, rfl⟩

/-- **The next ticket is fresh — whatever happened before, re-logins included.**  After any history (with any number
of session losses and logins at any point) the ticket the generator hands out next is held neither by a registered
request nor by a request that is being set up, as long as that draw does not wrap the generator. -/
theorem C18_next_ticket_fresh (cfg : Cfg) (ops : List Op)
    (hw : (run (init cfg) ops).1.cfg.initial + (run (init cfg) ops).1.draws + 1 ≤ maxTicket) :
    (∀ r ∈ (run (init cfg) ops).1.requests,
        r.ticket ≠ nextTicket (run (init cfg) ops).1.cfg.initial (run (init cfg) ops).1.gen) ∧
    (∀ p ∈ (run (init cfg) ops).1.pending,
        p.ticket ≠ nextTicket (run (init cfg) ops).1.cfg.initial (run (init cfg) ops).1.gen) := by
  have hnw : NoWrap (run (init cfg) ops).1 := by unfold NoWrap; omega
  have hi := reach_inv cfg ops hnw
  rw [hi.inv.gen_eq, nextTicket_nowrap _ _ hw]
  refine ⟨fun r hr => ?_, fun p hp => ?_⟩
  · have := hi.inv.req_tk r hr
    omega
  · have := hi.pinv.pend_tk p hp
    omega

/-- **Requests that outlive their session keep their ticket to themselves.**  `before` is any history of the first
session, `mid` whatever happens while logged out, `later` the next session (each may contain further session changes):
the requests registered at the end — survivors of the first session and new ones alike — have pairwise distinct
tickets, and no registration of the whole history replaced a live request. -/
theorem C18_relogin_tickets_distinct (cfg : Cfg) (before mid later : List Op)
    (hw : NoWrap (run (init cfg) (before ++ .sessionDestroyed :: (mid ++ .sessionInitialized :: later))).1) :
    (∀ r1 ∈ (run (init cfg) (before ++ .sessionDestroyed :: (mid ++ .sessionInitialized :: later))).1.requests,
     ∀ r2 ∈ (run (init cfg) (before ++ .sessionDestroyed :: (mid ++ .sessionInitialized :: later))).1.requests,
        r1.ticket = r2.ticket → r1 = r2) ∧
    ∀ a b, Obs.clobber a b ∉ (run (init cfg) (before ++ .sessionDestroyed :: (mid ++ .sessionInitialized :: later))).2 :=
  C18_tickets_distinct cfg _ hw

/-! ### Non-vacuity: the hypotheses are met by non-trivial reachable states -/

def cfg0 : Cfg := { requestTimeout := 5, wishlistTimeout := -1, storeResults := true, initial := 1, items := 2 }

/-- a history with two searches, a wishlist round, a re-arm, a manual removal and a timeout -/
def demo : List Op :=
  [.search .network, .search .room, .wlInterval 3, .settle, .timerReschedule 2 1, .settle, .remove 3, .reply 3,
   .reply 4] ++ sleepOps 3

example : NoWrap (run (init cfg0) demo).1 := by unfold NoWrap; decide
example : (run (init cfg0) demo).2 =
    [.sent 0 1 2, .sent 0 2 3, .sent 0 3 4, .sent 0 4 5, .result 0 3 4, .removed 1 1 2 1 4, .removed 3 3 4 3 2,
     .removed 3 4 5 3 3, .sent 3 5 6, .sent 3 6 7] := by decide
example : (run (init cfg0) demo).1.requests.map (·.ticket) = [6, 7] := by decide
example : lookup (run (init cfg0) [.search .network]).1 2 ≠ none := by decide
/-- a state with a pending, started, un-cancelled timer task that is `OnTime` -/
example : OnTime (step (run (init cfg0) [.search .network]).1 .settle).1 := by
  intro t ht _ d hd
  obtain ⟨_, d', h1, h2⟩ := settle_ahead _ t ht
  rw [h1] at hd; cases hd; exact Nat.le_of_lt h2
example : (step (run (init cfg0) [.search .network]).1 .settle).1.tasks =
    [{ id := 0, rid := 1, ticket := 2, timeout := 5, deadline := some 5, cancelled := false, woken := false }] := by
  decide

/-- a history of the layered model: two searches time out with three listeners registered; the first report is
resumed once, the user tries to remove both requests again (by now unknown: `KeyError`), searches again, then all
listeners return -/
def ndemo : List NOp :=
  [.base (.search .network), .base (.search .user)] ++ (sleepOps 5).map .base ++
  [.resume 1, .base (.remove 2), .base (.remove 3), .base (.search .room), .base .settle]

example : NoWrap (nrun (ninit cfg0 3) ndemo).1.base := by unfold NoWrap; decide
example : (nrun (ninit cfg0 3) ndemo).1.reporting =
    [{ rid := 1, ticket := 2, tid := 0, told := 2, cancelled := false },
     { rid := 2, ticket := 3, tid := 1, told := 1, cancelled := false }] := by decide
example : (nrun (ninit cfg0 3) (ndemo ++ drainOps (nrun (ninit cfg0 3) ndemo).1)).2.filterMap toldKey =
    [(1, 0), (2, 0), (1, 1), (1, 2), (2, 1), (2, 2)] := by decide
/-- `stop()` with a timer pending: a derived op list over the same alphabet (so every theorem above covers it) -/
example : stopOps (run (init cfg0) [.search .network, .settle]).1 = [.timerCancel 2, .serverClosing] := by decide
example : (run (init cfg0) ([.search .network, .settle] ++ stopOps (run (init cfg0) [.search .network, .settle]).1 ++
    sleepOps 9)).2 = [.sent 0 1 2] := by decide

/-- loop iterations around an expiry: the timer is re-armed in the iteration after its sleep was over (the task is
woken, not yet resumed) — no removal for the old deadline, one removal at the new one -/
def idemo : List Op :=
  [.search .network, .tick, .jump 5, .tick, .timerReschedule 2 3, .tick, .tick, .reply 2] ++ sleepOps 3

example : (run (init cfg0) [.search .network, .tick, .jump 5, .tick]).1.tasks =
    [{ id := 0, rid := 1, ticket := 2, timeout := 5, deadline := some 5, cancelled := false, woken := true }] := by decide
example : (run (init cfg0) idemo).2 = [.sent 0 1 2, .result 5 1 2, .removed 8 1 2 8 1] := by decide
/-- … and without the re-arm the callback runs in the next iteration -/
example : (run (init cfg0) [.search .network, .tick, .jump 5, .tick, .tick]).2 = [.sent 0 1 2, .removed 5 1 2 5 0] := by
  decide

/-- set-ups in progress: a search and a wishlist round suspended in their sends; the search is cancelled, the round's
first item goes out and the second one fails — only ticket 3 is ever registered, announced, and removed -/
def sdemo : List Op :=
  [.gate true, .search .user, .wlInterval 4, .tick, .cancelCall 2, .sendDone 3 true, .tick, .reply 2, .reply 3,
   .sendDone 4 false, .tick, .reply 4] ++ sleepOps 4

example : (run (init cfg0) [.gate true, .search .user, .wlInterval 4, .tick]).1.pending =
    [{ rid := 1, ticket := 2, kind := .user, outcome := none },
     { rid := 2, ticket := 3, kind := .wishlist, outcome := none }] := by decide
example : (run (init cfg0) sdemo).2 = [.sent 0 2 3, .result 0 2 3, .removed 4 2 3 4 0] := by decide
example : (run (init cfg0) sdemo).1.requests = [] ∧ (run (init cfg0) sdemo).1.pending = [] := by decide
example : NoWrap (run (init cfg0) sdemo).1 := by unfold NoWrap; decide

/-- round 6: a request without a timeout and one with a long one live through a session loss and a re-login; the
searches of the next session get the NEXT tickets; replies still find the survivors -/
def rdemo : List Op :=
  [.search .network, .wlInterval 9, .settle, .serverClosing, .sessionDestroyed, .jump 2, .settle, .sessionInitialized,
   .wlInterval 9, .search .user, .settle, .reply 2, .reply 5]

example : NoWrap (run (init cfg0) rdemo).1 := by unfold NoWrap; decide
example : (run (init cfg0) rdemo).1.requests.map (·.ticket) = [2, 3, 4, 5, 6, 7] := by decide
example : (run (init cfg0) rdemo).1.session = true ∧
    (run (init cfg0) [.search .network, .sessionInitialized, .sessionDestroyed]).1.session = false := by decide
example : (run (init cfg0) rdemo).2.filter (fun o => match o with | .result _ _ _ => true | _ => false) =
    [.result 2 1 2, .result 2 4 5] := by decide

end AioslskVerif.C18
