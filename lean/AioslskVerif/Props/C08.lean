import AioslskVerif.Proofs.Entitle
/-!
# C08 — files are only offered and uploaded to users entitled to them

Property theorems only (model: `Model/Entitle.lean` on `Model/Shares.lean`, `Model/Query.lean`, the
generated transfer table and the generated entitlement constants; helpers: `Proofs/Entitle.lean`).
The model is that of the code after `fixes/C08-excluded-phrase-case.patch`.

Reading (DESIGN.md): (1) the visible part of a search reply / shares reply for user `u` holds no
item whose directory is locked for `u`; (2) no search reply holds an item whose lower-cased path
contains a lower-cased excluded phrase, none goes to a user blocked for searches; (3) an upload is
created or put back in the queue by a peer's request only if the user is not blocked for uploads and
the requested path is exactly the remote path of an indexed item whose directory is not locked for
the user; (4) a management cycle that runs with the shares-changed flag leaves every upload that is
not COMPLETE / FAILED: untouched if it was aborted on the user's request, else ABORTED with reason
Blocked / File not shared (first that applies, in that order) iff that applies, and QUEUED again if
it was aborted and nothing applies any more.

Known finding (not repaired, see `C08_directory_listing_*`): `create_directory_reply` takes no
user, so the files of a locked directory are listed to anybody who asks for that directory.
-/
namespace AioslskVerif.C08
open AioslskVerif AioslskVerif.Transfer AioslskVerif.Entitle
open AioslskVerif.Generated.Entitle

/-! ## What the regenerated constants must say -/

/-- Every gate tests the blocking flag the property names (uploads: 32 at the two request handlers
and in the cycle; searches: 4; shares: 8), the cycle tests "requested, blocked, not shared" in that
order, a blocked user is told "File not shared.", and the excluded phrase is lower-cased. -/
theorem C08_generated_constants :
    gateFlags = [("evaluate", "UPLOADS", 32), ("queue", "UPLOADS", 32), ("request", "UPLOADS", 32),
                 ("search", "SEARCHES", 4), ("shares", "SHARES", 8), ("directory", "SHARES", 8)] ∧
    evalFlag = 32 ∧ queueFlag = 32 ∧ requestFlag = 32 ∧ searchFlag = 4 ∧ sharesFlag = 8 ∧ dirFlag = 8 ∧
    conditions = [(.abortRequested, .requested), (.userBlocked, .blocked), (.notShared, .notShared)] ∧
    requestedReason = .requested ∧ skipStates = [.complete, .failed] ∧
    queueBlockedReason = .notShared ∧ requestBlockedReason = .notShared ∧ phraseFolded = true := by
  decide

/-- `is_directory_locked` says what the property says: a friends-only directory is locked for
everybody not in the friends list, a directory shared with named users for everybody else. -/
theorem C08_locked_spec (c : Cfg) (p : List Comp) (u : Name) (d : DirInfo) (hd : dirInfo c p = some d) :
    locked c p u = true ↔
      (d.mode = .friends ∧ u ∉ c.friends) ∨ (∃ us, d.mode = .users us ∧ u ∉ us) := by
  simp only [locked, hd]
  cases hm : d.mode with
  | everyone => simp
  | friends => simp
  | users us => simp

/-! ## (1) visible = not locked -/

/-- **Search reply**: every normal result is an indexed item (held by the term map) whose directory
is not locked for the asking user; every item of the locked part is locked; nothing that was found
is dropped by the split. -/
theorem C08_visible_unlocked (K : Query.Cls Ch) (c : Cfg) (sh : Shares.St Comp) (u : Name) (q : List Ch)
    (vis lk : List SItem) (h : searchReply K c sh u q = some (vis, lk)) :
    (∀ it ∈ vis, locked c it.sd u = false ∧ it ∈ sh.tm) ∧
    (∀ it ∈ lk, locked c it.sd u = true ∧ it ∈ sh.tm) ∧
    (∀ it ∈ found K c sh q, it ∈ vis ∨ it ∈ lk) := by
  simp only [searchReply] at h
  split at h
  · simp at h
  · split at h
    · simp at h
    · simp only [splitVisible, Option.some.injEq, Prod.mk.injEq] at h
      obtain ⟨rfl, rfl⟩ := h
      refine ⟨?_, ?_, ?_⟩
      · intro it hit
        simp only [List.mem_filter, Bool.not_eq_eq_eq_not, Bool.not_true] at hit
        exact ⟨hit.2, (mem_query K qp _ _ _ _ _ hit.1).1⟩
      · intro it hit
        simp only [List.mem_filter] at hit
        exact ⟨hit.2, (mem_query K qp _ _ _ _ _ hit.1).1⟩
      · intro it hit
        simp only [List.mem_filter, hit, true_and]
        cases locked c it.sd u <;> simp

/-- … and on every state the operations can reach, "held by the term map" is "indexed now". -/
theorem C08_visible_indexed (K : Query.Cls Ch) (s : S) (hs : s.sh = {}) (ops : List Op) (u : Name) (q : List Ch)
    (vis lk : List SItem)
    (h : searchReply K (run s ops).cfg (run s ops).sh u q = some (vis, lk)) :
    ∀ it ∈ vis ++ lk, it ∈ (run s ops).sh.items := by
  have hinv : Shares.Inv (run s ops).sh := inv_run_sh ops s (by rw [hs]; exact Shares.inv_init)
  obtain ⟨h1, h2, _⟩ := C08_visible_unlocked K _ _ u q vis lk h
  intro it hit
  rcases List.mem_append.1 hit with hit | hit
  · exact (hinv.tm_sync it).1 (h1 it hit).2
  · exact (hinv.tm_sync it).1 (h2 it hit).2

/-- **Shares reply**: every file named in the normal part is an indexed item of a directory that is
not locked for the asking user (and sits in exactly that remote directory). -/
theorem C08_shares_visible_unlocked (c : Cfg) (sh : Shares.St Comp) (u : Name)
    (vis lk : List (List Comp × List Comp)) (h : sharesReply c sh u = some (vis, lk)) :
    (∀ e ∈ vis, ∀ n ∈ e.2, ∃ it ∈ sh.items, locked c it.sd u = false ∧ remoteDirParts c it = e.1 ∧ it.name = n) ∧
    (∀ e ∈ lk, ∀ n ∈ e.2, ∃ it ∈ sh.items, locked c it.sd u = true ∧ remoteDirParts c it = e.1 ∧ it.name = n) := by
  simp only [sharesReply] at h
  split at h
  · simp at h
  · simp only [Option.some.injEq, Prod.mk.injEq] at h
    obtain ⟨rfl, rfl⟩ := h
    constructor
    · intro e he n hn
      simp only [listing, List.mem_map] at he
      obtain ⟨d, _, rfl⟩ := he
      simp only [List.mem_map, List.mem_filter, decide_eq_true_eq, Bool.not_eq_eq_eq_not, Bool.not_true] at hn
      obtain ⟨it, ⟨⟨h1, h2⟩, h3⟩, rfl⟩ := hn
      exact ⟨it, h1, h2, h3, rfl⟩
    · intro e he n hn
      simp only [listing, List.mem_map] at he
      obtain ⟨d, _, rfl⟩ := he
      simp only [List.mem_map, List.mem_filter, decide_eq_true_eq] at hn
      obtain ⟨it, ⟨⟨h1, h2⟩, h3⟩, rfl⟩ := hn
      exact ⟨it, h1, h2, h3, rfl⟩

/-! ## (2) excluded phrases, blocked users -/

/-- **No search reply — normal or locked part — holds an item whose lower-cased path contains a
lower-cased excluded phrase**, whatever the letter case in which the server sent the phrase. -/
theorem C08_no_excluded_phrase (K : Query.Cls Ch) (c : Cfg) (sh : Shares.St Comp) (u : Name) (q : List Ch)
    (vis lk : List SItem) (h : searchReply K c sh u q = some (vis, lk)) :
    ∀ it ∈ vis ++ lk, ∀ ph ∈ c.excluded,
      ¬ ∃ l r, (qp it).map K.fold = l ++ ph.map K.fold ++ r := by
  intro it hit ph hph
  have hf : it ∈ found K c sh q := by
    simp only [searchReply] at h
    split at h
    · simp at h
    · split at h
      · simp at h
      · simp only [splitVisible, Option.some.injEq, Prod.mk.injEq] at h
        obtain ⟨rfl, rfl⟩ := h
        rcases List.mem_append.1 hit with hit | hit <;> exact (List.mem_filter.1 hit).1
  have hx := (mem_query K qp _ _ _ _ _ hf).2.2
  simp only [excludedBy, Bool.not_eq_eq_eq_not, Bool.not_true, List.any_eq_false] at hx
  have := hx ph hph
  have hfold : phraseFolded = true := by decide
  simp only [hfold, if_true] at this
  intro hc
  exact this ((infixB_iff _ _).2 hc)

/-- **Nothing is sent to a blocked user**: no search reply to a user blocked for searches (flag 4),
no shares / directory reply to a user blocked for shares (8); a user blocked for uploads (32) gets
"File not shared." on both upload entry points and the uploads stay as they are. -/
theorem C08_no_reply_to_blocked (K : Query.Cls Ch) (c : Cfg) (sh : Shares.St Comp) (u : Name) :
    (isBlocked c u 4 = true → ∀ q, searchReply K c sh u q = none) ∧
    (isBlocked c u 8 = true → sharesReply c sh u = none ∧ ∀ req, dirReply c sh u req = none) ∧
    (isBlocked c u 32 = true → ∀ xs p,
        onQueue c sh xs u p = (xs, some .notShared) ∧ onRequest c sh xs u p = (xs, some .notShared)) := by
  refine ⟨?_, ?_, ?_⟩
  · intro hb q
    have : searchFlag = 4 := rfl
    simp [searchReply, this, hb]
  · intro hb
    have h1 : sharesFlag = 8 := rfl
    have h2 : dirFlag = 8 := rfl
    exact ⟨by simp [sharesReply, h1, hb], fun req => by simp [dirReply, h2, hb]⟩
  · intro hb xs p
    have h1 : queueFlag = 32 := rfl
    have h2 : requestFlag = 32 := rfl
    have h3 : queueBlockedReason = .notShared := rfl
    have h4 : requestBlockedReason = .notShared := rfl
    exact ⟨by simp [onQueue, h1, h3, hb], by simp [onRequest, h2, h4, hb]⟩

/-! ## (3) admission of uploads -/

/-- **Admission is sound at both entry points** (`PeerTransferQueue`, `PeerTransferRequest`), for
every configuration, index, list of uploads, user and requested string (so: case variants, doubled
or trailing separators, paths through a parent's alias, unknown names — anything that is not
exactly an unlocked item's remote path — create nothing and are refused). -/
theorem C08_admit_sound (c : Cfg) (sh : Shares.St Comp) (xs : List Xfer) (u : Name) (p : List Ch) :
    AdmitSound c sh xs u p (onQueue c sh xs u p) ∧ AdmitSound c sh xs u p (onRequest c sh xs u p) :=
  ⟨onQueue_sound c sh xs u p, onRequest_sound c sh xs u p⟩

/-! ## (4) the management cycle -/

/-- **The finite table**: `manage_shares_changed` on one upload, for every state × abort reason ×
(blocked, not shared) combination (160 rows, from the regenerated transfer table and condition
order). -/
theorem C08_reconcile_table (b n : Bool) (st : St) (r : Option Reason)
    (h1 : st ≠ .complete) (h2 : st ≠ .failed) (h3 : st ≠ .virgin) :
    (r = some .requested → st = .aborted → reconcileSR b n (st, r) = (st, r)) ∧
    (r ≠ some .requested → b = true → reconcileSR b n (st, r) = (.aborted, some .blocked)) ∧
    (r ≠ some .requested → b = false → n = true → reconcileSR b n (st, r) = (.aborted, some .notShared)) ∧
    (r ≠ some .requested → b = false → n = false → st = .aborted → reconcileSR b n (st, r) = (.queued, none)) ∧
    (r ≠ some .requested → b = false → n = false → st ≠ .aborted → reconcileSR b n (st, r) = (st, r)) :=
  reconcileSR_table b n st r h1 h2 h3

/-- COMPLETE and FAILED uploads are left alone. -/
theorem C08_reconcile_finished (b n : Bool) (x : Xfer) (h : x.state = .complete ∨ x.state = .failed) :
    reconcileX b n x = x := by
  cases x with
  | mk u p st r =>
    simp only at h
    rcases h with rfl | rfl <;> rfl

/-- **Post-condition of a management cycle that runs with the shares-changed flag**, lifted from
the table to any list of uploads in any configuration: the uploads keep their places, and every one
that is not COMPLETE / FAILED is `Reconciled` (VIRGIN exists only inside `_add_upload`, between
`add` and `queue` of one handler run, never at a settled point). -/
theorem C08_reconcile (s : S) (hflag : s.sharesChanged = true) (hU : UniquePaths s.cfg s.sh) :
    (step s .cycle).1.xs.length = s.xs.length ∧ (step s .cycle).1.sharesChanged = false ∧
    ∀ (k : Nat) (x : Xfer), s.xs[k]? = some x → x.state ≠ .complete → x.state ≠ .failed → x.state ≠ .virgin →
      ∃ x', (step s .cycle).1.xs[k]? = some x' ∧ Reconciled s.cfg s.sh x x' := by
  simp only [step, hflag, if_true, reconcile, List.length_map, true_and]
  intro k x hk h1 h2 h3
  exact ⟨reconcile1 s.cfg s.sh x, by simp [hk], reconcile1_spec s.cfg s.sh hU x h1 h2 h3⟩

/-- Without the flag a cycle does not touch the uploads' abort state. -/
theorem C08_cycle_idle (s : S) (hflag : s.sharesChanged = false) : (step s .cycle).1 = s := by
  simp [step, hflag]

/-! ## Every change is followed by a cycle that sees it

`_management_job` snapshots and clears `_management_flags` in the step in which it wakes up, so the
model's `.cycle` is that step together with `manage_shares_changed`; the rest of the job changes
nothing that is modelled. A change that arrives while a job is still suspended in one of its awaits
is therefore simply an op after that `.cycle` — and it sets the flag again. -/

/-- **The shares-changed flag is set by every op that changes anything entitlement depends on, and
only a cycle clears it.** -/
theorem C08_change_requests_cycle (s : S) (op : Op) (hop : op ≠ .cycle)
    (h : s.sharesChanged = true ∨ entitlementInputs (step s op).1 ≠ entitlementInputs s) :
    (step s op).1.sharesChanged = true := by
  cases op with
  | cycle => exact absurd rfl hop
  | setFriends l => rfl
  | setBlocked l => rfl
  | share d disk =>
    simp only [step] at h ⊢
    split
    · rfl
    · simp only at h
      rcases h with h | h
      · exact h
      · exact absurd rfl h
  | unshare p =>
    simp only [step] at h ⊢
    split
    · rfl
    · simp only at h
      rcases h with h | h
      · exact h
      · exact absurd rfl h
  | setMode p m =>
    simp only [step] at h ⊢
    split
    · rfl
    · rename_i hr
      simp only [hr, if_false] at h
      rcases h with h | h
      · exact h
      · exact absurd rfl h
  | phrases l => rcases h with h | h; exact h; exact absurd rfl h
  | search u q => rcases h with h | h; exact h; exact absurd rfl h
  | sharesReq u => rcases h with h | h; exact h; exact absurd rfl h
  | dirReq u req => rcases h with h | h; exact h; exact absurd rfl h
  | queueReq u p => rcases h with h | h; exact h; exact absurd rfl h
  | xferReq u p => rcases h with h | h; exact h; exact absurd rfl h
  | meth k m => rcases h with h | h; exact h; exact absurd rfl h
  | userAbort k => rcases h with h | h; exact h; exact absurd rfl h
  | userQueue k => rcases h with h | h; exact h; exact absurd rfl h

/-- **No change is lost**: after an op that changed anything entitlement depends on, whatever
follows that is not a cycle (requests, further changes — also those raised while an earlier cycle's
job is still suspended), the flag is set when the next cycle starts; `C08_reconcile` then applies to
that cycle, against the configuration as it is at that moment. -/
theorem C08_change_seen_by_next_cycle (s : S) (op : Op) (mid : List Op) (hop : op ≠ .cycle)
    (hmid : ∀ o ∈ mid, o ≠ .cycle)
    (h : entitlementInputs (step s op).1 ≠ entitlementInputs s) :
    (run (step s op).1 mid).sharesChanged = true := by
  have h0 := C08_change_requests_cycle s op hop (Or.inr h)
  generalize (step s op).1 = s' at h0
  induction mid generalizing s' with
  | nil => exact h0
  | cons o mid ih =>
    simp only [run, List.foldl_cons]
    exact ih (fun o' ho' => hmid o' (by simp [ho'])) _
      (C08_change_requests_cycle s' o (hmid o (by simp)) (Or.inl h0))

/-! ## Uploads aborted on the user's request stay aborted -/

/-- **Requested is sticky**: whatever the peers request and however often the friends list, the
block list and the shared directories change and the management cycle runs, an upload aborted on
the user's request stays ABORTED with reason Requested — until the user himself queues it again. -/
theorem C08_requested_sticky (ops : List Op) (s : S) (k : Nat) (x : Xfer) (hk : s.xs[k]? = some x)
    (ha : x.state = .aborted) (hr : x.reason = some .requested)
    (hops : ∀ op ∈ ops, Op.requeues k op = false) :
    (run s ops).xs[k]? = some x := by
  induction ops generalizing s with
  | nil => exact hk
  | cons op ops ih =>
    simp only [run, List.foldl_cons]
    exact ih _ (sticky_step s op k x hk ha hr (hops op (by simp))) (fun o ho => hops o (by simp [ho]))

/-! ## Known finding: the directory listing ignores the share mode -/

/-- What does hold for `PeerDirectoryContentsReply`: nothing goes to a user blocked for shares, and
the listing holds only indexed items of exactly the requested remote directory — so it is confined to
unlocked files **provided** that directory is not locked for the asking user. -/
theorem C08_directory_listing_partial (c : Cfg) (sh : Shares.St Comp) (u : Name) (req : List Ch)
    (l : List (List Ch × List SItem)) (h : dirReply c sh u req = some l) :
    isBlocked c u 8 = false ∧
    (∀ e ∈ l, e.1 = req ∧ ∀ it ∈ e.2, it ∈ sh.items ∧ remoteDir c it = req) ∧
    ((∀ it ∈ sh.items, remoteDir c it = req → locked c it.sd u = false) →
      ∀ e ∈ l, ∀ it ∈ e.2, locked c it.sd u = false) := by
  have hd : dirFlag = 8 := rfl
  simp only [dirReply, hd] at h
  split at h
  · simp at h
  · rename_i hb
    simp only [Option.some.injEq] at h
    subst h
    have key : ∀ e ∈ directoryReply c sh req, e.1 = req ∧ ∀ it ∈ e.2, it ∈ sh.items ∧ remoteDir c it = req := by
      intro e he
      simp only [directoryReply] at he
      split at he
      · simp only [List.mem_singleton] at he
        subst he
        refine ⟨rfl, fun it hit => ?_⟩
        simpa using hit
      · simp at he
    refine ⟨by simpa using hb, key, ?_⟩
    intro hall e he it hit
    exact hall it ((key e he).2 it hit).1 ((key e he).2 it hit).2

namespace Ex
/-- 0 `a`, 1 `A`, 2 `b`, 3 `B`, 4 `.`, 5 space, 6 `*`, 7 `-` (the alphabet of `C07.Ex`) -/
def K : Query.Cls Ch where
  isWord c := c < 4
  fold c := if c = 1 then 0 else if c = 3 then 2 else c
  isSpace c := c = 5
  star := 6
  dash := 7

/-- folders `m` (friends only, alias `a`) and `n` (everyone, alias `b`); files `m/aB.b`, `m/b/A.a`, `n/bB.b` -/
def disk : List (Shares.File Comp) := [⟨[[0]], [0, 3, 4, 2]⟩, ⟨[[0], [2]], [1, 4, 0]⟩, ⟨[[2]], [2, 3, 4, 2]⟩]
def dm : DirInfo := { path := [[0]], alias := [0], mode := .friends }
def dn : DirInfo := { path := [[2]], alias := [2], mode := .everyone }
def s0 : S := { cls := K }
/-- remote path of `m/aB.b` : `@@a\aB.b` -/
def pm : List Ch := [64, 64, 0, 92, 0, 3, 4, 2]
/-- remote path of `n/bB.b` : `@@b\bB.b` -/
def pn : List Ch := [64, 64, 2, 92, 2, 3, 4, 2]

/-- user 1 is a friend, user 2 is not; both ask for the friends-only file, 2 also for the public one -/
def setup : List Op := [.setFriends [1], .share dm disk, .share dn disk, .cycle,
  .queueReq 1 pm, .queueReq 2 pm, .xferReq 2 pn]
end Ex

/-- **The listing of a friends-only directory is sent to a user who is not a friend** (witness
replayed on the real code on every run: known finding `C08-directory-reply-ignores-lock`). -/
theorem C08_directory_listing_counterexample :
    ∃ (c : Cfg) (sh : Shares.St Comp) (u : Name) (req : List Ch) (l : List (List Ch × List SItem)),
      dirReply c sh u req = some l ∧ ∃ e ∈ l, ∃ it ∈ e.2, locked c it.sd u = true :=
  ⟨(run Ex.s0 Ex.setup).cfg, (run Ex.s0 Ex.setup).sh, 2, [64, 64, 0, 92, 2],
    [([64, 64, 0, 92, 2], [⟨[[0]], [[2]], [1, 4, 0]⟩])], by decide, _, List.mem_singleton.2 rfl, _,
    List.mem_singleton.2 rfl, by decide⟩

/-! ## Non-vacuity -/

namespace Ex
/-- admission: the friend's upload exists, the stranger's request for the locked file created
nothing, his request for the public file did -/
example : (run s0 setup).xs = [⟨1, pm, .queued, none⟩, ⟨2, pn, .queued, none⟩] := by decide
example : onQueue (run s0 (setup.take 5)).cfg (run s0 (setup.take 5)).sh (run s0 (setup.take 5)).xs 2 pm =
    ([⟨1, pm, .queued, none⟩], some .notShared) := by decide
/-- case variant of a shared path (`@@a\AB.b`): refused, nothing created -/
example : (onQueue (run s0 setup).cfg (run s0 setup).sh [] 1 [64, 64, 0, 92, 1, 3, 4, 2]) = ([], some .notShared) := by decide
/-- the index of the example has unique remote paths -/
example : ((run s0 setup).sh.items.map (remotePath (run s0 setup).cfg)).Nodup := by decide
example : UniquePaths (run s0 setup).cfg (run s0 setup).sh := by unfold UniquePaths; decide
/-- un-friending user 1 and blocking user 2 for uploads: after the cycle both are ABORTED, with
"File not shared" and "Blocked"; undoing both queues them again; a user abort in between stays -/
example : (run s0 (setup ++ [.setFriends [], .setBlocked [(2, 32)], .cycle])).xs =
    [⟨1, pm, .aborted, some .notShared⟩, ⟨2, pn, .aborted, some .blocked⟩] := by decide
example : (run s0 (setup ++ [.setFriends [], .setBlocked [(2, 32)], .cycle, .setFriends [1], .setBlocked [], .cycle])).xs =
    [⟨1, pm, .queued, none⟩, ⟨2, pn, .queued, none⟩] := by decide
example : (run s0 (setup ++ [.userAbort 0, .setFriends [], .cycle, .setFriends [1], .queueReq 1 pm, .cycle])).xs =
    [⟨1, pm, .aborted, some .requested⟩, ⟨2, pn, .queued, none⟩] := by decide
/-- user 1 is blocked, the cycle this asks for starts (snapshot, clear, reconcile); while its job is still
running user 2 is blocked too: the flag is set again and the next cycle aborts the second upload -/
example : (run s0 (setup ++ [.setBlocked [(1, 32)], .cycle, .setBlocked [(1, 32), (2, 32)]])).sharesChanged = true := by
  decide
example : (run s0 (setup ++ [.setBlocked [(1, 32)], .cycle, .setBlocked [(1, 32), (2, 32)], .cycle])).xs =
    [⟨1, pm, .aborted, some .blocked⟩, ⟨2, pn, .aborted, some .blocked⟩] := by decide
/-- search: `*b` by the stranger: the public file is a normal result, the two friends-only files
are locked results; with the phrase `AB` (upper case) excluded, `m/aB.b` is in neither part
(`m/b/A.a`, whose path does not contain `ab`, stays) -/
example : searchReply K (run s0 setup).cfg (run s0 setup).sh 2 [6, 2] =
    some ([⟨[[2]], [], [2, 3, 4, 2]⟩], [⟨[[0]], [], [0, 3, 4, 2]⟩, ⟨[[0]], [[2]], [1, 4, 0]⟩]) := by decide
example : searchReply K (run s0 (setup ++ [.phrases [[1, 3]]])).cfg (run s0 setup).sh 2 [6, 2] =
    some ([⟨[[2]], [], [2, 3, 4, 2]⟩], [⟨[[0]], [[2]], [1, 4, 0]⟩]) := by decide
example : searchReply K (run s0 (setup ++ [.setBlocked [(2, 4)]])).cfg (run s0 setup).sh 2 [6, 2] = none := by decide
end Ex

end AioslskVerif.C08
