import AioslskVerif.Proofs.Entitle
/-!
# C08 — files are only offered and uploaded to users entitled to them

Property theorems only (model: `Model/Entitle.lean` on `Model/Shares.lean`, `Model/Query.lean`, the
generated transfer table and the generated entitlement constants; helpers: `Proofs/Entitle.lean`).
The model is that of the code after `fixes/C08-excluded-phrase-case.patch` and
`fixes/C08-reload-announces-removed.patch`.

Reading (DESIGN.md): (1) the visible part of a search reply / shares reply for user `u` holds no
item whose directory is locked for `u`; (2) no search reply holds an item whose lower-cased path
contains a lower-cased excluded phrase, none goes to a user blocked for searches; (3) an upload is
created or put back in the queue by a peer's request only if the user is not blocked for uploads and
the requested path is exactly the remote path of an indexed item whose directory is not locked for
the user; (4) a management cycle that runs with the shares-changed flag leaves every upload that is
not COMPLETE / FAILED: untouched if it was aborted on the user's request, else ABORTED with reason
Blocked / File not shared (first that applies, in that order) iff that applies, and QUEUED again if
it was aborted and nothing applies any more.

(5) every way a change of the friends list, the block list or the shared directories reaches the
managers — shares API, settings + `load_from_settings()`, in-place edits of the settings' lists, the
user manager's poll of `settings.users.friends` / `.blocked`, a scan — requests such a cycle, and no
request is lost before a cycle starts.

(6) a cycle that runs while a state method of an upload is in flight — its state lock held: `pause()`
/ `abort()` waiting for the upload's task to close its file connection, a transition waiting for its
listeners — decides on what the upload shows, its own `abort(…)` waits for the lock (the job with it)
and lands after everything that was pending: the upload ends ABORTED for the matching reason or on the
user's request, or finished (`C08_change_during_transition*`, `C08_job_waits_for_locked_upload`).

Known findings (not repaired): `create_directory_reply` takes no user, so the files of a locked
directory are listed to anybody who asks for that directory (`C08_directory_listing_*`); a polled
setting that is changed and changed back within one polling interval of the user manager is never
announced (`C08_settings_change_pending_partial`, `C08_flip_between_polls_counterexample`); proposed:
a re-queue that waits behind the lock of an upload showing ABORTED / COMPLETE / FAILED runs after the
cycle looked (`C08_change_during_transition_partial`, `C08_requeue_behind_lock_counterexample`).
-/
namespace AioslskVerif.C08
open AioslskVerif AioslskVerif.Transfer AioslskVerif.Entitle
open AioslskVerif.Generated.Entitle

/-! ## What the regenerated constants must say -/

/-- Every gate tests the blocking flag the property names (uploads: 32 at the two request handlers
and in the cycle; searches: 4; shares: 8), the cycle tests "requested, blocked, not shared" in that
order, a blocked user is told "File not shared.", and the excluded phrase is lower-cased. -/
theorem C08_generated_constants :
    gateFlags = [("evaluate", "UPLOADS", 32), ("queue", "UPLOADS", 32), ("request", "UPLOADS", 32),
                 ("search", "SEARCHES", 4), ("shares", "SHARES", 8), ("directory", "SHARES", 8)] ∧
    evalFlag = 32 ∧ queueFlag = 32 ∧ requestFlag = 32 ∧ searchFlag = 4 ∧ sharesFlag = 8 ∧ dirFlag = 8 ∧
    conditions = [(.abortRequested, .requested), (.userBlocked, .blocked), (.notShared, .notShared)] ∧
    requestedReason = .requested ∧ skipStates = [.complete, .failed] ∧
    queueBlockedReason = .notShared ∧ requestBlockedReason = .notShared ∧ phraseFolded = true := by
  decide

/-- `is_directory_locked` says what the property says: a friends-only directory is locked for
everybody not in the friends list, a directory shared with named users for everybody else. -/
theorem C08_locked_spec (c : Cfg) (p : List Comp) (u : Name) (d : DirInfo) (hd : dirInfo c p = some d) :
    locked c p u = true ↔
      (d.mode = .friends ∧ u ∉ c.friends) ∨ (∃ us, d.mode = .users us ∧ u ∉ us) := by
  simp only [locked, hd]
  cases hm : d.mode with
  | everyone => simp
  | friends => simp
  | users us => simp

/-! ## (1) visible = not locked -/

/-- **Search reply**: every normal result is an indexed item (held by the term map) whose directory
is not locked for the asking user; every item of the locked part is locked; nothing that was found
is dropped by the split. -/
theorem C08_visible_unlocked (K : Query.Cls Ch) (c : Cfg) (sh : Shares.St Comp) (u : Name) (q : List Ch)
    (vis lk : List SItem) (h : searchReply K c sh u q = some (vis, lk)) :
    (∀ it ∈ vis, locked c it.sd u = false ∧ it ∈ sh.tm) ∧
    (∀ it ∈ lk, locked c it.sd u = true ∧ it ∈ sh.tm) ∧
    (∀ it ∈ found K c sh q, it ∈ vis ∨ it ∈ lk) := by
  simp only [searchReply] at h
  split at h
  · simp at h
  · split at h
    · simp at h
    · simp only [splitVisible, Option.some.injEq, Prod.mk.injEq] at h
      obtain ⟨rfl, rfl⟩ := h
      refine ⟨?_, ?_, ?_⟩
      · intro it hit
        simp only [List.mem_filter, Bool.not_eq_eq_eq_not, Bool.not_true] at hit
        exact ⟨hit.2, (mem_query K qp _ _ _ _ _ hit.1).1⟩
      · intro it hit
        simp only [List.mem_filter] at hit
        exact ⟨hit.2, (mem_query K qp _ _ _ _ _ hit.1).1⟩
      · intro it hit
        simp only [List.mem_filter, hit, true_and]
        cases locked c it.sd u <;> simp

/-- … and on every state the operations can reach, "held by the term map" is "indexed now". -/
theorem C08_visible_indexed (K : Query.Cls Ch) (s : S) (hs : s.sh = {}) (ops : List Op) (u : Name) (q : List Ch)
    (vis lk : List SItem)
    (h : searchReply K (run s ops).cfg (run s ops).sh u q = some (vis, lk)) :
    ∀ it ∈ vis ++ lk, it ∈ (run s ops).sh.items := by
  have hinv : Shares.Inv (run s ops).sh := inv_run_sh ops s (by rw [hs]; exact Shares.inv_init)
  obtain ⟨h1, h2, _⟩ := C08_visible_unlocked K _ _ u q vis lk h
  intro it hit
  rcases List.mem_append.1 hit with hit | hit
  · exact (hinv.tm_sync it).1 (h1 it hit).2
  · exact (hinv.tm_sync it).1 (h2 it hit).2

/-- **Shares reply**: every file named in the normal part is an indexed item of a directory that is
not locked for the asking user (and sits in exactly that remote directory). -/
theorem C08_shares_visible_unlocked (c : Cfg) (sh : Shares.St Comp) (u : Name)
    (vis lk : List (List Comp × List Comp)) (h : sharesReply c sh u = some (vis, lk)) :
    (∀ e ∈ vis, ∀ n ∈ e.2, ∃ it ∈ sh.items, locked c it.sd u = false ∧ remoteDirParts c it = e.1 ∧ it.name = n) ∧
    (∀ e ∈ lk, ∀ n ∈ e.2, ∃ it ∈ sh.items, locked c it.sd u = true ∧ remoteDirParts c it = e.1 ∧ it.name = n) := by
  simp only [sharesReply] at h
  split at h
  · simp at h
  · simp only [Option.some.injEq, Prod.mk.injEq] at h
    obtain ⟨rfl, rfl⟩ := h
    constructor
    · intro e he n hn
      simp only [listing, List.mem_map] at he
      obtain ⟨d, _, rfl⟩ := he
      simp only [List.mem_map, List.mem_filter, decide_eq_true_eq, Bool.not_eq_eq_eq_not, Bool.not_true] at hn
      obtain ⟨it, ⟨⟨h1, h2⟩, h3⟩, rfl⟩ := hn
      exact ⟨it, h1, h2, h3, rfl⟩
    · intro e he n hn
      simp only [listing, List.mem_map] at he
      obtain ⟨d, _, rfl⟩ := he
      simp only [List.mem_map, List.mem_filter, decide_eq_true_eq] at hn
      obtain ⟨it, ⟨⟨h1, h2⟩, h3⟩, rfl⟩ := hn
      exact ⟨it, h1, h2, h3, rfl⟩

/-! ## (2) excluded phrases, blocked users -/

/-- **No search reply — normal or locked part — holds an item whose lower-cased path contains a
lower-cased excluded phrase**, whatever the letter case in which the server sent the phrase. -/
theorem C08_no_excluded_phrase (K : Query.Cls Ch) (c : Cfg) (sh : Shares.St Comp) (u : Name) (q : List Ch)
    (vis lk : List SItem) (h : searchReply K c sh u q = some (vis, lk)) :
    ∀ it ∈ vis ++ lk, ∀ ph ∈ c.excluded,
      ¬ ∃ l r, (qp it).map K.fold = l ++ ph.map K.fold ++ r := by
  intro it hit ph hph
  have hf : it ∈ found K c sh q := by
    simp only [searchReply] at h
    split at h
    · simp at h
    · split at h
      · simp at h
      · simp only [splitVisible, Option.some.injEq, Prod.mk.injEq] at h
        obtain ⟨rfl, rfl⟩ := h
        rcases List.mem_append.1 hit with hit | hit <;> exact (List.mem_filter.1 hit).1
  have hx := (mem_query K qp _ _ _ _ _ hf).2.2
  simp only [excludedBy, Bool.not_eq_eq_eq_not, Bool.not_true, List.any_eq_false] at hx
  have := hx ph hph
  have hfold : phraseFolded = true := by decide
  simp only [hfold, if_true] at this
  intro hc
  exact this ((infixB_iff _ _).2 hc)

/-- **Nothing is sent to a blocked user**: no search reply to a user blocked for searches (flag 4),
no shares / directory reply to a user blocked for shares (8); a user blocked for uploads (32) gets
"File not shared." on both upload entry points and the uploads stay as they are. -/
theorem C08_no_reply_to_blocked (K : Query.Cls Ch) (c : Cfg) (sh : Shares.St Comp) (u : Name) :
    (isBlocked c u 4 = true → ∀ q, searchReply K c sh u q = none) ∧
    (isBlocked c u 8 = true → sharesReply c sh u = none ∧ ∀ req, dirReply c sh u req = none) ∧
    (isBlocked c u 32 = true → ∀ xs p,
        onQueue c sh xs u p = (xs, some .notShared) ∧ onRequest c sh xs u p = (xs, some .notShared)) := by
  refine ⟨?_, ?_, ?_⟩
  · intro hb q
    have : searchFlag = 4 := rfl
    simp [searchReply, this, hb]
  · intro hb
    have h1 : sharesFlag = 8 := rfl
    have h2 : dirFlag = 8 := rfl
    exact ⟨by simp [sharesReply, h1, hb], fun req => by simp [dirReply, h2, hb]⟩
  · intro hb xs p
    have h1 : queueFlag = 32 := rfl
    have h2 : requestFlag = 32 := rfl
    have h3 : queueBlockedReason = .notShared := rfl
    have h4 : requestBlockedReason = .notShared := rfl
    exact ⟨by simp [onQueue, h1, h3, hb], by simp [onRequest, h2, h4, hb]⟩

/-! ## (3) admission of uploads -/

/-- **Admission is sound at both entry points** (`PeerTransferQueue`, `PeerTransferRequest`), for
every configuration, index, list of uploads, user and requested string (so: case variants, doubled
or trailing separators, paths through a parent's alias, unknown names — anything that is not
exactly an unlocked item's remote path — create nothing and are refused). -/
theorem C08_admit_sound (c : Cfg) (sh : Shares.St Comp) (xs : List Xfer) (u : Name) (p : List Ch) :
    AdmitSound c sh xs u p (onQueue c sh xs u p) ∧ AdmitSound c sh xs u p (onRequest c sh xs u p) :=
  ⟨onQueue_sound c sh xs u p, onRequest_sound c sh xs u p⟩

/-! ## (4) the management cycle -/

/-- **The finite table**: `manage_shares_changed` on one upload, for every state × abort reason ×
(blocked, not shared) combination (160 rows, from the regenerated transfer table and condition
order). -/
theorem C08_reconcile_table (b n : Bool) (st : St) (r : Option Reason)
    (h1 : st ≠ .complete) (h2 : st ≠ .failed) (h3 : st ≠ .virgin) :
    (r = some .requested → st = .aborted → reconcileSR b n (st, r) = (st, r)) ∧
    (r ≠ some .requested → b = true → reconcileSR b n (st, r) = (.aborted, some .blocked)) ∧
    (r ≠ some .requested → b = false → n = true → reconcileSR b n (st, r) = (.aborted, some .notShared)) ∧
    (r ≠ some .requested → b = false → n = false → st = .aborted → reconcileSR b n (st, r) = (.queued, none)) ∧
    (r ≠ some .requested → b = false → n = false → st ≠ .aborted → reconcileSR b n (st, r) = (st, r)) :=
  reconcileSR_table b n st r h1 h2 h3

/-- COMPLETE and FAILED uploads are left alone. -/
theorem C08_reconcile_finished (b n : Bool) (x : Xfer) (h : x.state = .complete ∨ x.state = .failed) :
    reconcileX b n x = x := by
  cases x with
  | mk u p st r =>
    simp only at h
    rcases h with rfl | rfl <;> rfl

/-- **Post-condition of a management cycle that runs with the shares-changed flag**, lifted from
the table to any list of uploads in any configuration: the uploads keep their places, and every one
that is not COMPLETE / FAILED and whose state lock is free is `Reconciled` (VIRGIN exists only inside
`_add_upload`, between `add` and `queue` of one handler run, never at a settled point). For the
uploads whose lock is held see `C08_change_during_transition` below. The flag is cleared — unless a
state lock is held and the code asks for another look then (`relookWhenLocked`: it does after
`fixes/C08-relook-after-state-lock.patch`). -/
theorem C08_reconcile (s : S) (hflag : s.sharesChanged = true) (hjob : jobWaiting s.flights = false)
    (hU : UniquePaths s.cfg s.sh) :
    (step s .cycle).1.xs.length = s.xs.length ∧
    (step s .cycle).1.sharesChanged = (relookWhenLocked && !s.flights.isEmpty) ∧
    ∀ (k : Nat) (x : Xfer), s.xs[k]? = some x → isLocked s.flights k = false →
      x.state ≠ .complete → x.state ≠ .failed → x.state ≠ .virgin →
      ∃ x', (step s .cycle).1.xs[k]? = some x' ∧ Reconciled s.cfg s.sh x x' := by
  simp only [step, hflag, hjob, if_true, Bool.false_eq_true, if_false, reconcileL, length_reconcileFrom, true_and]
  intro k x hk hfree h1 h2 h3
  refine ⟨reconcile1 s.cfg s.sh x, ?_, reconcile1_spec s.cfg s.sh hU x h1 h2 h3⟩
  rw [getElem?_reconcileFrom, hk]
  simp [cycleOne_free _ _ _ _ _ hfree]

/-- … and with no state lock held at all this is `manage_shares_changed` as a plain map. -/
theorem C08_reconcile_no_lock (s : S) (hflag : s.sharesChanged = true) (hno : s.flights = []) :
    (step s .cycle).1.xs = reconcile s.cfg s.sh s.xs ∧ (step s .cycle).1.flights = [] := by
  simp [step, hflag, hno, jobWaiting, reconcileL_free]

/-- Without the flag a cycle does not touch the uploads' abort state. -/
theorem C08_cycle_idle (s : S) (hflag : s.sharesChanged = false) : (step s .cycle).1 = s := by
  simp only [step, hflag, Bool.false_eq_true, if_false]
  split <;> rfl

/-! ## Every change is followed by a cycle that sees it

`_management_job` snapshots and clears `_management_flags` in the step in which it wakes up, so the
model's `.cycle` is that step together with `manage_shares_changed`; the rest of the job changes
nothing that is modelled. A change that arrives while a job is still suspended in one of its awaits
is therefore simply an op after that `.cycle` — and it sets the flag again.

The ways a change reaches the managers, as ops: the shares API (`share` / `unshare` / `setMode`),
the settings followed by `load_from_settings()` (`reload`: entries dropped, added, their mode /
users list changed — whether the lists were assigned or mutated in place is a matter of Python object
identity the model does not have: it transcribes the code, which announces every entry and every
dropped directory unconditionally), a scan (`scanAll`), and the two polled settings
`settings.users.friends` / `.blocked` (`mutFriends` / `mutBlocked`: effective at once for the lock
checks, announced by the user manager's next `poll`; `setFriends` / `setBlocked` = both at once).

The hypothesis `WF s` (the configured directories are the shared ones, the index is well-formed)
holds in every reachable state: `Entitle.wf_init`, `Entitle.wf_step`, `Entitle.wf_run`. -/

/-- **The shares-changed flag is set by every op that changes anything entitlement depends on as far
as it has been announced** — the shared directories (alias, mode, users), the indexed items, and the
friends / block list as the user manager last saw them — **and only a cycle clears it.** -/
theorem C08_change_requests_cycle (s : S) (hwf : WF s) (op : Op) (hop : op ≠ .cycle)
    (h : s.sharesChanged = true ∨ announcedInputs (step s op).1 ≠ announcedInputs s) :
    (step s op).1.sharesChanged = true := by
  rcases h with h | h
  · exact flag_persists s op hop h
  cases op with
  | cycle => exact absurd rfl hop
  | setFriends l => rfl
  | setBlocked l => rfl
  | scanAll disk => rfl
  | share d disk =>
    simp only [step] at h ⊢
    split
    · rfl
    · simp only at h; exact absurd rfl h
  | unshare p =>
    simp only [step] at h ⊢
    split
    · rfl
    · simp only at h; exact absurd rfl h
  | setMode p m =>
    simp only [step] at h ⊢
    split
    · rfl
    · rename_i hr
      simp only [hr, if_false] at h
      exact absurd rfl h
  | poll =>
    simp only [step] at h ⊢
    split
    · rfl
    · rename_i hr
      simp only [hr] at h
      exact absurd rfl h
  | reload es disk =>
    simp only [step] at h ⊢
    split
    · rename_i hr
      simp only [hr] at h
      exact absurd rfl h
    · rename_i hr
      simp only [hr, if_false] at h
      cases ha : (!es.isEmpty || !(droppedBy s.sh (es.map (·.path))).isEmpty) with
      | true => simp
      | false =>
        exfalso
        obtain ⟨h1, h2, h3⟩ := reload_silent s hwf es ha
        subst h1
        apply h
        simp [announcedInputs, h2, h3, reloadSh]
  | mutFriends l => exact absurd rfl h
  | mutBlocked l => exact absurd rfl h
  | phrases l => exact absurd rfl h
  | search u q => exact absurd rfl h
  | sharesReq u => exact absurd rfl h
  | dirReq u req => exact absurd rfl h
  | queueReq u p => exact absurd rfl h
  | xferReq u p => exact absurd rfl h
  | meth k m => exact absurd rfl h
  | userAbort k => exact absurd rfl h
  | userQueue k => exact absurd rfl h
  | beginCall k c ph => exact absurd rfl h
  | endCall k => exact absurd rfl h

/-- **No announced change is lost**: after an op that changed anything entitlement depends on (as
announced), whatever follows that is not a cycle (requests, further changes — also those raised
while an earlier cycle's job is still suspended), the flag is set when the next cycle starts;
`C08_reconcile` then applies to that cycle, against the configuration as it is at that moment. -/
theorem C08_change_seen_by_next_cycle (s : S) (hwf : WF s) (op : Op) (mid : List Op) (hop : op ≠ .cycle)
    (hmid : ∀ o ∈ mid, o ≠ .cycle)
    (h : announcedInputs (step s op).1 ≠ announcedInputs s) :
    (run (step s op).1 mid).sharesChanged = true := by
  have h0 := C08_change_requests_cycle s hwf op hop (Or.inr h)
  generalize (step s op).1 = s' at h0
  induction mid generalizing s' with
  | nil => exact h0
  | cons o mid ih =>
    simp only [run, List.foldl_cons]
    exact ih (fun o' ho' => hmid o' (by simp [ho'])) _ (flag_persists s' o (hmid o (by simp)) h0)

/-- **The poll announces**: one run of the user manager's polling job leaves its copies equal to the
two settings, touches neither the configuration nor the uploads, and — whenever a setting differed
from its copy, or a change was announced already — the shares-changed flag is set afterwards. So a
friends / block list that differs from what was announced at a polling instant is announced at that
instant (`C08_change_requests_cycle` sees `announcedInputs` change). -/
theorem C08_poll_announces (s : S) :
    (step s .poll).1.seenFriends = s.cfg.friends ∧ (step s .poll).1.seenBlocked = s.cfg.blocked ∧
    (step s .poll).1.cfg = s.cfg ∧ (step s .poll).1.sh = s.sh ∧ (step s .poll).1.xs = s.xs ∧
    (pending s = true → (step s .poll).1.sharesChanged = true) := by
  simp only [step]
  split
  · exact ⟨rfl, rfl, rfl, rfl, rfl, fun _ => rfl⟩
  · rename_i hr
    simp only [Bool.or_eq_true, bne_iff_ne, ne_eq, not_or, Decidable.not_not] at hr
    refine ⟨hr.1, hr.2, rfl, rfl, rfl, ?_⟩
    intro hp
    simp only [pending, Bool.or_eq_true, bne_iff_ne, ne_eq] at hp
    rcases hp with (hp | hp) | hp
    · exact hp
    · exact absurd hr.1.symm hp
    · exact absurd hr.2.symm hp

/-! ### The settings themselves (not what was announced of them)

Full statement — FALSE for the code as it is (known finding
`C08-settings-flip-within-poll-interval`, `C08_flip_between_polls_counterexample`):

    theorem C08_settings_change_pending (s : S) (hwf : WF s) (op : Op) (hop : op ≠ .cycle)
        (h : pending s = true ∨ entitlementInputs (step s op).1 ≠ entitlementInputs s) :
        pending (step s op).1 = true

The friends / block list are *polled*: a list that is changed and changed back to the value of the
last poll within one polling interval (1 s) is never announced, although requests were admitted and
cycles may have reconciled against the transient value. Proved: the statement for every op that is
not such a flip-back (`flipsBack`, a decidable predicate of the state and the op). -/

/-- A pending change stays pending under every op that is neither a cycle nor a flip-back. -/
theorem C08_pending_persists (s : S) (op : Op) (hop : op ≠ .cycle) (hnf : flipsBack s op = false)
    (h : pending s = true) : pending (step s op).1 = true := by
  by_cases hf : s.sharesChanged = true
  · simp [pending, flag_persists s op hop hf]
  · have hf' : s.sharesChanged = false := by simpa using hf
    cases op with
    | cycle => exact absurd rfl hop
    | setFriends l => simp [pending, step]
    | setBlocked l => simp [pending, step]
    | scanAll disk => simp [pending, step]
    | share d disk => simp only [step]; split <;> first | (simp [pending]; done) | exact h
    | unshare p => simp only [step]; split <;> first | (simp [pending]; done) | exact h
    | setMode p m => simp only [step]; split <;> first | (simp [pending]; done) | exact h
    | poll => simp only [step]; split <;> first | (simp [pending]; done) | exact h
    | reload es disk =>
      simp only [step]
      split
      · exact h
      · simp only [pending, hf', Bool.false_or, Bool.or_eq_true, bne_iff_ne, ne_eq] at h ⊢
        rcases h with h | h
        · exact Or.inl (Or.inr h)
        · exact Or.inr h
    | mutFriends l =>
      simp only [pending, hf', Bool.false_or, Bool.or_eq_true, bne_iff_ne, ne_eq] at h
      simp only [pending, step, hf', Bool.false_or, Bool.or_eq_true, bne_iff_ne, ne_eq]
      by_cases hb : s.cfg.blocked = s.seenBlocked
      · by_cases hl : l = s.seenFriends
        · exfalso
          rcases h with h | h
          · subst hl
            simp [flipsBack, hf', hb, h] at hnf
          · exact h hb
        · exact Or.inl hl
      · exact Or.inr hb
    | mutBlocked l =>
      simp only [pending, hf', Bool.false_or, Bool.or_eq_true, bne_iff_ne, ne_eq] at h
      simp only [pending, step, hf', Bool.false_or, Bool.or_eq_true, bne_iff_ne, ne_eq]
      by_cases hb : s.cfg.friends = s.seenFriends
      · by_cases hl : l = s.seenBlocked
        · exfalso
          rcases h with h | h
          · exact h hb
          · subst hl
            simp [flipsBack, hf', hb, h] at hnf
        · exact Or.inr hl
      · exact Or.inl hb
    | phrases l => exact h
    | search u q => exact h
    | sharesReq u => exact h
    | dirReq u req => exact h
    | queueReq u p => exact h
    | xferReq u p => exact h
    | meth k m => exact h
    | userAbort k => exact h
    | userQueue k => exact h
    | beginCall k c ph => exact h
    | endCall k => exact h

/-- **Every op that changes anything entitlement depends on — in the settings themselves — leaves a
change pending** (the flag is set, or the next poll will set it), unless it is a flip-back. -/
theorem C08_settings_change_pending_partial (s : S) (hwf : WF s) (op : Op) (hop : op ≠ .cycle)
    (hnf : flipsBack s op = false)
    (h : pending s = true ∨ entitlementInputs (step s op).1 ≠ entitlementInputs s) :
    pending (step s op).1 = true := by
  rcases h with h | h
  · exact C08_pending_persists s op hop hnf h
  cases op with
  | mutFriends l =>
    have hne : s.cfg.friends ≠ l := by
      intro he
      apply h
      simp [entitlementInputs, step, he]
    by_cases hp : pending s = true
    · exact C08_pending_persists s _ hop hnf hp
    · simp only [pending, Bool.or_eq_true, bne_iff_ne, ne_eq, not_or, Decidable.not_not, Bool.not_eq_true] at hp
      obtain ⟨⟨hf, hfr⟩, hbl⟩ := hp
      simp only [pending, step, hf, Bool.false_or, Bool.or_eq_true, bne_iff_ne, ne_eq]
      left
      intro hl
      exact hne (hfr.trans hl.symm)
  | mutBlocked l =>
    have hne : s.cfg.blocked ≠ l := by
      intro he
      apply h
      simp [entitlementInputs, step, he]
    by_cases hp : pending s = true
    · exact C08_pending_persists s _ hop hnf hp
    · simp only [pending, Bool.or_eq_true, bne_iff_ne, ne_eq, not_or, Decidable.not_not, Bool.not_eq_true] at hp
      obtain ⟨⟨hf, hfr⟩, hbl⟩ := hp
      simp only [pending, step, hf, Bool.false_or, Bool.or_eq_true, bne_iff_ne, ne_eq]
      right
      intro hl
      exact hne (hbl.trans hl.symm)
  | poll =>
    simp only [step] at h ⊢
    split
    · simp [pending]
    · rename_i hr
      simp only [hr] at h
      exact absurd rfl h
  | setFriends l => simp [pending, step]
  | setBlocked l => simp [pending, step]
  | scanAll disk => simp [pending, step]
  | cycle => exact absurd rfl hop
  | share d disk =>
    have := C08_change_requests_cycle s hwf (.share d disk) hop (Or.inr (by
      intro he; apply h
      simp only [announcedInputs, entitlementInputs, Prod.mk.injEq] at he ⊢
      refine ⟨?_, ?_, he.2.2.1, he.2.2.2⟩ <;> (simp only [step]; split <;> rfl)))
    simp [pending, this]
  | unshare p =>
    have := C08_change_requests_cycle s hwf (.unshare p) hop (Or.inr (by
      intro he; apply h
      simp only [announcedInputs, entitlementInputs, Prod.mk.injEq] at he ⊢
      refine ⟨?_, ?_, he.2.2.1, he.2.2.2⟩ <;> (simp only [step]; split <;> rfl)))
    simp [pending, this]
  | setMode p m =>
    have := C08_change_requests_cycle s hwf (.setMode p m) hop (Or.inr (by
      intro he; apply h
      simp only [announcedInputs, entitlementInputs, Prod.mk.injEq] at he ⊢
      refine ⟨?_, ?_, he.2.2.1, he.2.2.2⟩ <;> (simp only [step]; split <;> rfl)))
    simp [pending, this]
  | reload es disk =>
    have := C08_change_requests_cycle s hwf (.reload es disk) hop (Or.inr (by
      intro he; apply h
      simp only [announcedInputs, entitlementInputs, Prod.mk.injEq] at he ⊢
      refine ⟨?_, ?_, he.2.2.1, he.2.2.2⟩ <;> (simp only [step]; split <;> rfl)))
    simp [pending, this]
  | phrases l => exact absurd rfl h
  | search u q => exact absurd rfl h
  | sharesReq u => exact absurd rfl h
  | dirReq u req => exact absurd rfl h
  | queueReq u p => exact absurd rfl h
  | xferReq u p => exact absurd rfl h
  | meth k m => exact absurd rfl h
  | userAbort k => exact absurd rfl h
  | userQueue k => exact absurd rfl h
  | beginCall k c ph => exact absurd rfl h
  | endCall k => exact absurd rfl h

/-- **No change of the settings is lost** (flip-backs apart): after an op that changed anything
entitlement depends on, whatever follows that is neither a cycle nor a flip-back — requests, state
changes, further changes, polls — the user manager's next poll leaves the shares-changed flag set;
the cycle this requests reconciles every upload against the configuration of that moment
(`C08_reconcile`). -/
theorem C08_change_seen_by_next_cycle_partial (s : S) (hwf : WF s) (op : Op) (mid : List Op)
    (hop : op ≠ .cycle) (hmid : ∀ o ∈ mid, o ≠ .cycle) (hnf : noFlipBack s (op :: mid) = true)
    (h : entitlementInputs (step s op).1 ≠ entitlementInputs s) :
    (run (step s op).1 (mid ++ [.poll])).sharesChanged = true := by
  simp only [noFlipBack, Bool.and_eq_true, Bool.not_eq_true'] at hnf
  have h0 := C08_settings_change_pending_partial s hwf op hop hnf.1 (Or.inr h)
  have key : ∀ (mid : List Op) (s' : S), (∀ o ∈ mid, o ≠ .cycle) → pending s' = true →
      noFlipBack s' mid = true → (run s' (mid ++ [.poll])).sharesChanged = true := by
    intro mid
    induction mid with
    | nil => intro s' _ h0 _; exact (C08_poll_announces s').2.2.2.2.2 h0
    | cons o mid ih =>
      intro s' hmid h0 hn
      simp only [noFlipBack, Bool.and_eq_true, Bool.not_eq_true'] at hn
      simp only [run, List.cons_append, List.foldl_cons]
      exact ih _ (fun o' ho' => hmid o' (by simp [ho']))
        (C08_pending_persists s' o (hmid o (by simp)) hn.1 h0) hn.2
  exact key mid _ hmid h0 hnf.2

/-- **`load_from_settings()` makes the shared directories exactly those of the settings**: the
configured directories are the entries, every indexed item belongs to a listed directory (what the
dropped directories held is not indexed any more — nobody is `Entitled` to it, the cycle the reload
requests aborts its unfinished uploads with "File not shared", `C08_reconcile`), and the cycle is
requested unless the settings name no directory and none was shared. -/
theorem C08_reload_exact (s : S) (hwf : WF s) (es : List DirInfo) (disk : List (Shares.File Comp))
    (hn : (es.map (·.path)).Nodup) :
    (step s (.reload es disk)).1.cfg.dirs = es ∧
    (step s (.reload es disk)).1.sh.paths = es.map (·.path) ∧
    (∀ it ∈ (step s (.reload es disk)).1.sh.items, it.sd ∈ es.map (·.path)) ∧
    ((es ≠ [] ∨ ∃ p ∈ s.sh.paths, p ∉ es.map (·.path)) → (step s (.reload es disk)).1.sharesChanged = true) := by
  have hi := inv_reload s.sh (es.map (·.path)) disk hwf.sh hn
  simp only [step, hn, not_true_eq_false, if_false]
  refine ⟨trivial, hi.2, ?_, ?_⟩
  · intro it hit
    have := hi.1.owner it hit
    rw [hi.2] at this
    exact this
  · rintro (h | ⟨p, hp, hnp⟩)
    · have : es.isEmpty = false := by cases es <;> simp at h ⊢
      simp [this]
    · have : (droppedBy s.sh (es.map (·.path))).isEmpty = false := by
        have hm : p ∈ droppedBy s.sh (es.map (·.path)) := by
          simp only [droppedBy, List.mem_filter, Bool.not_eq_eq_eq_not, Bool.not_true]
          exact ⟨hp, by simpa using hnp⟩
        cases hd : droppedBy s.sh (es.map (·.path)) with
        | nil => rw [hd] at hm; simp at hm
        | cons a l => rfl
      simp [this]

/-! ## A change while a state method of the upload is in flight

Every public state method runs under the transfer's `_state_lock` and can be suspended while it
holds it: `pause()` / `abort()` of an INITIALIZING / UPLOADING upload wait for the task they cancelled
(the file connection being closed), and every transition waits for its state listeners. A
management cycle that runs meanwhile takes its decision on what the upload shows at that instant;
the state method it decides on (`abort(reason=…)`, the re-queue) waits for the lock — the job with
it, and the management task starts no other job — and is dispatched on the state the upload has when
its turn comes, after the holder and after every call that was made before. -/

/-- Full statement — FALSE for the code as it is (known finding, proposed:
`C08-requeue-behind-state-lock-not-reevaluated`, `C08_requeue_behind_lock_counterexample`):

    … the same without the hypothesis `hq`

An upload that SHOWS a state the cycle takes for settled — ABORTED, COMPLETE, FAILED — while its lock
is still held (the listeners are being told) and a re-queue is waiting behind that lock is looked at
before the re-queue runs, and by nobody afterwards. Proved: the statement for every other held lock.

**An upload that some condition applies to when the cycle looks at it — its user is blocked, its
file is not shared with the user any more (or the user asked for the abort) — while one of its state
methods is in flight ends, once the lock is released, ABORTED for that reason (or for the reason of an
abort that was under way or waiting: the user's), or COMPLETE / FAILED — never PAUSED, QUEUED,
INITIALIZING or UPLOADING.** Whatever call holds the lock, in whichever of its two suspension points,
and whatever calls wait behind it. -/
theorem C08_change_during_transition_partial (s : S) (hflag : s.sharesChanged = true)
    (hjob : jobWaiting s.flights = false) (k : Nat) (x : Xfer) (f : Flight)
    (hk : s.xs[k]? = some x) (hf : flightOf s.flights k = some f) (hv3 : x.state ≠ .virgin) (r : Reason)
    (hv : verdict (userBlocked s.cfg x) (fileNotShared s.cfg s.sh x) x.reason = some r)
    (hq : (x.state = .complete ∨ x.state = .failed ∨ x.state = .aborted) → ∀ c ∈ f.pendingCalls, c.m ≠ .queue) :
    ∃ x', (run s [.cycle, .endCall k]).xs[k]? = some x' ∧
      isLocked (run s [.cycle, .endCall k]).flights k = false ∧ x'.user = x.user ∧ x'.path = x.path ∧
      ((x'.state = .aborted ∧ (x'.reason = some r ∨ ∃ c ∈ f.pendingCalls, c.m = .abort ∧ x'.reason = c.r)) ∨
        x'.state = .complete ∨ x'.state = .failed) := by
  obtain ⟨h1, h2⟩ := cycle_end_locked s hflag hjob k x f hk hf
  have hlock : isLocked s.flights k = true := by simp [isLocked, hf]
  have hact := cycleAct_of_verdict _ _ x.state x.reason r hv
  by_cases hfin : x.state = .complete ∨ x.state = .failed
  · -- COMPLETE / FAILED: left alone by the cycle, every pending call is refused
    have hco : cycleOne s.cfg s.sh s.flights k x = (x, none) := by
      simp [cycleOne, hlock, Xfer.sr, hact, hfin]
    rw [hco] at h1
    have hrun : runCalls f.pendingCalls x.sr = x.sr :=
      runCalls_refused _ _ (by rcases hfin with h | h <;> simp [Xfer.sr, h])
        (hq (by rcases hfin with h | h <;> simp [h]))
    refine ⟨_, h1, h2, rfl, rfl, Or.inr ?_⟩
    simp only [Option.toList_none, List.append_nil]
    rw [hrun]
    exact hfin
  · by_cases hab : x.state = .aborted
    · -- shows ABORTED: the reason is written directly, every pending call is refused
      have hco : cycleOne s.cfg s.sh s.flights k x = (x.withSR (x.state, some r), none) := by
        simp only [cycleOne, hlock, if_true, Xfer.sr, hact]
        simp [hab]
      rw [hco] at h1
      have hrun : runCalls f.pendingCalls (x.withSR (x.state, some r)).sr = (x.withSR (x.state, some r)).sr :=
        runCalls_refused _ _ (by simp [Xfer.sr, Xfer.withSR, hab]) (hq (by simp [hab]))
      refine ⟨_, h1, h2, rfl, rfl, Or.inl ?_⟩
      simp only [Option.toList_none, List.append_nil, hrun]
      exact ⟨by simp [Xfer.withSR, Xfer.sr, hab], Or.inl (by simp [Xfer.withSR, Xfer.sr])⟩
    · -- a live state: `abort(reason=r)` waits for the lock and runs after everything that was pending
      have hco : cycleOne s.cfg s.sh s.flights k x = (x, some { m := .abort, r := some r, job := true }) := by
        simp only [not_or] at hfin
        simp [cycleOne, hlock, Xfer.sr, hact, hfin.1, hfin.2, hab]
      rw [hco] at h1
      simp only [Option.toList_some, runCalls_append] at h1
      refine ⟨_, h1, h2, rfl, rfl, ?_⟩
      have hone : ∀ (c : Call) (y : St × Option Reason), runCalls [c] y = runCall c y := fun _ _ => rfl
      simp only [hone, Xfer.withSR]
      have hy3 := runCalls_not_virgin f.pendingCalls x.sr (by simpa [Xfer.sr] using hv3)
      rcases abort_lands (some r) true (runCalls f.pendingCalls x.sr) with h | ⟨h, hst⟩
      · left
        rw [h]
        exact ⟨rfl, Or.inl rfl⟩
      · rw [h]
        rcases hst with hst | hst | hst | hst
        · exact absurd hst hy3
        · exact Or.inr (Or.inl hst)
        · exact Or.inr (Or.inr hst)
        · left
          refine ⟨hst, Or.inr ?_⟩
          exact runCalls_aborted f.pendingCalls f.pendingCalls (fun _ h => h) x.sr
            (fun h => absurd (by simpa [Xfer.sr] using h) hab) hst

/-- … and until that lock is released the upload stays as it shows, the job of that cycle waits and
the management task starts no other job (`busy_cycle_noop`): whatever changes meanwhile raises the
flag again (`C08_change_requests_cycle`) for the cycle that follows. -/
theorem C08_job_waits_for_locked_upload (s : S) (hflag : s.sharesChanged = true)
    (hjob : jobWaiting s.flights = false) (k : Nat) (x : Xfer) (f : Flight)
    (hk : s.xs[k]? = some x) (hf : flightOf s.flights k = some f) (r : Reason)
    (hv : verdict (userBlocked s.cfg x) (fileNotShared s.cfg s.sh x) x.reason = some r)
    (hlive : x.state ≠ .complete ∧ x.state ≠ .failed ∧ x.state ≠ .aborted) :
    (step s .cycle).1.xs[k]? = some x ∧ jobWaiting (step s .cycle).1.flights = true ∧
      step (step s .cycle).1 .cycle = ((step s .cycle).1, .busy) := by
  have hlock : isLocked s.flights k = true := by simp [isLocked, hf]
  have hfk : f.k = k := by simpa [flightOf] using List.find?_some hf
  have hfm : f ∈ s.flights := List.mem_of_find?_eq_some hf
  have hact := cycleAct_of_verdict _ _ x.state x.reason r hv
  have hco : cycleOne s.cfg s.sh s.flights k x = (x, some { m := .abort, r := some r, job := true }) := by
    simp [cycleOne, hlock, Xfer.sr, hact, hlive.1, hlive.2.1, hlive.2.2]
  have hw : jobWaiting (step s .cycle).1.flights = true := by
    rw [cycle_flights s hflag hjob]
    simp only [reconcileL, jobWaiting]
    rw [List.any_map]
    apply List.any_eq_true.2
    refine ⟨f, hfm, ?_⟩
    simp [hfk, hk, hco]
  refine ⟨?_, hw, busy_cycle_noop _ hw⟩
  rw [cycle_xs s hflag hjob, getElem?_reconcileFrom, hk]
  simp [hco]

/-- **… whatever happens elsewhere while the lock is held**: configuration changes (they raise the
flag again), polls, scans, searches, calls on the other uploads — ordinary or suspended —, releases of
other locks, further cycle requests (the management task starts no job while this one waits) between
the cycle and the release change nothing about where the upload ends. -/
theorem C08_change_during_transition_interleaved (s : S) (hflag : s.sharesChanged = true)
    (hjob : jobWaiting s.flights = false) (k : Nat) (x : Xfer) (f : Flight)
    (hk : s.xs[k]? = some x) (hf : flightOf s.flights k = some f) (r : Reason)
    (hv : verdict (userBlocked s.cfg x) (fileNotShared s.cfg s.sh x) x.reason = some r)
    (hlive : x.state ≠ .complete ∧ x.state ≠ .failed ∧ x.state ≠ .aborted)
    (mid : List Op) (hmid : ∀ o ∈ mid, Op.leaves k o = true) :
    (run s (.cycle :: mid ++ [.endCall k])).xs[k]? = (run s [.cycle, .endCall k]).xs[k]? ∧
      isLocked (run s (.cycle :: mid ++ [.endCall k])).flights k = false := by
  have hlock : isLocked s.flights k = true := by simp [isLocked, hf]
  have hact := cycleAct_of_verdict _ _ x.state x.reason r hv
  have hco : cycleOne s.cfg s.sh s.flights k x = (x, some { m := .abort, r := some r, job := true }) := by
    simp [cycleOne, hlock, Xfer.sr, hact, hlive.1, hlive.2.1, hlive.2.2]
  obtain ⟨hx1, hf1⟩ := cycle_locked s hflag hjob k x f hk hf
  rw [hco] at hx1 hf1
  have hw1 : ({ f with waiters := f.waiters ++ (some ({ m := .abort, r := some r, job := true } : Call)).toList } :
      Flight).waiters.any (·.job) = true := by simp
  obtain ⟨hx2, hf2⟩ := leaves_run mid _ k _ _ hx1 hf1 hw1 hmid
  have e1 : run s (.cycle :: mid ++ [.endCall k]) = (step (run (step s .cycle).1 mid) (.endCall k)).1 := by
    simp [run, List.foldl_append]
  have e2 : run s [.cycle, .endCall k] = (step (step s .cycle).1 (.endCall k)).1 := rfl
  rw [e1, e2]
  obtain ⟨a1, a2⟩ := endCall_at _ k _ _ hx2 hf2
  obtain ⟨b1, _⟩ := endCall_at _ k _ _ hx1 hf1
  exact ⟨a1.trans b1.symm, a2⟩

/-- **In the property's words**: the user is blocked for uploads, or is not entitled to the file any
more, when the cycle looks at an upload that was not aborted on the user's request and has a state
method in flight — the calls in flight or waiting being the user's own (an abort carries
`Requested`). Once the lock is released the upload is ABORTED with the matching reason (Blocked
first) or on the user's request, or it has finished. -/
theorem C08_change_during_transition (s : S) (hflag : s.sharesChanged = true)
    (hjob : jobWaiting s.flights = false) (hU : UniquePaths s.cfg s.sh) (k : Nat) (x : Xfer) (f : Flight)
    (hk : s.xs[k]? = some x) (hf : flightOf s.flights k = some f) (hv3 : x.state ≠ .virgin)
    (hreq : x.reason ≠ some .requested)
    (hnp : isBlocked s.cfg x.user 32 = true ∨ ¬ Entitled s.cfg s.sh x.user x.path)
    (huser : ∀ c ∈ f.pendingCalls, c.m = .abort → c.r = some .requested)
    (hq : (x.state = .complete ∨ x.state = .failed ∨ x.state = .aborted) → ∀ c ∈ f.pendingCalls, c.m ≠ .queue) :
    ∃ x', (run s [.cycle, .endCall k]).xs[k]? = some x' ∧
      isLocked (run s [.cycle, .endCall k]).flights k = false ∧
      ((x'.state = .aborted ∧
          (x'.reason = some (if isBlocked s.cfg x.user 32 then .blocked else .notShared) ∨
            x'.reason = some .requested)) ∨
        x'.state = .complete ∨ x'.state = .failed) := by
  have he : evalFlag = 32 := rfl
  have hv : verdict (userBlocked s.cfg x) (fileNotShared s.cfg s.sh x) x.reason =
      some (if isBlocked s.cfg x.user 32 then .blocked else .notShared) := by
    rw [verdict_spec]
    simp only [hreq, if_false, userBlocked, he]
    cases hb : isBlocked s.cfg x.user 32 with
    | true => simp
    | false =>
      have hne : ¬ Entitled s.cfg s.sh x.user x.path := by
        rcases hnp with h | h
        · rw [hb] at h; cases h
        · exact h
      have := (findShared_isNone_iff s.cfg s.sh hU x.user x.path).2 hne
      simp [fileNotShared, this]
  obtain ⟨x', h1, h2, _, _, h5⟩ := C08_change_during_transition_partial s hflag hjob k x f hk hf hv3 _ hv hq
  refine ⟨x', h1, h2, ?_⟩
  rcases h5 with ⟨ha, hr | ⟨c, hc, hm, hr⟩⟩ | h | h
  · exact Or.inl ⟨ha, Or.inl hr⟩
  · exact Or.inl ⟨ha, Or.inr (hr.trans (huser c hc hm))⟩
  · exact Or.inr (Or.inl h)
  · exact Or.inr (Or.inr h)

/-! ## Uploads aborted on the user's request stay aborted -/

/-- **Requested is sticky**: whatever the peers request and however often the friends list, the
block list and the shared directories change and the management cycle runs, an upload aborted on
the user's request stays ABORTED with reason Requested — until the user himself queues it again
(by an ordinary call, or one that is suspended half-way: `beginCall`); its state lock stays free,
since every other method is refused at once. -/
theorem C08_requested_sticky (ops : List Op) (s : S) (k : Nat) (x : Xfer) (hk : s.xs[k]? = some x)
    (ha : x.state = .aborted) (hr : x.reason = some .requested) (hfree : isLocked s.flights k = false)
    (hops : ∀ op ∈ ops, Op.requeues k op = false) :
    (run s ops).xs[k]? = some x ∧ isLocked (run s ops).flights k = false := by
  induction ops generalizing s with
  | nil => exact ⟨hk, hfree⟩
  | cons op ops ih =>
    simp only [run, List.foldl_cons]
    have h := sticky_step s op k x hk ha hr hfree (hops op (by simp))
    exact ih _ h.1 h.2 (fun o ho => hops o (by simp [ho]))

/-! ## Known finding: the directory listing ignores the share mode -/

/-- What does hold for `PeerDirectoryContentsReply`: nothing goes to a user blocked for shares, and
the listing holds only indexed items of exactly the requested remote directory — so it is confined to
unlocked files **provided** that directory is not locked for the asking user. -/
theorem C08_directory_listing_partial (c : Cfg) (sh : Shares.St Comp) (u : Name) (req : List Ch)
    (l : List (List Ch × List SItem)) (h : dirReply c sh u req = some l) :
    isBlocked c u 8 = false ∧
    (∀ e ∈ l, e.1 = req ∧ ∀ it ∈ e.2, it ∈ sh.items ∧ remoteDir c it = req) ∧
    ((∀ it ∈ sh.items, remoteDir c it = req → locked c it.sd u = false) →
      ∀ e ∈ l, ∀ it ∈ e.2, locked c it.sd u = false) := by
  have hd : dirFlag = 8 := rfl
  simp only [dirReply, hd] at h
  split at h
  · simp at h
  · rename_i hb
    simp only [Option.some.injEq] at h
    subst h
    have key : ∀ e ∈ directoryReply c sh req, e.1 = req ∧ ∀ it ∈ e.2, it ∈ sh.items ∧ remoteDir c it = req := by
      intro e he
      simp only [directoryReply] at he
      split at he
      · simp only [List.mem_singleton] at he
        subst he
        refine ⟨rfl, fun it hit => ?_⟩
        simpa using hit
      · simp at he
    refine ⟨by simpa using hb, key, ?_⟩
    intro hall e he it hit
    exact hall it ((key e he).2 it hit).1 ((key e he).2 it hit).2

namespace Ex
/-- 0 `a`, 1 `A`, 2 `b`, 3 `B`, 4 `.`, 5 space, 6 `*`, 7 `-` (the alphabet of `C07.Ex`) -/
def K : Query.Cls Ch where
  isWord c := c < 4
  fold c := if c = 1 then 0 else if c = 3 then 2 else c
  isSpace c := c = 5
  star := 6
  dash := 7

/-- folders `m` (friends only, alias `a`) and `n` (everyone, alias `b`); files `m/aB.b`, `m/b/A.a`, `n/bB.b` -/
def disk : List (Shares.File Comp) := [⟨[[0]], [0, 3, 4, 2]⟩, ⟨[[0], [2]], [1, 4, 0]⟩, ⟨[[2]], [2, 3, 4, 2]⟩]
def dm : DirInfo := { path := [[0]], alias := [0], mode := .friends }
def dn : DirInfo := { path := [[2]], alias := [2], mode := .everyone }
def s0 : S := { cls := K }
/-- remote path of `m/aB.b` : `@@a\aB.b` -/
def pm : List Ch := [64, 64, 0, 92, 0, 3, 4, 2]
/-- remote path of `n/bB.b` : `@@b\bB.b` -/
def pn : List Ch := [64, 64, 2, 92, 2, 3, 4, 2]

/-- user 1 is a friend, user 2 is not; both ask for the friends-only file, 2 also for the public one -/
def setup : List Op := [.setFriends [1], .share dm disk, .share dn disk, .cycle,
  .queueReq 1 pm, .queueReq 2 pm, .xferReq 2 pn]
end Ex

/-- **The listing of a friends-only directory is sent to a user who is not a friend** (witness
replayed on the real code on every run: known finding `C08-directory-reply-ignores-lock`). -/
theorem C08_directory_listing_counterexample :
    ∃ (c : Cfg) (sh : Shares.St Comp) (u : Name) (req : List Ch) (l : List (List Ch × List SItem)),
      dirReply c sh u req = some l ∧ ∃ e ∈ l, ∃ it ∈ e.2, locked c it.sd u = true :=
  ⟨(run Ex.s0 Ex.setup).cfg, (run Ex.s0 Ex.setup).sh, 2, [64, 64, 0, 92, 2],
    [([64, 64, 0, 92, 2], [⟨[[0]], [[2]], [1, 4, 0]⟩])], by decide, _, List.mem_singleton.2 rfl, _,
    List.mem_singleton.2 rfl, by decide⟩

/-! ## Known finding: a polled setting changed and changed back between two polls -/

namespace Ex
/-- the friends-only folder `m` and the public folder `n` are shared, nobody is a friend; user 1 is
made a friend, asks for the friends-only file `m/aB.b` (admitted: he is entitled at that moment) … -/
def excursion : List Op := [.share dm disk, .share dn disk, .cycle, .mutFriends [1], .queueReq 1 pm]
end Ex

/-- **… and is taken off the friends list again before the user manager's next poll**: the op changes
what entitlement depends on and leaves nothing pending (the negation of the full statement
`C08_settings_change_pending`, on exactly the class `flipsBack` excludes); the poll finds the list as
it last saw it, no cycle is requested, and the upload stays QUEUED for a user the file is not shared
with (witness replayed on the real code: known finding `C08-settings-flip-within-poll-interval`). -/
theorem C08_flip_between_polls_counterexample :
    ∃ (s : S) (op : Op), WF s ∧ op ≠ .cycle ∧ flipsBack s op = true ∧
      entitlementInputs (step s op).1 ≠ entitlementInputs s ∧ pending (step s op).1 = false ∧
      (run (step s op).1 [.poll, .cycle]).xs = [⟨1, Ex.pm, .queued, none⟩] ∧
      findShared (run (step s op).1 [.poll, .cycle]).cfg (run (step s op).1 [.poll, .cycle]).sh 1 Ex.pm = none :=
  ⟨run Ex.s0 Ex.excursion, .mutFriends [], wf_run _ _ (wf_init _ rfl rfl), fun h => Op.noConfusion h, by decide,
    by decide, by decide, by decide, by decide⟩

/-! ## Known finding (proposed): a re-queue waiting behind the lock of an upload that shows a settled state -/

namespace ExLock
open Ex
/-- the user aborts the friend's upload — the abort is through but for its listeners (the upload shows
ABORTED / Requested, its lock is held) — and queues it again at once (the call waits for the lock);
the friend is taken off the friends list; the cycle looks at the upload: aborted on the user's
request, nothing to do; the listeners return, the re-queue runs -/
def stale : List Op := [.beginCall 0 { m := .abort, r := some .requested } .notifying, .userQueue 0,
  .setFriends [], .cycle, .endCall 0]
end ExLock

/-- **… and the upload is QUEUED for a user the file is not shared with, no lock is held, no cycle is
requested: nobody will look at it again** (the negation of `C08_change_during_transition_partial`
without `hq`, on exactly the class `hq` excludes; witness replayed on the real code while the
finding is listed). -/
theorem C08_requeue_behind_lock_counterexample (hcode : relookWhenLocked = false) :
    ∃ (s : S) (k : Nat) (x : Xfer) (f : Flight) (r : Reason),
      s.sharesChanged = true ∧ jobWaiting s.flights = false ∧ s.xs[k]? = some x ∧
      flightOf s.flights k = some f ∧ x.state = .aborted ∧
      verdict (userBlocked s.cfg x) (fileNotShared s.cfg s.sh x) x.reason = some r ∧
      (∃ c ∈ f.pendingCalls, c.m = .queue) ∧
      (run s [.cycle, .endCall k]).xs[k]? = some ⟨1, Ex.pm, .queued, none⟩ ∧
      findShared (run s [.cycle, .endCall k]).cfg (run s [.cycle, .endCall k]).sh 1 Ex.pm = none ∧
      (run s [.cycle, .endCall k]).flights = [] ∧ (run s [.cycle, .endCall k]).sharesChanged = false := by
  refine ⟨run Ex.s0 (Ex.setup ++ ExLock.stale.take 3), 0, ⟨1, Ex.pm, .aborted, some .requested⟩,
    { k := 0, call := { m := .abort, r := some .requested }, phase := .notifying, waiters := [{ m := .queue }] },
    .requested, by decide, by decide, by decide, by decide, rfl, by decide,
    ⟨{ m := .queue }, by decide, rfl⟩, by decide, by decide, by decide, ?_⟩
  -- (the one conjunct that depends on which code is modelled)
  have h1 : (step (run Ex.s0 (Ex.setup ++ ExLock.stale.take 3)) .cycle).1.sharesChanged = false := by
    simp [step, hcode]
    decide
  exact h1

/-! ### … repaired by `fixes/C08-relook-after-state-lock.patch` (`relookWhenLocked = true`)

With the patch `manage_shares_changed` asks for another shares cycle whenever it meets an upload whose
state lock is held. The flag then survives every cycle that still meets a held lock, so the first
cycle that finds every lock free runs with the flag set and `C08_reconcile` applies to ALL uploads —
also to the one a waiting call changed after an earlier cycle had looked. -/

/-- the cycles of `ops` that actually run a job all meet a held state lock -/
def cyclesMeetLocks (s : S) : List Op → Bool
  | [] => true
  | .cycle :: l => (jobWaiting s.flights || !s.flights.isEmpty) && cyclesMeetLocks (step s .cycle).1 l
  | o :: l => cyclesMeetLocks (step s o).1 l

/-- **(patched code) No change is lost behind a state lock**: once a change is announced, the flag
stays set through everything — further ops of any kind, busy cycle requests, cycles that run while
some state lock is held — until a cycle runs with no lock held; that cycle reconciles every upload
against the configuration of that moment (`C08_reconcile`, `C08_reconcile_no_lock`). -/
theorem C08_relook_until_unlocked (hcode : relookWhenLocked = true) (ops : List Op) (s : S)
    (hflag : s.sharesChanged = true) (hops : cyclesMeetLocks s ops = true) :
    (run s ops).sharesChanged = true := by
  induction ops generalizing s with
  | nil => exact hflag
  | cons op ops ih =>
    simp only [run, List.foldl_cons]
    by_cases hop : op = .cycle
    · subst hop
      simp only [cyclesMeetLocks, Bool.and_eq_true, Bool.or_eq_true, Bool.not_eq_true'] at hops
      refine ih _ ?_ hops.2
      by_cases hj : jobWaiting s.flights = true
      · rw [busy_cycle_noop s hj]; exact hflag
      · have hne : s.flights.isEmpty = false := by
          rcases hops.1 with h | h
          · exact absurd h hj
          · exact h
        simp [step, hj, hflag, hcode, hne]
    · have hops' : cyclesMeetLocks (step s op).1 ops = true := by
        cases op <;> first | exact absurd rfl hop | exact hops
      exact ih _ (flag_persists s op hop hflag) hops'

/-- (patched code) … on the witness of the finding: after the re-queue has run the flag is still
set, and the next cycle aborts the upload for "File not shared" -/
theorem C08_requeue_behind_lock_repaired (hcode : relookWhenLocked = true) :
    (run Ex.s0 (Ex.setup ++ ExLock.stale)).sharesChanged = true ∧
    (run Ex.s0 (Ex.setup ++ ExLock.stale ++ [.cycle])).xs[0]? = some ⟨1, Ex.pm, .aborted, some .notShared⟩ := by
  have key : ∀ s : S, s.sharesChanged = true → jobWaiting s.flights = false → s.flights.isEmpty = false →
      (step s .cycle).1 = { s with xs := (reconcileL s.cfg s.sh s.flights s.xs).1,
                                   flights := (reconcileL s.cfg s.sh s.flights s.xs).2, sharesChanged := true } := by
    intro s h1 h2 h3
    simp [step, h1, h2, h3, hcode]
  have e : run Ex.s0 (Ex.setup ++ ExLock.stale) =
      (step (step (run Ex.s0 (Ex.setup ++ ExLock.stale.take 3)) .cycle).1 (.endCall 0)).1 := by
    simp [run, ExLock.stale, List.foldl_append]
  have e2 : run Ex.s0 (Ex.setup ++ ExLock.stale ++ [.cycle]) = (step (run Ex.s0 (Ex.setup ++ ExLock.stale)) .cycle).1 := by
    simp [run, List.foldl_append]
  rw [e2, e, key _ (by decide) (by decide) (by decide)]
  constructor
  · decide
  · decide

/-! ## Non-vacuity -/

namespace Ex
/-- every state the examples reach is well-formed (hypothesis `WF` of the change theorems) -/
example : WF (run s0 setup) := wf_run _ _ (wf_init _ rfl rfl)
/-- **a directory dropped from the settings while the other one stays as it is** (`[dm]` reloaded,
`n` is gone): the reload requests a cycle, the cycle aborts the upload out of the dropped directory -/
example : (run s0 (setup ++ [.reload [dm] disk])).sharesChanged = true := by decide
example : (run s0 (setup ++ [.reload [dm] disk, .cycle])).xs =
    [⟨1, pm, .queued, none⟩, ⟨2, pn, .aborted, some .notShared⟩] := by decide
/-- every directory dropped: announced as well (after `fixes/C08-reload-announces-removed.patch`) -/
example : (run s0 (setup ++ [.reload [] disk])).sharesChanged = true := by decide
example : (run s0 (setup ++ [.reload [] disk, .cycle])).xs =
    [⟨1, pm, .aborted, some .notShared⟩, ⟨2, pn, .aborted, some .notShared⟩] := by decide
/-- `m` becomes a named-users directory for users 1 and 2, then user 1 is taken off its users list
(in the settings, in place or not) and the settings are reloaded: aborted, and queued again when he
is put back -/
example : (run s0 (setup ++ [.reload [{ dm with mode := .users [1, 2] }, dn] disk, .cycle,
      .reload [{ dm with mode := .users [2] }, dn] disk, .cycle])).xs =
    [⟨1, pm, .aborted, some .notShared⟩, ⟨2, pn, .queued, none⟩] := by decide
example : (run s0 (setup ++ [.reload [{ dm with mode := .users [1, 2] }, dn] disk, .cycle,
      .reload [{ dm with mode := .users [2] }, dn] disk, .cycle,
      .reload [{ dm with mode := .users [1, 2] }, dn] disk, .cycle])).xs =
    [⟨1, pm, .queued, none⟩, ⟨2, pn, .queued, none⟩] := by decide
/-- user 1 is taken off `settings.users.friends` (in place): pending but not announced until the
user manager polls; the poll sets the flag, the cycle aborts his upload -/
example : pending (run s0 (setup ++ [.mutFriends []])) = true ∧
    (run s0 (setup ++ [.mutFriends []])).sharesChanged = false := by decide
example : (run s0 (setup ++ [.mutFriends [], .cycle])).xs = (run s0 setup).xs := by decide
example : (run s0 (setup ++ [.mutFriends [], .queueReq 2 pn, .poll])).sharesChanged = true := by decide
example : (run s0 (setup ++ [.mutFriends [], .poll, .cycle])).xs =
    [⟨1, pm, .aborted, some .notShared⟩, ⟨2, pn, .queued, none⟩] := by decide
example : noFlipBack (run s0 setup) [.mutFriends [], .queueReq 2 pn, .mutBlocked [(2, 32)]] = true := by decide
/-- admission: the friend's upload exists, the stranger's request for the locked file created
nothing, his request for the public file did -/
example : (run s0 setup).xs = [⟨1, pm, .queued, none⟩, ⟨2, pn, .queued, none⟩] := by decide
example : onQueue (run s0 (setup.take 5)).cfg (run s0 (setup.take 5)).sh (run s0 (setup.take 5)).xs 2 pm =
    ([⟨1, pm, .queued, none⟩], some .notShared) := by decide
/-- case variant of a shared path (`@@a\AB.b`): refused, nothing created -/
example : (onQueue (run s0 setup).cfg (run s0 setup).sh [] 1 [64, 64, 0, 92, 1, 3, 4, 2]) = ([], some .notShared) := by decide
/-- the index of the example has unique remote paths -/
example : ((run s0 setup).sh.items.map (remotePath (run s0 setup).cfg)).Nodup := by decide
example : UniquePaths (run s0 setup).cfg (run s0 setup).sh := by unfold UniquePaths; decide
/-- un-friending user 1 and blocking user 2 for uploads: after the cycle both are ABORTED, with
"File not shared" and "Blocked"; undoing both queues them again; a user abort in between stays -/
example : (run s0 (setup ++ [.setFriends [], .setBlocked [(2, 32)], .cycle])).xs =
    [⟨1, pm, .aborted, some .notShared⟩, ⟨2, pn, .aborted, some .blocked⟩] := by decide
example : (run s0 (setup ++ [.setFriends [], .setBlocked [(2, 32)], .cycle, .setFriends [1], .setBlocked [], .cycle])).xs =
    [⟨1, pm, .queued, none⟩, ⟨2, pn, .queued, none⟩] := by decide
example : (run s0 (setup ++ [.userAbort 0, .setFriends [], .cycle, .setFriends [1], .queueReq 1 pm, .cycle])).xs =
    [⟨1, pm, .aborted, some .requested⟩, ⟨2, pn, .queued, none⟩] := by decide
/-- user 1 is blocked, the cycle this asks for starts (snapshot, clear, reconcile); while its job is still
running user 2 is blocked too: the flag is set again and the next cycle aborts the second upload -/
example : (run s0 (setup ++ [.setBlocked [(1, 32)], .cycle, .setBlocked [(1, 32), (2, 32)]])).sharesChanged = true := by
  decide
example : (run s0 (setup ++ [.setBlocked [(1, 32)], .cycle, .setBlocked [(1, 32), (2, 32)], .cycle])).xs =
    [⟨1, pm, .aborted, some .blocked⟩, ⟨2, pn, .aborted, some .blocked⟩] := by decide
/-- **a block while the upload is being paused**: the friend's upload is being sent; the user pauses
it — `pause()` waits for the upload's task, which is closing its file connection — and blocks the
friend in the same breath -/
def pausing : List Op := setup ++ [.meth 0 .initialize, .meth 0 .start,
  .beginCall 0 { m := .pause } .cancelling, .setBlocked [(1, 32)]]
example : (run s0 pausing).xs[0]? = some ⟨1, pm, .uploading, none⟩ ∧ isLocked (run s0 pausing).flights 0 = true ∧
    (run s0 pausing).sharesChanged = true ∧ jobWaiting (run s0 pausing).flights = false := by decide
/-- (the hypotheses of `C08_change_during_transition_partial` / `_interleaved` in this state) -/
example : verdict (userBlocked (run s0 pausing).cfg ⟨1, pm, .uploading, none⟩)
    (fileNotShared (run s0 pausing).cfg (run s0 pausing).sh ⟨1, pm, .uploading, none⟩) none = some .blocked := by decide
/-- the cycle finds the lock held: the upload stays as it shows, the abort waits and the job with it -/
example : (run s0 (pausing ++ [.cycle])).xs[0]? = some ⟨1, pm, .uploading, none⟩ ∧
    jobWaiting (run s0 (pausing ++ [.cycle])).flights = true ∧
    (run s0 (pausing ++ [.cycle])).sharesChanged = relookWhenLocked := by decide
/-- the connection is closed: PAUSED, and at once ABORTED / Blocked -/
example : (run s0 (pausing ++ [.cycle, .endCall 0])).xs[0]? = some ⟨1, pm, .aborted, some .blocked⟩ ∧
    (run s0 (pausing ++ [.cycle, .endCall 0])).flights = [] := by decide
/-- meanwhile another cycle request (busy), the other upload paused, the friends list changed: the
upload ends the same way, the new change is waiting for the next cycle -/
example : (run s0 (pausing ++ [.cycle, .cycle, .meth 1 .pause, .setFriends [], .endCall 0])).xs[0]? =
      some ⟨1, pm, .aborted, some .blocked⟩ ∧
    (run s0 (pausing ++ [.cycle, .cycle, .meth 1 .pause, .setFriends [], .endCall 0])).sharesChanged = true := by
  decide
/-- the user's own abort under way instead of the pause: it wins, ABORTED / Requested -/
example : (run s0 (setup ++ [.meth 0 .initialize, .beginCall 0 { m := .abort, r := some .requested } .cancelling,
      .setBlocked [(1, 32)], .cycle, .endCall 0])).xs[0]? = some ⟨1, pm, .aborted, some .requested⟩ := by decide
/-- a `fail` of the upload's task waiting behind the pause: the upload has FAILED when the cycle's abort
gets its turn (refused) -/
example : (run s0 (pausing ++ [.meth 0 .fail, .cycle, .endCall 0])).xs[0]? = some ⟨1, pm, .failed, none⟩ := by decide
/-- suspended in the transition instead (the listeners are told, the upload shows PAUSED already) -/
example : (run s0 (setup ++ [.beginCall 0 { m := .pause } .notifying, .setFriends [], .cycle])).xs[0]? =
      some ⟨1, pm, .paused, none⟩ ∧
    (run s0 (setup ++ [.beginCall 0 { m := .pause } .notifying, .setFriends [], .cycle, .endCall 0])).xs[0]? =
      some ⟨1, pm, .aborted, some .notShared⟩ := by decide
/-- search: `*b` by the stranger: the public file is a normal result, the two friends-only files
are locked results; with the phrase `AB` (upper case) excluded, `m/aB.b` is in neither part
(`m/b/A.a`, whose path does not contain `ab`, stays) -/
example : searchReply K (run s0 setup).cfg (run s0 setup).sh 2 [6, 2] =
    some ([⟨[[2]], [], [2, 3, 4, 2]⟩], [⟨[[0]], [], [0, 3, 4, 2]⟩, ⟨[[0]], [[2]], [1, 4, 0]⟩]) := by decide
example : searchReply K (run s0 (setup ++ [.phrases [[1, 3]]])).cfg (run s0 setup).sh 2 [6, 2] =
    some ([⟨[[2]], [], [2, 3, 4, 2]⟩], [⟨[[0]], [[2]], [1, 4, 0]⟩]) := by decide
example : searchReply K (run s0 (setup ++ [.setBlocked [(2, 4)]])).cfg (run s0 setup).sh 2 [6, 2] = none := by decide
end Ex

end AioslskVerif.C08
