import AioslskVerif.Proofs.Entitle
/-!
# C08 — files are only offered and uploaded to users entitled to them

Property theorems only (model: `Model/Entitle.lean` on `Model/Shares.lean`, `Model/Query.lean`, the
generated transfer table and the generated entitlement constants; helpers: `Proofs/Entitle.lean`).
The model is that of the code after `fixes/C08-excluded-phrase-case.patch`.

Reading (DESIGN.md): (1) the visible part of a search reply / shares reply for user `u` holds no
item whose directory is locked for `u`; (2) no search reply holds an item whose lower-cased path
contains a lower-cased excluded phrase, none goes to a user blocked for searches; (3) an upload is
created or put back in the queue by a peer's request only if the user is not blocked for uploads and
the requested path is exactly the remote path of an indexed item whose directory is not locked for
the user; (4) a management cycle that runs with the shares-changed flag leaves every upload that is
not COMPLETE / FAILED: untouched if it was aborted on the user's request, else ABORTED with reason
Blocked / File not shared (first that applies, in that order) iff that applies, and QUEUED again if
it was aborted and nothing applies any more.

Known finding (not repaired, see `C08_directory_listing_*`): `create_directory_reply` takes no
user, so the files of a locked directory are listed to anybody who asks for that directory.
-/
namespace AioslskVerif.C08
open AioslskVerif AioslskVerif.Transfer AioslskVerif.Entitle
open AioslskVerif.Generated.Entitle

/-- `u` is entitled to the remote path `p`: it is exactly the remote path of an indexed item whose
shared directory is not locked for `u`. -/
def Entitled (c : Cfg) (sh : Shares.St Comp) (u : Name) (p : List Ch) : Prop :=
  ∃ it ∈ sh.items, remotePath c it = p ∧ locked c it.sd u = false

/-- no two indexed items have the same remote path (no alias collision) -/
def UniquePaths (c : Cfg) (sh : Shares.St Comp) : Prop :=
  ∀ a ∈ sh.items, ∀ b ∈ sh.items, remotePath c a = remotePath c b → a = b

/-! ## What the regenerated constants must say -/

/-- Every gate tests the blocking flag the property names (uploads: 32 at the two request handlers
and in the cycle; searches: 4; shares: 8), the cycle tests "requested, blocked, not shared" in that
order, a blocked user is told "File not shared.", and the excluded phrase is lower-cased. -/
theorem C08_generated_constants :
    gateFlags = [("evaluate", "UPLOADS", 32), ("queue", "UPLOADS", 32), ("request", "UPLOADS", 32),
                 ("search", "SEARCHES", 4), ("shares", "SHARES", 8), ("directory", "SHARES", 8)] ∧
    evalFlag = 32 ∧ queueFlag = 32 ∧ requestFlag = 32 ∧ searchFlag = 4 ∧ sharesFlag = 8 ∧ dirFlag = 8 ∧
    conditions = [(.abortRequested, .requested), (.userBlocked, .blocked), (.notShared, .notShared)] ∧
    requestedReason = .requested ∧ skipStates = [.complete, .failed] ∧
    queueBlockedReason = .notShared ∧ requestBlockedReason = .notShared ∧ phraseFolded = true := by
  decide

/-- `is_directory_locked` says what the property says: a friends-only directory is locked for
everybody not in the friends list, a directory shared with named users for everybody else. -/
theorem C08_locked_spec (c : Cfg) (p : List Comp) (u : Name) (d : DirInfo) (hd : dirInfo c p = some d) :
    locked c p u = true ↔
      (d.mode = .friends ∧ u ∉ c.friends) ∨ (∃ us, d.mode = .users us ∧ u ∉ us) := by
  simp only [locked, hd]
  cases hm : d.mode with
  | everyone => simp
  | friends => simp
  | users us => simp

/-! ## (1) visible = not locked -/

/-- **Search reply**: every normal result is an indexed item (held by the term map) whose directory
is not locked for the asking user; every item of the locked part is locked; nothing that was found
is dropped by the split. -/
theorem C08_visible_unlocked (K : Query.Cls Ch) (c : Cfg) (sh : Shares.St Comp) (u : Name) (q : List Ch)
    (vis lk : List SItem) (h : searchReply K c sh u q = some (vis, lk)) :
    (∀ it ∈ vis, locked c it.sd u = false ∧ it ∈ sh.tm) ∧
    (∀ it ∈ lk, locked c it.sd u = true ∧ it ∈ sh.tm) ∧
    (∀ it ∈ found K c sh q, it ∈ vis ∨ it ∈ lk) := by
  simp only [searchReply] at h
  split at h
  · simp at h
  · split at h
    · simp at h
    · simp only [splitVisible, Option.some.injEq, Prod.mk.injEq] at h
      obtain ⟨rfl, rfl⟩ := h
      refine ⟨?_, ?_, ?_⟩
      · intro it hit
        simp only [List.mem_filter, Bool.not_eq_eq_eq_not, Bool.not_true] at hit
        exact ⟨hit.2, (mem_query K qp _ _ _ _ _ hit.1).1⟩
      · intro it hit
        simp only [List.mem_filter] at hit
        exact ⟨hit.2, (mem_query K qp _ _ _ _ _ hit.1).1⟩
      · intro it hit
        simp only [List.mem_filter, hit, true_and]
        cases locked c it.sd u <;> simp

/-- … and on every state the operations can reach, "held by the term map" is "indexed now". -/
theorem C08_visible_indexed (K : Query.Cls Ch) (s : S) (hs : s.sh = {}) (ops : List Op) (u : Name) (q : List Ch)
    (vis lk : List SItem)
    (h : searchReply K (run s ops).cfg (run s ops).sh u q = some (vis, lk)) :
    ∀ it ∈ vis ++ lk, it ∈ (run s ops).sh.items := by
  have hinv : Shares.Inv (run s ops).sh := inv_run_sh ops s (by rw [hs]; exact Shares.inv_init)
  obtain ⟨h1, h2, _⟩ := C08_visible_unlocked K _ _ u q vis lk h
  intro it hit
  rcases List.mem_append.1 hit with hit | hit
  · exact (hinv.tm_sync it).1 (h1 it hit).2
  · exact (hinv.tm_sync it).1 (h2 it hit).2

/-- **Shares reply**: every file named in the normal part is an indexed item of a directory that is
not locked for the asking user (and sits in exactly that remote directory). -/
theorem C08_shares_visible_unlocked (c : Cfg) (sh : Shares.St Comp) (u : Name)
    (vis lk : List (List Comp × List Comp)) (h : sharesReply c sh u = some (vis, lk)) :
    (∀ e ∈ vis, ∀ n ∈ e.2, ∃ it ∈ sh.items, locked c it.sd u = false ∧ remoteDirParts c it = e.1 ∧ it.name = n) ∧
    (∀ e ∈ lk, ∀ n ∈ e.2, ∃ it ∈ sh.items, locked c it.sd u = true ∧ remoteDirParts c it = e.1 ∧ it.name = n) := by
  simp only [sharesReply] at h
  split at h
  · simp at h
  · simp only [Option.some.injEq, Prod.mk.injEq] at h
    obtain ⟨rfl, rfl⟩ := h
    constructor
    · intro e he n hn
      simp only [listing, List.mem_map] at he
      obtain ⟨d, _, rfl⟩ := he
      simp only [List.mem_map, List.mem_filter, decide_eq_true_eq, Bool.not_eq_eq_eq_not, Bool.not_true] at hn
      obtain ⟨it, ⟨⟨h1, h2⟩, h3⟩, rfl⟩ := hn
      exact ⟨it, h1, h2, h3, rfl⟩
    · intro e he n hn
      simp only [listing, List.mem_map] at he
      obtain ⟨d, _, rfl⟩ := he
      simp only [List.mem_map, List.mem_filter, decide_eq_true_eq] at hn
      obtain ⟨it, ⟨⟨h1, h2⟩, h3⟩, rfl⟩ := hn
      exact ⟨it, h1, h2, h3, rfl⟩

/-! ## (2) excluded phrases, blocked users -/

/-- **No search reply — normal or locked part — holds an item whose lower-cased path contains a
lower-cased excluded phrase**, whatever the letter case in which the server sent the phrase. -/
theorem C08_no_excluded_phrase (K : Query.Cls Ch) (c : Cfg) (sh : Shares.St Comp) (u : Name) (q : List Ch)
    (vis lk : List SItem) (h : searchReply K c sh u q = some (vis, lk)) :
    ∀ it ∈ vis ++ lk, ∀ ph ∈ c.excluded,
      ¬ ∃ l r, (qp it).map K.fold = l ++ ph.map K.fold ++ r := by
  intro it hit ph hph
  have hf : it ∈ found K c sh q := by
    simp only [searchReply] at h
    split at h
    · simp at h
    · split at h
      · simp at h
      · simp only [splitVisible, Option.some.injEq, Prod.mk.injEq] at h
        obtain ⟨rfl, rfl⟩ := h
        rcases List.mem_append.1 hit with hit | hit <;> exact (List.mem_filter.1 hit).1
  have hx := (mem_query K qp _ _ _ _ _ hf).2.2
  simp only [excludedBy, Bool.not_eq_eq_eq_not, Bool.not_true, List.any_eq_false] at hx
  have := hx ph hph
  have hfold : phraseFolded = true := by decide
  simp only [hfold, if_true] at this
  intro hc
  exact this ((infixB_iff _ _).2 hc)

/-- **Nothing is sent to a blocked user**: no search reply to a user blocked for searches (flag 4),
no shares / directory reply to a user blocked for shares (8); a user blocked for uploads (32) gets
"File not shared." on both upload entry points and the uploads stay as they are. -/
theorem C08_no_reply_to_blocked (K : Query.Cls Ch) (c : Cfg) (sh : Shares.St Comp) (u : Name) :
    (isBlocked c u 4 = true → ∀ q, searchReply K c sh u q = none) ∧
    (isBlocked c u 8 = true → sharesReply c sh u = none ∧ ∀ req, dirReply c sh u req = none) ∧
    (isBlocked c u 32 = true → ∀ xs p,
        onQueue c sh xs u p = (xs, some .notShared) ∧ onRequest c sh xs u p = (xs, some .notShared)) := by
  refine ⟨?_, ?_, ?_⟩
  · intro hb q
    have : searchFlag = 4 := rfl
    simp [searchReply, this, hb]
  · intro hb
    have h1 : sharesFlag = 8 := rfl
    have h2 : dirFlag = 8 := rfl
    exact ⟨by simp [sharesReply, h1, hb], fun req => by simp [dirReply, h2, hb]⟩
  · intro hb xs p
    have h1 : queueFlag = 32 := rfl
    have h2 : requestFlag = 32 := rfl
    have h3 : queueBlockedReason = .notShared := rfl
    have h4 : requestBlockedReason = .notShared := rfl
    exact ⟨by simp [onQueue, h1, h3, hb], by simp [onRequest, h2, h4, hb]⟩

/-! ## (3) admission of uploads -/

theorem applyMeth_key (m : Meth) (r : Option Reason) (x : Xfer) :
    (applyMeth m r x).1.user = x.user ∧ (applyMeth m r x).1.path = x.path := by
  simp [applyMeth, Xfer.withSR]

theorem entitled_of_findShared {c : Cfg} {sh : Shares.St Comp} {u : Name} {p : List Ch} {it : SItem}
    (h : findShared c sh u p = some it) : Entitled c sh u p :=
  ⟨it, (findShared_some c sh u p it h).1, (findShared_some c sh u p it h).2.1, (findShared_some c sh u p it h).2.2⟩

/-- what both entry points guarantee about their result `r` -/
def AdmitSound (c : Cfg) (sh : Shares.St Comp) (xs : List Xfer) (u : Name) (p : List Ch) (r : List Xfer × Option FailR) : Prop :=
  -- an upload that is QUEUED afterwards and was not there as such before: the user is not blocked
  -- for uploads and is entitled to exactly the requested path; it is an upload of that path to that user
  (∀ x' ∈ r.1, x' ∉ xs → x'.state = .queued →
      isBlocked c u 32 = false ∧ Entitled c sh u p ∧ x'.user = u ∧ x'.path = p) ∧
  -- an upload object is created only under the same condition; none is ever dropped
  (xs.length < r.1.length → isBlocked c u 32 = false ∧ Entitled c sh u p) ∧ xs.length ≤ r.1.length ∧
  -- a blocked or not entitled user is told "File not shared."
  ((isBlocked c u 32 = true ∨ ¬ Entitled c sh u p) → r.2 = some .notShared)

theorem admit_refused (c : Cfg) (sh : Shares.St Comp) (xs : List Xfer) (u : Name) (p : List Ch) :
    AdmitSound c sh xs u p (xs, some .notShared) :=
  ⟨fun _ h hn => absurd h hn, fun h => absurd h (Nat.lt_irrefl _), Nat.le_refl _, fun _ => rfl⟩

theorem admit_unchanged (c : Cfg) (sh : Shares.St Comp) (xs : List Xfer) (u : Name) (p : List Ch) (r : Option FailR)
    (hb : isBlocked c u 32 = false) (hE : Entitled c sh u p) : AdmitSound c sh xs u p (xs, r) :=
  ⟨fun _ h hn => absurd h hn, fun h => absurd h (Nat.lt_irrefl _), Nat.le_refl _, fun h => by
    rcases h with h | h
    · rw [hb] at h; cases h
    · exact absurd hE h⟩

theorem admit_new (c : Cfg) (sh : Shares.St Comp) (xs : List Xfer) (u : Name) (p : List Ch) (r : Option FailR)
    (hb : isBlocked c u 32 = false) (hE : Entitled c sh u p) : AdmitSound c sh xs u p (xs ++ [newUpload u p], r) := by
  refine ⟨?_, fun _ => ⟨hb, hE⟩, by simp, ?_⟩
  · intro x' hx' hn _
    simp only [List.mem_append, List.mem_singleton] at hx'
    rcases hx' with hx' | rfl
    · exact absurd hx' hn
    · exact ⟨hb, hE, rfl, rfl⟩
  · rintro (h | h)
    · rw [hb] at h; cases h
    · exact absurd hE h

theorem admit_failed (c : Cfg) (sh : Shares.St Comp) (xs : List Xfer) (u : Name) (p : List Ch) (y : Xfer)
    (hfind : xs.find? (sameKey u p) = some y) :
    AdmitSound c sh xs u p (updFirst (sameKey u p) (fun y => (applyMeth .fail none y).1) xs, some .notShared) := by
  have hymem : y ∈ xs := List.mem_of_find?_eq_some hfind
  refine ⟨?_, by simp [length_updFirst], by simp [length_updFirst], fun _ => rfl⟩
  intro x' hx' hn hst
  rcases mem_updFirst _ _ _ _ hx' with h | ⟨z, hz, rfl⟩
  · exact absurd h hn
  · rw [hfind] at hz
    cases hz
    rw [fail_not_queued none y hst] at hn
    exact absurd hymem hn

theorem admit_requeued (c : Cfg) (sh : Shares.St Comp) (xs : List Xfer) (u : Name) (p : List Ch) (y : Xfer)
    (hfind : xs.find? (sameKey u p) = some y) (hb : isBlocked c u 32 = false) (hE : Entitled c sh u p) :
    AdmitSound c sh xs u p (updFirst (sameKey u p) (fun y => (applyMeth .queue none y).1) xs, none) := by
  have hy : sameKey u p y = true := by simpa using List.find?_some hfind
  refine ⟨?_, by simp [length_updFirst], by simp [length_updFirst], ?_⟩
  · intro x' hx' hn _
    rcases mem_updFirst _ _ _ _ hx' with h | ⟨z, hz, rfl⟩
    · exact absurd h hn
    · rw [hfind] at hz
      cases hz
      simp only [sameKey, Bool.and_eq_true, decide_eq_true_eq] at hy
      exact ⟨hb, hE, (applyMeth_key _ _ y).1.trans hy.1, (applyMeth_key _ _ y).2.trans hy.2⟩
  · rintro (h | h)
    · rw [hb] at h; cases h
    · exact absurd hE h

theorem onQueue_sound (c : Cfg) (sh : Shares.St Comp) (xs : List Xfer) (u : Name) (p : List Ch) :
    AdmitSound c sh xs u p (onQueue c sh xs u p) := by
  have hq : queueFlag = 32 := rfl
  have hr : queueBlockedReason = .notShared := rfl
  simp only [onQueue, hq, hr]
  cases hb : isBlocked c u 32 with
  | true => exact admit_refused c sh xs u p
  | false =>
    simp only [Bool.false_eq_true, if_false]
    cases hfind : xs.find? (sameKey u p) with
    | none =>
      cases hsh : findShared c sh u p with
      | none => exact admit_refused c sh xs u p
      | some it => exact admit_new c sh xs u p _ hb (entitled_of_findShared hsh)
    | some y =>
      cases hsh : findShared c sh u p with
      | none => exact admit_failed c sh xs u p y hfind
      | some it =>
        have hE := entitled_of_findShared hsh
        simp only
        split
        · exact admit_unchanged c sh xs u p _ hb hE
        · split
          · exact admit_requeued c sh xs u p y hfind hb hE
          · exact admit_unchanged c sh xs u p _ hb hE

theorem onRequest_sound (c : Cfg) (sh : Shares.St Comp) (xs : List Xfer) (u : Name) (p : List Ch) :
    AdmitSound c sh xs u p (onRequest c sh xs u p) := by
  have hq : requestFlag = 32 := rfl
  have hr : requestBlockedReason = .notShared := rfl
  simp only [onRequest, hq, hr]
  cases hb : isBlocked c u 32 with
  | true => exact admit_refused c sh xs u p
  | false =>
    simp only [Bool.false_eq_true, if_false]
    cases hfind : xs.find? (sameKey u p) with
    | none =>
      cases hsh : findShared c sh u p with
      | none => exact admit_refused c sh xs u p
      | some it => exact admit_new c sh xs u p _ hb (entitled_of_findShared hsh)
    | some y =>
      cases hsh : findShared c sh u p with
      | none => exact admit_failed c sh xs u p y hfind
      | some it => exact admit_unchanged c sh xs u p _ hb (entitled_of_findShared hsh)

/-- **Admission is sound at both entry points** (`PeerTransferQueue`, `PeerTransferRequest`), for
every configuration, index, list of uploads, user and requested string (so: case variants, doubled
or trailing separators, paths through a parent's alias, unknown names — anything that is not
exactly an unlocked item's remote path — create nothing and are refused). -/
theorem C08_admit_sound (c : Cfg) (sh : Shares.St Comp) (xs : List Xfer) (u : Name) (p : List Ch) :
    AdmitSound c sh xs u p (onQueue c sh xs u p) ∧ AdmitSound c sh xs u p (onRequest c sh xs u p) :=
  ⟨onQueue_sound c sh xs u p, onRequest_sound c sh xs u p⟩

/-! ## (4) the management cycle -/

/-- **The finite table**: `manage_shares_changed` on one upload, for every state × abort reason ×
(blocked, not shared) combination (160 rows, from the regenerated transfer table and condition
order). -/
theorem C08_reconcile_table (b n : Bool) (st : St) (r : Option Reason)
    (h1 : st ≠ .complete) (h2 : st ≠ .failed) (h3 : st ≠ .virgin) :
    (r = some .requested → st = .aborted → reconcileSR b n (st, r) = (st, r)) ∧
    (r ≠ some .requested → b = true → reconcileSR b n (st, r) = (.aborted, some .blocked)) ∧
    (r ≠ some .requested → b = false → n = true → reconcileSR b n (st, r) = (.aborted, some .notShared)) ∧
    (r ≠ some .requested → b = false → n = false → st = .aborted → reconcileSR b n (st, r) = (.queued, none)) ∧
    (r ≠ some .requested → b = false → n = false → st ≠ .aborted → reconcileSR b n (st, r) = (st, r)) := by
  cases b <;> cases n <;> cases st <;> rcases r with _ | r <;> (try cases r) <;>
    first
    | exact absurd rfl h1
    | exact absurd rfl h2
    | exact absurd rfl h3
    | (refine ⟨?_, ?_, ?_, ?_, ?_⟩ <;> intros <;> first | contradiction | decide)

/-- COMPLETE and FAILED uploads are left alone. -/
theorem C08_reconcile_finished (b n : Bool) (x : Xfer) (h : x.state = .complete ∨ x.state = .failed) :
    reconcileX b n x = x := by
  cases x with
  | mk u p st r =>
    simp only at h
    rcases h with rfl | rfl <;> rfl

theorem findShared_isNone_iff (c : Cfg) (sh : Shares.St Comp) (hU : UniquePaths c sh) (u : Name) (p : List Ch) :
    (findShared c sh u p).isNone = true ↔ ¬ Entitled c sh u p := by
  constructor
  · intro h hE
    obtain ⟨it, hit, hp, hl⟩ := hE
    simp only [findShared] at h
    cases hf : sh.items.find? (fun it => remotePath c it = p) with
    | none =>
      have := List.find?_eq_none.1 hf it hit
      simp [hp] at this
    | some it' =>
      have h1 : it' ∈ sh.items := List.mem_of_find?_eq_some hf
      have h2 : remotePath c it' = p := by simpa using List.find?_some hf
      have : it' = it := hU it' h1 it hit (h2.trans hp.symm)
      subst this
      simp [hf, hl] at h
  · intro h
    cases hf : findShared c sh u p with
    | none => rfl
    | some it => exact absurd (entitled_of_findShared hf) h

/-- what the property demands of one upload across a settled management cycle -/
def Reconciled (c : Cfg) (sh : Shares.St Comp) (x x' : Xfer) : Prop :=
  x'.user = x.user ∧ x'.path = x.path ∧
  -- aborted on the user's request: stays
  (x.state = .aborted → x.reason = some .requested → x' = x) ∧
  (x.reason ≠ some .requested →
    -- no longer permitted: ABORTED with the matching reason, Blocked first
    (isBlocked c x.user 32 = true → x'.state = .aborted ∧ x'.reason = some .blocked) ∧
    (isBlocked c x.user 32 = false → ¬ Entitled c sh x.user x.path →
        x'.state = .aborted ∧ x'.reason = some .notShared) ∧
    -- permitted: queued again if it was aborted (only for such a reason), else untouched
    (isBlocked c x.user 32 = false → Entitled c sh x.user x.path → x.state = .aborted →
        x'.state = .queued ∧ x'.reason = none) ∧
    (isBlocked c x.user 32 = false → Entitled c sh x.user x.path → x.state ≠ .aborted → x' = x))

theorem reconcile1_spec (c : Cfg) (sh : Shares.St Comp) (hU : UniquePaths c sh) (x : Xfer)
    (h1 : x.state ≠ .complete) (h2 : x.state ≠ .failed) (h3 : x.state ≠ .virgin) :
    Reconciled c sh x (reconcile1 c sh x) := by
  have he : evalFlag = 32 := rfl
  obtain ⟨t1, t2, t3, t4, t5⟩ := C08_reconcile_table (userBlocked c x) (fileNotShared c sh x) x.state x.reason h1 h2 h3
  have hn := findShared_isNone_iff c sh hU x.user x.path
  cases x with
  | mk u p st r =>
    simp only [reconcile1, reconcileX, Xfer.sr, Xfer.withSR, userBlocked, fileNotShared, he] at *
    refine ⟨rfl, rfl, ?_, ?_⟩
    · intro ha hr
      rw [t1 hr ha]
    · intro hr
      refine ⟨?_, ?_, ?_, ?_⟩
      · intro hb
        rw [t2 hr hb]; exact ⟨rfl, rfl⟩
      · intro hb hE
        rw [t3 hr hb (hn.2 hE)]; exact ⟨rfl, rfl⟩
      · intro hb hE ha
        have : (findShared c sh u p).isNone = false := by
          cases hh : (findShared c sh u p).isNone with
          | false => rfl
          | true => exact absurd hE (hn.1 hh)
        rw [t4 hr hb this ha]; exact ⟨rfl, rfl⟩
      · intro hb hE ha
        have : (findShared c sh u p).isNone = false := by
          cases hh : (findShared c sh u p).isNone with
          | false => rfl
          | true => exact absurd hE (hn.1 hh)
        rw [t5 hr hb this ha]

/-- **Post-condition of a management cycle that runs with the shares-changed flag**, lifted from
the table to any list of uploads in any configuration: the uploads keep their places, and every one
that is not COMPLETE / FAILED is `Reconciled` (VIRGIN exists only inside `_add_upload`, between
`add` and `queue` of one handler run, never at a settled point). -/
theorem C08_reconcile (s : S) (hflag : s.sharesChanged = true) (hU : UniquePaths s.cfg s.sh) :
    (step s .cycle).1.xs.length = s.xs.length ∧ (step s .cycle).1.sharesChanged = false ∧
    ∀ (k : Nat) (x : Xfer), s.xs[k]? = some x → x.state ≠ .complete → x.state ≠ .failed → x.state ≠ .virgin →
      ∃ x', (step s .cycle).1.xs[k]? = some x' ∧ Reconciled s.cfg s.sh x x' := by
  simp only [step, hflag, if_true, reconcile, List.length_map, true_and]
  intro k x hk h1 h2 h3
  exact ⟨reconcile1 s.cfg s.sh x, by simp [hk], reconcile1_spec s.cfg s.sh hU x h1 h2 h3⟩

/-- Without the flag a cycle does not touch the uploads' abort state. -/
theorem C08_cycle_idle (s : S) (hflag : s.sharesChanged = false) : (step s .cycle).1 = s := by
  simp [step, hflag]

/-! ## Uploads aborted on the user's request stay aborted -/

/-- ops by which the user himself takes upload `k` out of ABORTED -/
def Op.requeues (k : Nat) : Op → Bool
  | .userQueue k' => k' = k
  | .meth k' m => k' = k && m = .queue
  | _ => false

theorem sticky_updFirst (p : Xfer → Bool) (f : Xfer → Xfer) (xs : List Xfer) (k : Nat) (x : Xfer)
    (hk : xs[k]? = some x) (hf : f x = x ∨ ∀ y, xs.find? p = some y → y ≠ x) :
    (updFirst p f xs)[k]? = some x := by
  rcases updFirst_getElem? p f xs k x hk with h | ⟨h1, h2⟩
  · exact h
  · rcases hf with hf | hf
    · rw [h2, hf]
    · exact absurd rfl (hf x h1)

theorem sticky_step (s : S) (op : Op) (k : Nat) (x : Xfer) (hk : s.xs[k]? = some x)
    (ha : x.state = .aborted) (hr : x.reason = some .requested) (hop : Op.requeues k op = false) :
    (step s op).1.xs[k]? = some x := by
  have hfail : (applyMeth .fail none x).1 = x := by rw [applyMeth_aborted .fail (by decide) none x ha]
  cases op with
  | queueReq u p =>
    simp only [step, onQueue]
    split
    · exact hk
    · split
      · split
        · exact hk
        · rw [List.getElem?_append_left (by
            have := List.getElem?_eq_some_iff.1 hk; exact this.1)]
          exact hk
      · rename_i y hfind
        split
        · exact sticky_updFirst _ _ _ _ _ hk (Or.inl hfail)
        · split
          · exact hk
          · split
            · rename_i hst
              refine sticky_updFirst _ _ _ _ _ hk (Or.inr ?_)
              intro z hz hzx
              rw [hfind] at hz
              cases hz
              subst hzx
              rw [ha] at hst
              revert hst
              decide
            · exact hk
  | xferReq u p =>
    simp only [step, onRequest]
    split
    · exact hk
    · split
      · split
        · exact hk
        · rw [List.getElem?_append_left (by
            have := List.getElem?_eq_some_iff.1 hk; exact this.1)]
          exact hk
      · split
        · exact sticky_updFirst _ _ _ _ _ hk (Or.inl hfail)
        · exact hk
  | cycle =>
    simp only [step]
    split
    · simp only [reconcile, List.getElem?_map, hk, Option.map_some, Option.some.injEq]
      cases x with
      | mk u p st r =>
        simp only at ha hr
        subst ha hr
        simp only [reconcile1, reconcileX, Xfer.sr, Xfer.withSR]
        have := (C08_reconcile_table (userBlocked s.cfg ⟨u, p, .aborted, some .requested⟩)
          (fileNotShared s.cfg s.sh ⟨u, p, .aborted, some .requested⟩) .aborted (some .requested)
          (by decide) (by decide) (by decide)).1 rfl rfl
        rw [this]
    · exact hk
  | meth k' m =>
    simp only [step, modifyAt]
    split
    · exact hk
    · rename_i y hy
      by_cases hkk : k' = k
      · subst hkk
        rw [hk] at hy
        cases hy
        have hm : m ≠ .queue := by
          intro hm
          simp [Op.requeues, hm] at hop
        rw [applyMeth_aborted m hm none x ha]
        have hlt : k' < s.xs.length := (List.getElem?_eq_some_iff.1 hk).1
        simp [hlt]
      · simp only [List.getElem?_set]
        simp [hkk, hk]
  | userAbort k' =>
    simp only [step, modifyAt]
    split
    · exact hk
    · rename_i y hy
      by_cases hkk : k' = k
      · subst hkk
        rw [hk] at hy
        cases hy
        rw [applyMeth_aborted .abort (by decide) _ x ha]
        have hlt : k' < s.xs.length := (List.getElem?_eq_some_iff.1 hk).1
        simp [hlt]
      · simp only [List.getElem?_set]
        simp [hkk, hk]
  | userQueue k' =>
    simp only [step, modifyAt]
    split
    · exact hk
    · by_cases hkk : k' = k
      · simp [Op.requeues, hkk] at hop
      · simp only [List.getElem?_set]
        simp [hkk, hk]
  | share d disk => simp only [step]; split <;> exact hk
  | unshare p => simp only [step]; split <;> exact hk
  | setMode p m => simp only [step]; split <;> exact hk
  | _ => exact hk

/-- **Requested is sticky**: whatever the peers request and however often the friends list, the
block list and the shared directories change and the management cycle runs, an upload aborted on
the user's request stays ABORTED with reason Requested — until the user himself queues it again. -/
theorem C08_requested_sticky (ops : List Op) (s : S) (k : Nat) (x : Xfer) (hk : s.xs[k]? = some x)
    (ha : x.state = .aborted) (hr : x.reason = some .requested)
    (hops : ∀ op ∈ ops, Op.requeues k op = false) :
    (run s ops).xs[k]? = some x := by
  induction ops generalizing s with
  | nil => exact hk
  | cons op ops ih =>
    simp only [run, List.foldl_cons]
    exact ih _ (sticky_step s op k x hk ha hr (hops op (by simp))) (fun o ho => hops o (by simp [ho]))

/-! ## Known finding: the directory listing ignores the share mode -/

/-- What does hold for `PeerDirectoryContentsReply`: nothing goes to a user blocked for shares, and
the listing holds only indexed items of exactly the requested remote directory — so it is confined to
unlocked files **provided** that directory is not locked for the asking user. -/
theorem C08_directory_listing_partial (c : Cfg) (sh : Shares.St Comp) (u : Name) (req : List Ch)
    (l : List (List Ch × List SItem)) (h : dirReply c sh u req = some l) :
    isBlocked c u 8 = false ∧
    (∀ e ∈ l, e.1 = req ∧ ∀ it ∈ e.2, it ∈ sh.items ∧ remoteDir c it = req) ∧
    ((∀ it ∈ sh.items, remoteDir c it = req → locked c it.sd u = false) →
      ∀ e ∈ l, ∀ it ∈ e.2, locked c it.sd u = false) := by
  have hd : dirFlag = 8 := rfl
  simp only [dirReply, hd] at h
  split at h
  · simp at h
  · rename_i hb
    simp only [Option.some.injEq] at h
    subst h
    have key : ∀ e ∈ directoryReply c sh req, e.1 = req ∧ ∀ it ∈ e.2, it ∈ sh.items ∧ remoteDir c it = req := by
      intro e he
      simp only [directoryReply] at he
      split at he
      · simp only [List.mem_singleton] at he
        subst he
        refine ⟨rfl, fun it hit => ?_⟩
        simpa using hit
      · simp at he
    refine ⟨by simpa using hb, key, ?_⟩
    intro hall e he it hit
    exact hall it ((key e he).2 it hit).1 ((key e he).2 it hit).2

namespace Ex
/-- 0 `a`, 1 `A`, 2 `b`, 3 `B`, 4 `.`, 5 space, 6 `*`, 7 `-` (the alphabet of `C07.Ex`) -/
def K : Query.Cls Ch where
  isWord c := c < 4
  fold c := if c = 1 then 0 else if c = 3 then 2 else c
  isSpace c := c = 5
  star := 6
  dash := 7

/-- folders `m` (friends only, alias `a`) and `n` (everyone, alias `b`); files `m/aB.b`, `m/b/A.a`, `n/bB.b` -/
def disk : List (Shares.File Comp) := [⟨[[0]], [0, 3, 4, 2]⟩, ⟨[[0], [2]], [1, 4, 0]⟩, ⟨[[2]], [2, 3, 4, 2]⟩]
def dm : DirInfo := { path := [[0]], alias := [0], mode := .friends }
def dn : DirInfo := { path := [[2]], alias := [2], mode := .everyone }
def s0 : S := { cls := K }
/-- remote path of `m/aB.b` : `@@a\aB.b` -/
def pm : List Ch := [64, 64, 0, 92, 0, 3, 4, 2]
/-- remote path of `n/bB.b` : `@@b\bB.b` -/
def pn : List Ch := [64, 64, 2, 92, 2, 3, 4, 2]

/-- user 1 is a friend, user 2 is not; both ask for the friends-only file, 2 also for the public one -/
def setup : List Op := [.setFriends [1], .share dm disk, .share dn disk, .cycle,
  .queueReq 1 pm, .queueReq 2 pm, .xferReq 2 pn]
end Ex

/-- **The listing of a friends-only directory is sent to a user who is not a friend** (witness
replayed on the real code on every run: known finding `C08-directory-reply-ignores-lock`). -/
theorem C08_directory_listing_counterexample :
    ∃ (c : Cfg) (sh : Shares.St Comp) (u : Name) (req : List Ch) (l : List (List Ch × List SItem)),
      dirReply c sh u req = some l ∧ ∃ e ∈ l, ∃ it ∈ e.2, locked c it.sd u = true :=
  ⟨(run Ex.s0 Ex.setup).cfg, (run Ex.s0 Ex.setup).sh, 2, [64, 64, 0, 92, 2],
    [([64, 64, 0, 92, 2], [⟨[[0]], [[2]], [1, 4, 0]⟩])], by decide, _, List.mem_singleton.2 rfl, _,
    List.mem_singleton.2 rfl, by decide⟩

/-! ## Non-vacuity -/

namespace Ex
/-- admission: the friend's upload exists, the stranger's request for the locked file created
nothing, his request for the public file did -/
example : (run s0 setup).xs = [⟨1, pm, .queued, none⟩, ⟨2, pn, .queued, none⟩] := by decide
example : onQueue (run s0 (setup.take 5)).cfg (run s0 (setup.take 5)).sh (run s0 (setup.take 5)).xs 2 pm =
    ([⟨1, pm, .queued, none⟩], some .notShared) := by decide
/-- case variant of a shared path (`@@a\AB.b`): refused, nothing created -/
example : (onQueue (run s0 setup).cfg (run s0 setup).sh [] 1 [64, 64, 0, 92, 1, 3, 4, 2]) = ([], some .notShared) := by decide
/-- the index of the example has unique remote paths -/
example : ((run s0 setup).sh.items.map (remotePath (run s0 setup).cfg)).Nodup := by decide
/-- un-friending user 1 and blocking user 2 for uploads: after the cycle both are ABORTED, with
"File not shared" and "Blocked"; undoing both queues them again; a user abort in between stays -/
example : (run s0 (setup ++ [.setFriends [], .setBlocked [(2, 32)], .cycle])).xs =
    [⟨1, pm, .aborted, some .notShared⟩, ⟨2, pn, .aborted, some .blocked⟩] := by decide
example : (run s0 (setup ++ [.setFriends [], .setBlocked [(2, 32)], .cycle, .setFriends [1], .setBlocked [], .cycle])).xs =
    [⟨1, pm, .queued, none⟩, ⟨2, pn, .queued, none⟩] := by decide
example : (run s0 (setup ++ [.userAbort 0, .setFriends [], .cycle, .setFriends [1], .queueReq 1 pm, .cycle])).xs =
    [⟨1, pm, .aborted, some .requested⟩, ⟨2, pn, .queued, none⟩] := by decide
/-- search: `*b` by the stranger: the public file is a normal result, the two friends-only files
are locked results; with the phrase `AB` (upper case) excluded, `m/aB.b` is in neither part
(`m/b/A.a`, whose path does not contain `ab`, stays) -/
example : searchReply K (run s0 setup).cfg (run s0 setup).sh 2 [6, 2] =
    some ([⟨[[2]], [], [2, 3, 4, 2]⟩], [⟨[[0]], [], [0, 3, 4, 2]⟩, ⟨[[0]], [[2]], [1, 4, 0]⟩]) := by decide
example : searchReply K (run s0 (setup ++ [.phrases [[1, 3]]])).cfg (run s0 setup).sh 2 [6, 2] =
    some ([⟨[[2]], [], [2, 3, 4, 2]⟩], [⟨[[0]], [[2]], [1, 4, 0]⟩]) := by decide
example : searchReply K (run s0 (setup ++ [.setBlocked [(2, 4)]])).cfg (run s0 setup).sh 2 [6, 2] = none := by decide
end Ex

end AioslskVerif.C08
