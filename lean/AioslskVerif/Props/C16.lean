import AioslskVerif.Proofs.Session
/-!
# C16 — session life cycle: login advertises settings, loss resets, stop is final

Property theorems over `Model/Session.lean` (the FIXED code: fixes/C16-*.patch).  All statements quantify over
every configuration (unbounded sets of friends / interests / favourites) and every operation history — since
round 5 histories in which the client has adopted a distributed parent and children, which survive a loss of the
server connection: every login (first, manual, the watchdog's) announces the position the client has at THAT login.
-/
namespace AioslskVerif.Session
open AioslskVerif.Generated

/-! ## the task inventory is the code's -/

/-- Every spawn site found in the source is an inventory entry and every inventory entry is a spawn site of the
    source (regenerated on every run: a new `create_task(` / `BackgroundTask(` / `Timer(` breaks this). -/
theorem C16_inventory_complete :
    (∀ k ∈ TaskSites.sites, k ∈ Site.all.map Site.key) ∧ (∀ s ∈ Site.all, s.key ∈ TaskSites.sites) ∧
    (∀ s : Site, s ∈ Site.all) := by
  refine ⟨by decide, by decide, ?_⟩
  intro s; cases s <;> decide

/-- Every inventory entry has a cancelling path that exists in the scanned source (services list, cancel calls on
    the shutdown paths, and — for the two children of `_create_peer_connection_race`, which hold no handle — the
    `except asyncio.CancelledError` handler of their creator that cancels the pending children, waits for them and
    re-raises, together with a covered path for every library task the creator runs in). -/
theorem C16_inventory_covered (k : Site) : covered k = true := covered_all k

/-! ## the burst -/

/-- After a successful login the server has been told exactly what the settings say: for EVERY frame value the
    number of times the login burst contains it equals the table `mustTell`. -/
theorem C16_burst_exact (c : Config) (e : Env) (h : c.WF) (f : Frame) :
    (burst c e).count f = mustTell c e f := burst_count c e h f

/-- favourites are joined iff automatic rejoin is enabled (reading of SETTINGS.rst `rooms.auto_join`) -/
theorem C16_burst_favourites (c : Config) (e : Env) (h : c.WF) (r : String) :
    (Frame.joinRoom r ∈ burst c e) ↔ (c.autoJoin = true ∧ r ∈ c.favorites) := by
  rw [← List.count_pos_iff, burst_count c e h]
  simp only [mustTell]
  split <;> simp_all

/-- a successful login emits exactly the burst -/
theorem C16_login_emits_burst (c : Config) (st : State) (hc : st.conn = .connected) (hs : st.session = false)
    (hr : st.reader = false) (hp : st.stopped = false) (ha : st.srvReply = .accepted) :
    (step c st .login).2 = [.loginSent, .sessionInit, .frames (burst c (envOf c st)), .loginResult .ok] ∧
    (step c st .login).1.session = true := by
  simp [step, doLogin, hc, hs, hr, hp, ha]

/-! ## the branch position: every login announces the position the client has at that login -/

/-- The three distributed frames of a burst are exactly the client's branch position: for EVERY value, the burst
    contains BranchLevel / BranchRoot / ToggleParentSearch with that value once if it is the position's, never
    otherwise — whatever the parent in `e` is (none at a first login, the surviving one at a re-login). -/
theorem C16_burst_position (c : Config) (e : Env) (h : c.WF) (n : Nat) (u : String) (b : Bool) :
    (burst c e).count (.branchLevel n) = (if (positionOf c e).1 = n then 1 else 0) ∧
    (burst c e).count (.branchRoot u) = (if (positionOf c e).2.1 = u then 1 else 0) ∧
    (burst c e).count (.toggleParentSearch b) = (if (positionOf c e).2.2 = b then 1 else 0) := by
  refine ⟨?_, ?_, ?_⟩ <;> rw [burst_count c e h] <;> rfl

/-- what the position is (reading of distributed.py `_get_advertised_branch_values`): without a parent, or when the
    parent's branch root is the client itself, level 0 of the client's own branch; else one level below the parent
    in the parent's branch; a parent is searched for iff there is none and `debug.search_for_parent` -/
theorem C16_position_values (c : Config) (st : State) :
    position c st = (match st.parent with
      | none => (0, c.username, c.searchForParent)
      | some p => if p.root = c.username then (0, c.username, false) else (p.level + 1, p.root, false)) := by
  cases hp : st.parent with
  | none => simp [position, positionOf, envOf, branchValues, hp]
  | some p =>
    by_cases hr : p.root = c.username <;> simp [position, positionOf, envOf, branchValues, hp, hr]

/-- A login in ANY reachable state — after any history of parents adopted, moved and lost, children, losses of the
    server connection, reconnects — sends the burst computed from the parent the client has in that state, and the
    new connection has been told the client's position. -/
theorem C16_login_tells_position (c : Config) (ops : List Op) :
    let st := (run c init ops).1
    st.conn = .connected → st.session = false → st.reader = false → st.stopped = false → st.srvReply = .accepted →
    (step c st .login).2 = [.loginSent, .sessionInit, .frames (burst c (envOf c st)), .loginResult .ok] ∧
    (envOf c st).parent = st.parent.map (fun p => (p.root, p.level)) ∧
    (step c st .login).1.told = some (position c st) ∧ (step c st .login).1.parent = st.parent := by
  intro st hc hs hr hp ha
  simp [step, doLogin, hc, hs, hr, hp, ha, envOf]

/-- INVARIANT over all histories: whenever a session exists, the last BranchLevel / BranchRoot /
    ToggleParentSearch the CURRENT server connection received describe the position the client has now.  (A
    connection that is gone took what it was told with it: `closeServer` forgets `told`.) -/
theorem C16_server_knows_position (c : Config) (ops : List Op) :
    (run c init ops).1.session = true → (run c init ops).1.told = some (position c (run c init ops).1) :=
  pinv_run c ops init inv_init (pinv_init c)

/-- the share counts of a login's burst are those of the index AT THAT LOGIN: the counts of the last scan the
    application has made since `start()` (`Op.rescan`), else those at `start()` — in any state -/
theorem C16_burst_index (c : Config) (st : State) (h : c.WF) (d f : Nat) :
    (burst c (envOf c st)).count (.sharedFoldersFiles d f) =
      (if st.stats.getD (c.dirs, c.files) = (d, f) then 1 else 0) := by
  rw [burst_count c _ h]
  simp only [mustTell, envOf]
  by_cases hx : st.stats.getD (c.dirs, c.files) = (d, f)
  · simp [hx]
  · have : ¬ ((st.stats.getD (c.dirs, c.files)).1 = d ∧ (st.stats.getD (c.dirs, c.files)).2 = f) := by
      intro hh; exact hx (Prod.ext hh.1 hh.2)
    simp [hx, this]

/-- a loss of the server connection — any reason — leaves the distributed parent and the children alone -/
theorem C16_loss_keeps_peers (c : Config) (st : State) (r : Reason) :
    (step c st (.loss r)).1.parent = st.parent ∧ (step c st (.loss r)).1.children = st.children := by
  simp only [step]
  split
  · exact ⟨(closeServer_keeps_peers r st).1, (closeServer_keeps_peers r st).2.1⟩
  · exact ⟨rfl, rfl⟩

/-- THE re-login law for the position, over every history: from any reachable state with a connected server
    connection — whatever parent the client has adopted — an unrequested loss with `reconnect.auto`, followed by the
    reconnect delay (+ one poll) with the server accepting, ends in a session whose burst was computed with the
    parent the client had BEFORE the loss; the parent is still there and the new connection knows the position. -/
theorem C16_relogin_tells_surviving_position (c : Config) (ops : List Op) (r : Reason) :
    let st := (run c init ops).1
    st.conn = .connected → r ≠ .connectFailed → ((r = .eof ∨ r = .readError) → st.reader = true) →
    c.reconnectAuto = true → r ≠ .requested → r ≠ .eof → c.credsOk = true →
    st.srvUp = true → st.srvReply = .accepted →
    let res := run c st (.loss r :: List.replicate (reconnectTicks + 1) .tick)
    Obs.frames (burst c (envOf c st)) ∈ res.2 ∧ res.1.session = true ∧ res.1.parent = st.parent ∧
    res.1.told = some (position c st) := by
  intro st hc hv hr ha hq he hk hup hrep res
  have hw : WInv c st := winv_run c ops init (winv_init c) inv_init
  obtain ⟨k1, k2, k3, _, _⟩ := closeServer_connected r st hc
  have k6 := (closeServer_keeps_peers r st).1
  have k7 : (closeServer r st).1.srvReply = st.srvReply := by simp [closeServer, hc]
  have hidle : (closeServer r st).1.wd = .idle := by rw [k2]; simp [hq, he, hw.2 hc ha]
  have k8 := (closeServer_keeps_peers r st).2.2
  obtain ⟨s2, hs2, h3, h4, h5, h6⟩ := idle_reconnect_run c _ hidle k1 hk
  have e1 : step c st (.loss r) = closeServer r st := by
    simp only [step]; rw [if_pos ⟨hc, hv, hr⟩]
  have hres : res = ((reconnect c s2).1, (closeServer r st).2 ++ (reconnect c s2).2) := by
    show run c st (.loss r :: List.replicate (reconnectTicks + 1) .tick) = _
    rw [run_cons, e1, hs2]
  have hrr := reconnect_relogin c s2 (by rw [h3, k3]; exact hup) ha (by rw [h4, k7]; exact hrep)
  have hpar : s2.parent = st.parent := by rw [h5, k6]
  have henv : envOf c s2 = envOf c st := envOf_congr c s2 st hpar (by rw [h6, k8])
  have hpos : position c s2 = position c st := position_congr c s2 st hpar
  rw [hres]
  refine ⟨List.mem_append_right _ (henv ▸ hrr.1), hrr.2.1, ?_, ?_⟩
  · rw [hrr.2.2.1, hpar]
  · rw [hrr.2.2.2, hpos]

/-! ## commands are refused without a session -/

theorem C16_refuse_without_session (c : Config) (st : State) (h : st.session = false) :
    step c st .exec = (st, [.refused]) := by
  simp [step, h]

/-- in every reachable state a command is sent only over a connected server connection -/
theorem C16_exec_sent_only_connected (c : Config) (ops : List Op) :
    let st := (run c init ops).1
    (step c st .exec).2 = [.sent] → st.conn = .connected ∧ st.session = true := by
  intro st h
  have hi : Inv st := inv_run c ops init inv_init
  cases hs : st.session with
  | false => simp [step, hs] at h
  | true =>
    refine ⟨?_, rfl⟩
    by_cases hc : st.conn = .connected
    · exact hc
    · have := (hi.1 hc).2.2; simp [hs] at this

/-! ## a session is destroyed exactly once -/

/-- For every history: #SessionDestroyed + (1 if a session is present) = #SessionInitialized. -/
theorem C16_destroy_once (c : Config) (ops : List Op) :
    nDestr (run c init ops).2 + b2n (run c init ops).1.session = nInit (run c init ops).2 := by
  have := count_run c ops init inv_init
  simpa [init, b2n] using this

/-- a session exists only on a connected server connection: a lost connection never keeps its session -/
theorem C16_session_needs_connection (c : Config) (ops : List Op) :
    (run c init ops).1.session = true → (run c init ops).1.conn = .connected := by
  intro h
  have hi : Inv (run c init ops).1 := inv_run c ops init inv_init
  by_cases hc : (run c init ops).1.conn = .connected
  · exact hc
  · have := (hi.1 hc).2.2; simp [h] at this

/-! ## loss resets the server-derived state -/

/-- FULL STRENGTH (the former `C16_reset_partial` / `C16_reset_counterexample` pair — known finding
    `C16-residual-tracking-after-write-failure-in-burst` — is repaired by fixes/C16-session-destroyed-during-login
    and fixes/C16-tracking-cancel-lost-in-failed-write): for every state and EVERY operation of the alphabet —
    including a login interrupted before the reply or at any write of the burst by a write failure, a close by
    another task, `stop()` or a server-side EOF, a loss during which a listener of the application is suspended,
    and a failed reconnect of the application — if the operation reports the server connection CLOSED then
    afterwards no tracked user, user, room, distributed parameter or session is stored. -/
theorem C16_reset (c : Config) (st : State) (op : Op)
    (h : obsClosed (step c st op).2 = true) : cleared (step c st op).1 :=
  reset_step c st op h

/-- the witness of the former known finding: the burst write #2 fails; nothing is tracked afterwards, `login()`
    returns normally, the session was initialised and destroyed (replayed on the real code on every run as a
    directed case) -/
example :
    let c : Config := { friends := ["f1", "f2"], clearPort := 60000 }
    let st : State := { conn := .connected, started := true, ping := true }
    let r := step c st (.loginBreak (some 1) 1 .writeFail)
    obsClosed r.2 = true ∧ r.1.tracked = [] ∧ cleared r.1 ∧ nInit r.2 = 1 ∧ nDestr r.2 = 1 ∧
    Obs.loginResult .ok ∈ r.2 := by
  decide

/-- A login interrupted inside its burst — at ANY awaited write, by a write failure, a close from another task or
    `stop()` — initialises one session and destroys it again inside `login()`; afterwards there is no session, no
    tracked user, no reader and no connected server connection (the listeners that had not run yet do nothing on
    the closed connection). -/
theorem C16_login_break_clean (c : Config) (ops : List Op) (j d : Nat) (b : Break) :
    let st := (run c init ops).1
    st.conn = .connected → st.session = false → st.reader = false → st.stopped = false →
    j < (burst c (envOf c st)).length → b ≠ .srvEof →
    let r := step c st (.loginBreak (some j) d b)
    r.1.session = false ∧ r.1.tracked = [] ∧ r.1.reader = false ∧ r.1.conn ≠ .connected ∧
    nInit r.2 = 1 ∧ nDestr r.2 = 1 := by
  intro st hc hs hr hp hj hb r
  have hi : Inv st := inv_run c ops init inv_init
  have hir : Inv r.1 := inv_step c st _ hi
  have hcnt : nDestr r.2 + b2n r.1.session = nInit r.2 + b2n st.session := count_step c st _ hi
  have hnj : ¬ j ≥ (burst c (envOf c st)).length := by omega
  have hclosed : obsClosed r.2 = true ∧ nInit r.2 = 1 := by
    show obsClosed (step c st (.loginBreak (some j) d b)).2 = true ∧
      nInit (step c st (.loginBreak (some j) d b)).2 = 1
    simp only [step, hc, hs, hr, hp, and_self, if_true, doLoginBreak, hnj, if_false]
    cases b with
    | writeFail => simp [applyBreak, closeServer, hc, obsClosed, nInit]
    | close r' => simp [applyBreak, closeServer, hc, obsClosed, nInit]
    | stop => simp [applyBreak, doStop, closeServer, hc, obsClosed, nInit]
    | srvEof => exact absurd rfl hb
  have hcl : cleared r.1 := reset_step c st _ hclosed.1
  obtain ⟨h1, _, _, _, h5⟩ := hcl
  have hnc : r.1.conn ≠ .connected := by
    show (step c st (.loginBreak (some j) d b)).1.conn ≠ .connected
    simp only [step, hc, hs, hr, hp, and_self, if_true, doLoginBreak, hnj, if_false]
    cases b with
    | writeFail => simp [applyBreak, closeServer, hc]
    | close r' => simp [applyBreak, closeServer, hc]
    | stop => simp [applyBreak, doStop, closeServer, hc]
    | srvEof => exact absurd rfl hb
  refine ⟨h5, h1, (hir.1 hnc).2.1, hnc, hclosed.2, ?_⟩
  rw [h5, hs, hclosed.2] at hcnt
  simpa [b2n] using hcnt

/-! ## reconnect iff auto ∧ reason ∉ {REQUESTED, EOF} ∧ credentials ∧ not stopped
(the pieces first, the single law `C16_reconnect_iff` at the end of the section) -/

/-- the decision is taken when the connection closes: a requested disconnect or a server-side EOF stops the
    watchdog, every other reason leaves it as it was -/
theorem C16_reconnect_decision (c : Config) (st : State) (r : Reason) (hc : st.conn = .connected)
    (hv : r ≠ .connectFailed) (hr : (r = .eof ∨ r = .readError) → st.reader = true) :
    (step c st (.loss r)).1.wd = (if r = .requested ∨ r = .eof then .off else st.wd) ∧
    (step c st (.loss r)).1.conn = .closed := by
  simp only [step]
  rw [if_pos ⟨hc, hv, hr⟩]
  simp [closeServer, hc]

/-- the watchdog runs on a connected, not stopped client iff `reconnect.auto` (it is started at CONNECTED) -/
theorem C16_watchdog_started_iff_auto (c : Config) (st : State) (hu : st.conn = .uninit) (hs : st.started = false)
    (hup : st.srvUp = true) (n : Nat) (hl : listenResult c = some n) :
    (step c st .start).1.conn = .connected ∧
    ((step c st .start).1.wd = .idle ↔ c.reconnectAuto = true) ∧
    ((step c st .start).1.wd = .off ↔ c.reconnectAuto = false) := by
  cases ha : c.reconnectAuto <;> simp [step, doStart, hu, hs, hup, hl, ha]

/-- with the watchdog stopped (requested disconnect, EOF, stop(), or reconnect.auto off) NOTHING happens any more,
    whatever time passes and whatever the server does -/
theorem C16_no_reconnect (c : Config) (st : State) (post : List Op) (he : ∀ op ∈ post, op.isEnv = true)
    (h : st.wd = .off) : (run c st post).2 = [] := off_run c post st he h

/-- without configured credentials the watchdog never reconnects -/
theorem C16_no_reconnect_without_credentials (c : Config) (st : State) (hc : c.credsOk = false)
    (h : st.wd = .idle) : (step c st .tick).2 = [] ∧ (step c st .tick).1.wd = .idle :=
  ⟨(nocreds_step c st hc h).2, (nocreds_step c st hc h).1⟩

/-- with the watchdog alive, a closed connection and credentials, a connect attempt is made once the reconnect
    delay has elapsed … -/
theorem C16_reconnect_after_delay (c : Config) (st : State) (hw : st.wd = .idle) (hc : st.conn = .closed)
    (hk : c.credsOk = true) :
    Obs.attempt ∈ (run c st (List.replicate (reconnectTicks + 1) .tick)).2 := idle_reconnects c st hw hc hk

/-- … and a successful reconnect logs in again and sends the whole burst again -/
theorem C16_reconnect_logs_in (c : Config) (st : State) (hup : st.srvUp = true) (ha : c.reconnectAuto = true)
    (hr : st.srvReply = .accepted) :
    (reconnect c st).2 = [.attempt, .connected, .loginSent, .sessionInit,
      .frames (burst c (envOf c st)), .loginResult .ok] ∧ (reconnect c st).1.session = true := by
  simp [reconnect, doLogin, hup, ha, hr, envOf]

/-- THE reconnect law, over every history: from any reachable state with a connected server connection, when
    the connection is lost with reason `r` and the reconnect delay (+ one poll) passes, a new connection is
    attempted iff `reconnect.auto` ∧ `r ∉ {REQUESTED, EOF}` ∧ credentials are configured, and a new Login is sent
    iff moreover the server accepts the connection.  (`stop()` closes with REQUESTED and is covered in full
    strength by `C16_stop_final`; a connected state is never a stopped one.) -/
theorem C16_reconnect_iff (c : Config) (ops : List Op) (r : Reason) :
    let st := (run c init ops).1
    st.conn = .connected → r ≠ .connectFailed → ((r = .eof ∨ r = .readError) → st.reader = true) →
    let obs := (run c st (.loss r :: List.replicate (reconnectTicks + 1) .tick)).2
    (Obs.attempt ∈ obs ↔ (c.reconnectAuto = true ∧ r ≠ .requested ∧ r ≠ .eof ∧ c.credsOk = true)) ∧
    (Obs.loginSent ∈ obs ↔
      (c.reconnectAuto = true ∧ r ≠ .requested ∧ r ≠ .eof ∧ c.credsOk = true ∧ st.srvUp = true)) := by
  intro st hc hv hr obs
  have hw : WInv c st := winv_run c ops init (winv_init c) inv_init
  obtain ⟨k1, k2, k3, k4, k5⟩ := closeServer_connected r st hc
  have hobs : obs = (closeServer r st).2 ++
      (run c (closeServer r st).1 (List.replicate (reconnectTicks + 1) .tick)).2 :=
    loss_ticks_obs c st r _ hc hv hr
  rw [hobs]
  exact reconnect_law c st _ _ r hw hc k1 k2 k3 k4 k5

/-- The same law when a listener of the application (CLOSED / SessionDestroyed event) stays SUSPENDED for the whole
    reconnect delay: the watchdog reconnects and logs in while `DataConnection.disconnect` has not returned. -/
theorem C16_reconnect_iff_held (c : Config) (ops : List Op) (r : Reason) :
    let st := (run c init ops).1
    st.conn = .connected → r ≠ .connectFailed → ((r = .eof ∨ r = .readError) → st.reader = true) →
    let obs := (run c st (.lossHeld r :: List.replicate (reconnectTicks + 1) .tick)).2
    (Obs.attempt ∈ obs ↔ (c.reconnectAuto = true ∧ r ≠ .requested ∧ r ≠ .eof ∧ c.credsOk = true)) ∧
    (Obs.loginSent ∈ obs ↔
      (c.reconnectAuto = true ∧ r ≠ .requested ∧ r ≠ .eof ∧ c.credsOk = true ∧ st.srvUp = true)) := by
  intro st hc hv hr obs
  have hw : WInv c st := winv_run c ops init (winv_init c) inv_init
  obtain ⟨k1, k2, k3, k4, k5⟩ := closeServer_connected r st hc
  have hobs := lossHeld_ticks_obs c st r (reconnectTicks + 1) hc hv hr
  show (Obs.attempt ∈ (run c st (.lossHeld r :: List.replicate (reconnectTicks + 1) .tick)).2 ↔ _) ∧
       (Obs.loginSent ∈ (run c st (.lossHeld r :: List.replicate (reconnectTicks + 1) .tick)).2 ↔ _)
  rw [hobs]
  exact reconnect_law c st _ _ r hw hc k1 k2 k3 k4 k5

/-- When the suspended listeners return nothing else changes: the connection and the session the watchdog (or the
    application) has established meanwhile stay as they are, no event is produced, and no reader of the old
    stream is left (fix C16-disconnect-releases-stream-first). -/
theorem C16_release_harmless (c : Config) (st : State) (h : st.held ≠ []) :
    (step c st .release).2 = [] ∧ (step c st .release).1 = { st with held := [] } ∧
    (step c st .release).1.heldReaders = 0 := by
  simp [step, h, State.heldReaders]

/-! ## stop is final -/

/-- After `stop()` has returned — wherever it was called: in ANY reachable state, also from another task while a
    `login()` is waiting for the reply or is suspended in any write of its post-login burst (`pre` may end with
    `.loginBreak pos d .stop`) — no library task is pending except reader loops that are suspended inside a
    listener of the APPLICATION (they end when the listener returns: last conjunct), no socket is open, and for
    EVERY later sequence of operations (time passing, server coming back, even user calls) no connection is
    attempted or opened, nothing is sent, no session appears, and it stays that way.
    (Calling `start()` again after `stop()` is outside the model: it is reported as not applicable.) -/
theorem C16_stop_final (c : Config) (pre post : List Op) :
    let st1 := (run c init pre).1
    st1.stopped = true →
    alive c st1 = List.replicate st1.heldReaders .reader ∧ openSockets st1 = 0 ∧
    (∀ o ∈ (run c st1 post).2, o = .invalid ∨ o = .refused) ∧
    alive c (run c st1 post).1 = List.replicate (run c st1 post).1.heldReaders .reader ∧
    (run c st1 post).1.heldReaders ≤ st1.heldReaders ∧
    openSockets (run c st1 post).1 = 0 ∧
    alive c (step c (run c st1 post).1 .release).1 = [] := by
  intro st1 hp
  have hi : Inv (run c init pre).1 := inv_run c pre init inv_init
  have hq : Quiet st1 := stopinv_run c pre init inv_init stopinv_init hp
  have hr := quiet_run c post st1 hq
  have hrel := quiet_step c (run c st1 post).1 .release hr.1
  refine ⟨(quiet_alive c st1 hq).1, (quiet_alive c st1 hq).2, hr.2.1, (quiet_alive c _ hr.1).1, hr.2.2,
    (quiet_alive c _ hr.1).2, ?_⟩
  rw [(quiet_alive c _ hrel.1).1]
  by_cases hh : (run c st1 post).1.held = []
  · simp [step, hh, State.heldReaders]
  · simp [step, hh, State.heldReaders]

/-- `stop()` is applicable in every reachable state of a started, not yet stopped client and sets `stopped` … -/
theorem C16_stop_applicable (c : Config) (pre : List Op) :
    let st0 := (run c init pre).1
    st0.started = true → st0.stopped = false → (step c st0 .stop).1.stopped = true := by
  intro st0 hs hp
  simp [step, hs, hp, doStop]

/-- … also when it is called while a `login()` is in progress, at any of its suspension points -/
theorem C16_stop_applicable_in_login (c : Config) (pre : List Op) (pos : Option Nat) (d : Nat) :
    let st0 := (run c init pre).1
    st0.conn = .connected → st0.session = false → st0.reader = false → st0.stopped = false →
    (step c st0 (.loginBreak pos d .stop)).1.stopped = true ∧
    Obs.invalid ∉ (step c st0 (.loginBreak pos d .stop)).2 := by
  intro st0 hc hs hr hp
  have hstop : ∀ s : State, (doStop c s).1.stopped = true := by intro s; simp [doStop]
  have hinv : ∀ s : State, Obs.invalid ∉ (doStop c s).2 := by
    intro s; simp only [doStop, closeServer]; split <;> (try split) <;> simp
  simp only [step, hc, hs, hr, hp, and_self, if_true]
  unfold doLoginBreak
  cases pos with
  | none => exact ⟨hstop _, by simp [applyBreak, hinv]⟩
  | some j =>
    simp only []
    split
    · refine ⟨hstop _, ?_⟩
      simp [applyBreak, hinv, doLogin]
    · exact ⟨hstop _, by simp [applyBreak, hinv]⟩

/-! ## the hypotheses are satisfiable by non-trivial reachable states -/

private def exCfg : Config :=
  { friends := ["f1", "f2"], liked := ["rock"], hated := ["pop"], favorites := ["room1"], reconnectAuto := true,
    requestTimeout := true, wishlist := 1, clearPort := 60000, obfPort := 60001, race := true, files := 2 }

/-- a session with pending work (search timer, wishlist, potential parent in race mode), lost by a read error, reconnected after
    21 ticks and logged in again: two sessions initialised, one destroyed, one present -/
example :
    let r := run exCfg init ([.start, .login, .populate, .search, .wishlistInterval, .potentialParents,
      .loss .readError] ++ List.replicate 21 .tick)
    r.1.session = true ∧ nInit r.2 = 2 ∧ nDestr r.2 = 1 ∧ r.1.conn = .connected := by decide

/-- stop() in the middle of the reconnect delay: the premises of `C16_stop_final` hold and work was pending -/
example :
    let st0 := (run exCfg init [.start, .login, .search, .potentialParents, .searchRequest, .loss .writeError,
      .tick, .tick]).1
    -- watchdog, 3 managers' tasks, search timer, potential parent + search reply, each with 2 race children
    st0.started = true ∧ st0.stopped = false ∧ st0.wd = .sleeping 19 ∧ (alive exCfg st0).length = 11 := by decide

/-- `stop()` from another task while the login after a reconnect is suspended in the 4th write of its burst: the
    premise of `C16_stop_final` holds for this history, a session was initialised twice and destroyed twice -/
example :
    let r := run exCfg init [.start, .login, .search, .loss .readError, .connect, .loginBreak (some 3) 4 .stop]
    r.1.stopped = true ∧ nInit r.2 = 2 ∧ nDestr r.2 = 2 ∧ alive exCfg r.1 = [] := by decide

/-- a read error whose SessionDestroyed listener stays suspended while the watchdog reconnects and logs in; when
    the listener returns the new session is untouched and the stale reader is gone -/
example :
    let r := run exCfg init ([.start, .login, .lossHeld .readError] ++ List.replicate 21 .tick)
    let r' := step exCfg r.1 .release
    r.1.session = true ∧ r.1.heldReaders = 1 ∧ (alive exCfg r.1).count .reader = 2 ∧
    r'.1.session = true ∧ r'.1.conn = .connected ∧ (alive exCfg r'.1).count .reader = 1 ∧ r'.2 = [] := by decide

/-- the parent named by the server announces level 3 in the branch of "rootuser", a child joins; the server
    connection is lost by a read error, the watchdog reconnects and logs in: parent and child are still there, the
    burst of the SECOND login carries level 4 / "rootuser" / not searching, and that is what the new connection
    knows (the hypotheses of `C16_relogin_tells_surviving_position` hold in a reachable state with a parent) -/
example :
    let pre : List Op := [.start, .login, .potentialParents, .parentAdopt "par0" "rootuser" 3, .childJoin]
    let st := (run exCfg init pre).1
    let r := run exCfg st (.loss .readError :: List.replicate 21 .tick)
    st.conn = .connected ∧ st.srvUp = true ∧ st.srvReply = .accepted ∧ st.pp = [] ∧
    st.parent = some ⟨"par0", "rootuser", 3⟩ ∧ st.told = some (4, "rootuser", false) ∧
    r.1.session = true ∧ r.1.parent = st.parent ∧ r.1.children = 1 ∧ r.1.told = some (4, "rootuser", false) ∧
    Frame.branchLevel 4 ∈ burst exCfg (envOf exCfg r.1) ∧ Frame.branchRoot "rootuser" ∈ burst exCfg (envOf exCfg r.1) ∧
    Frame.toggleParentSearch false ∈ burst exCfg (envOf exCfg r.1) ∧
    Obs.frames (burst exCfg (envOf exCfg st)) ∈ r.2 ∧ nInit r.2 = 1 := by decide

/-- the parent moves and goes away while there is no session (requested disconnect): nothing can be sent; the manual
    login that follows announces level 0 / own name / searching again; `stop()` closes the children -/
example :
    let r := run exCfg init [.start, .login, .parentAdopt "par0" "x" 0, .childJoin, .loss .requested, .parentLevel 2,
      .parentLoss, .connect, .login]
    r.1.session = true ∧ r.1.parent = none ∧ r.1.children = 1 ∧ r.1.told = some (0, "me", true) ∧
    (alive exCfg r.1).count .reader = 2 ∧ alive exCfg (step exCfg r.1 .stop).1 = [] ∧
    openSockets (step exCfg r.1 .stop).1 = 0 := by decide

/-- the application scans again without a session (nothing can be reported): the re-login reports the new counts -/
example :
    let c : Config := { exCfg with shareDirs := 1, dirs := 1 }
    let r := run c init ([.start, .login, .loss .readError, .rescan 1 5] ++ List.replicate 21 .tick)
    r.1.session = true ∧ Frame.sharedFoldersFiles 1 5 ∈ burst c (envOf c r.1) ∧
    Frame.sharedFoldersFiles 1 2 ∉ burst c (envOf c r.1) ∧ Obs.frames (burst c (envOf c r.1)) ∈ r.2 := by decide

example : exCfg.WF := by decide

example : (burst exCfg (envOf exCfg init)).length = 14 := by decide

end AioslskVerif.Session
