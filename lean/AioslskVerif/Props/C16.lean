import AioslskVerif.Proofs.Session
/-!
# C16 — session life cycle: login advertises settings, loss resets, stop is final

Property theorems over `Model/Session.lean` (the FIXED code: fixes/C16-*.patch).  All statements quantify over
every configuration (unbounded sets of friends / interests / favourites) and every operation history.
-/
namespace AioslskVerif.Session
open AioslskVerif.Generated

/-! ## the task inventory is the code's -/

/-- Every spawn site found in the source is an inventory entry and every inventory entry is a spawn site of the
    source (regenerated on every run: a new `create_task(` / `BackgroundTask(` / `Timer(` breaks this). -/
theorem C16_inventory_complete :
    (∀ k ∈ TaskSites.sites, k ∈ Site.all.map Site.key) ∧ (∀ s ∈ Site.all, s.key ∈ TaskSites.sites) ∧
    (∀ s : Site, s ∈ Site.all) := by
  refine ⟨by decide, by decide, ?_⟩
  intro s; cases s <;> decide

/-- Every inventory entry has a cancelling path that exists in the scanned source (services list, cancel calls on
    the shutdown paths, and — for the two children of `_create_peer_connection_race`, which hold no handle — the
    `except asyncio.CancelledError` handler of their creator that cancels the pending children, waits for them and
    re-raises, together with a covered path for every library task the creator runs in). -/
theorem C16_inventory_covered (k : Site) : covered k = true := covered_all k

/-! ## the burst -/

/-- After a successful login the server has been told exactly what the settings say: for EVERY frame value the
    number of times the login burst contains it equals the table `mustTell`. -/
theorem C16_burst_exact (c : Config) (e : Env) (h : c.WF) (f : Frame) :
    (burst c e).count f = mustTell c e f := burst_count c e h f

/-- favourites are joined iff automatic rejoin is enabled (reading of SETTINGS.rst `rooms.auto_join`) -/
theorem C16_burst_favourites (c : Config) (e : Env) (h : c.WF) (r : String) :
    (Frame.joinRoom r ∈ burst c e) ↔ (c.autoJoin = true ∧ r ∈ c.favorites) := by
  rw [← List.count_pos_iff, burst_count c e h]
  simp only [mustTell]
  split <;> simp_all

/-- a successful login emits exactly the burst -/
theorem C16_login_emits_burst (c : Config) (st : State) (hc : st.conn = .connected) (hs : st.session = false)
    (hr : st.reader = false) (hp : st.stopped = false) (ha : st.srvReply = .accepted) :
    (step c st .login).2 = [.loginSent, .sessionInit, .frames (burst c (envOf c st)), .loginResult .ok] ∧
    (step c st .login).1.session = true := by
  simp [step, doLogin, hc, hs, hr, hp, ha]

/-! ## commands are refused without a session -/

theorem C16_refuse_without_session (c : Config) (st : State) (h : st.session = false) :
    step c st .exec = (st, [.refused]) := by
  simp [step, h]

/-- in every reachable state a command is sent only over a connected server connection -/
theorem C16_exec_sent_only_connected (c : Config) (ops : List Op) :
    let st := (run c init ops).1
    (step c st .exec).2 = [.sent] → st.conn = .connected ∧ st.session = true := by
  intro st h
  have hi : Inv st := inv_run c ops init inv_init
  cases hs : st.session with
  | false => simp [step, hs] at h
  | true =>
    refine ⟨?_, rfl⟩
    by_cases hc : st.conn = .connected
    · exact hc
    · have := (hi.1 hc).2.2; simp [hs] at this

/-! ## a session is destroyed exactly once -/

/-- For every history: #SessionDestroyed + (1 if a session is present) = #SessionInitialized. -/
theorem C16_destroy_once (c : Config) (ops : List Op) :
    nDestr (run c init ops).2 + b2n (run c init ops).1.session = nInit (run c init ops).2 := by
  have := count_run c ops init inv_init
  simpa [init, b2n] using this

/-- a session exists only on a connected server connection: a lost connection never keeps its session -/
theorem C16_session_needs_connection (c : Config) (ops : List Op) :
    (run c init ops).1.session = true → (run c init ops).1.conn = .connected := by
  intro h
  have hi : Inv (run c init ops).1 := inv_run c ops init inv_init
  by_cases hc : (run c init ops).1.conn = .connected
  · exact hc
  · have := (hi.1 hc).2.2; simp [h] at this

/-! ## loss resets the server-derived state -/

/-- FULL STRENGTH (the former `C16_reset_partial` / `C16_reset_counterexample` pair — known finding
    `C16-residual-tracking-after-write-failure-in-burst` — is repaired by fixes/C16-session-destroyed-during-login
    and fixes/C16-tracking-cancel-lost-in-failed-write): for every state and EVERY operation of the alphabet —
    including a login interrupted before the reply or at any write of the burst by a write failure, a close by
    another task, `stop()` or a server-side EOF, a loss during which a listener of the application is suspended,
    and a failed reconnect of the application — if the operation reports the server connection CLOSED then
    afterwards no tracked user, user, room, distributed parameter or session is stored. -/
theorem C16_reset (c : Config) (st : State) (op : Op)
    (h : obsClosed (step c st op).2 = true) : cleared (step c st op).1 :=
  reset_step c st op h

/-- the witness of the former known finding: the burst write #2 fails; nothing is tracked afterwards, `login()`
    returns normally, the session was initialised and destroyed (replayed on the real code on every run as a
    directed case) -/
example :
    let c : Config := { friends := ["f1", "f2"], clearPort := 60000 }
    let st : State := { conn := .connected, started := true, ping := true }
    let r := step c st (.loginBreak (some 1) 1 .writeFail)
    obsClosed r.2 = true ∧ r.1.tracked = [] ∧ cleared r.1 ∧ nInit r.2 = 1 ∧ nDestr r.2 = 1 ∧
    Obs.loginResult .ok ∈ r.2 := by
  decide

/-- A login interrupted inside its burst — at ANY awaited write, by a write failure, a close from another task or
    `stop()` — initialises one session and destroys it again inside `login()`; afterwards there is no session, no
    tracked user, no reader and no connected server connection (the listeners that had not run yet do nothing on
    the closed connection). -/
theorem C16_login_break_clean (c : Config) (ops : List Op) (j d : Nat) (b : Break) :
    let st := (run c init ops).1
    st.conn = .connected → st.session = false → st.reader = false → st.stopped = false →
    j < (burst c (envOf c st)).length → b ≠ .srvEof →
    let r := step c st (.loginBreak (some j) d b)
    r.1.session = false ∧ r.1.tracked = [] ∧ r.1.reader = false ∧ r.1.conn ≠ .connected ∧
    nInit r.2 = 1 ∧ nDestr r.2 = 1 := by
  intro st hc hs hr hp hj hb r
  have hi : Inv st := inv_run c ops init inv_init
  have hir : Inv r.1 := inv_step c st _ hi
  have hcnt : nDestr r.2 + b2n r.1.session = nInit r.2 + b2n st.session := count_step c st _ hi
  have hnj : ¬ j ≥ (burst c (envOf c st)).length := by omega
  have hclosed : obsClosed r.2 = true ∧ nInit r.2 = 1 := by
    show obsClosed (step c st (.loginBreak (some j) d b)).2 = true ∧
      nInit (step c st (.loginBreak (some j) d b)).2 = 1
    simp only [step, hc, hs, hr, hp, and_self, if_true, doLoginBreak, hnj, if_false]
    cases b with
    | writeFail => simp [applyBreak, closeServer, hc, obsClosed, nInit]
    | close r' => simp [applyBreak, closeServer, hc, obsClosed, nInit]
    | stop => simp [applyBreak, doStop, closeServer, hc, obsClosed, nInit]
    | srvEof => exact absurd rfl hb
  have hcl : cleared r.1 := reset_step c st _ hclosed.1
  obtain ⟨h1, _, _, _, h5⟩ := hcl
  have hnc : r.1.conn ≠ .connected := by
    show (step c st (.loginBreak (some j) d b)).1.conn ≠ .connected
    simp only [step, hc, hs, hr, hp, and_self, if_true, doLoginBreak, hnj, if_false]
    cases b with
    | writeFail => simp [applyBreak, closeServer, hc]
    | close r' => simp [applyBreak, closeServer, hc]
    | stop => simp [applyBreak, doStop, closeServer, hc]
    | srvEof => exact absurd rfl hb
  refine ⟨h5, h1, (hir.1 hnc).2.1, hnc, hclosed.2, ?_⟩
  rw [h5, hs, hclosed.2] at hcnt
  simpa [b2n] using hcnt

/-! ## reconnect iff auto ∧ reason ∉ {REQUESTED, EOF} ∧ credentials ∧ not stopped
(the pieces first, the single law `C16_reconnect_iff` at the end of the section) -/

/-- the decision is taken when the connection closes: a requested disconnect or a server-side EOF stops the
    watchdog, every other reason leaves it as it was -/
theorem C16_reconnect_decision (c : Config) (st : State) (r : Reason) (hc : st.conn = .connected)
    (hv : r ≠ .connectFailed) (hr : (r = .eof ∨ r = .readError) → st.reader = true) :
    (step c st (.loss r)).1.wd = (if r = .requested ∨ r = .eof then .off else st.wd) ∧
    (step c st (.loss r)).1.conn = .closed := by
  simp only [step]
  rw [if_pos ⟨hc, hv, hr⟩]
  simp [closeServer, hc]

/-- the watchdog runs on a connected, not stopped client iff `reconnect.auto` (it is started at CONNECTED) -/
theorem C16_watchdog_started_iff_auto (c : Config) (st : State) (hu : st.conn = .uninit) (hs : st.started = false)
    (hup : st.srvUp = true) (n : Nat) (hl : listenResult c = some n) :
    (step c st .start).1.conn = .connected ∧
    ((step c st .start).1.wd = .idle ↔ c.reconnectAuto = true) ∧
    ((step c st .start).1.wd = .off ↔ c.reconnectAuto = false) := by
  cases ha : c.reconnectAuto <;> simp [step, doStart, hu, hs, hup, hl, ha]

/-- with the watchdog stopped (requested disconnect, EOF, stop(), or reconnect.auto off) NOTHING happens any more,
    whatever time passes and whatever the server does -/
theorem C16_no_reconnect (c : Config) (st : State) (post : List Op) (he : ∀ op ∈ post, op.isEnv = true)
    (h : st.wd = .off) : (run c st post).2 = [] := off_run c post st he h

/-- without configured credentials the watchdog never reconnects -/
theorem C16_no_reconnect_without_credentials (c : Config) (st : State) (hc : c.credsOk = false)
    (h : st.wd = .idle) : (step c st .tick).2 = [] ∧ (step c st .tick).1.wd = .idle :=
  ⟨(nocreds_step c st hc h).2, (nocreds_step c st hc h).1⟩

/-- with the watchdog alive, a closed connection and credentials, a connect attempt is made once the reconnect
    delay has elapsed … -/
theorem C16_reconnect_after_delay (c : Config) (st : State) (hw : st.wd = .idle) (hc : st.conn = .closed)
    (hk : c.credsOk = true) :
    Obs.attempt ∈ (run c st (List.replicate (reconnectTicks + 1) .tick)).2 := idle_reconnects c st hw hc hk

/-- … and a successful reconnect logs in again and sends the whole burst again -/
theorem C16_reconnect_logs_in (c : Config) (st : State) (hup : st.srvUp = true) (ha : c.reconnectAuto = true)
    (hr : st.srvReply = .accepted) :
    (reconnect c st).2 = [.attempt, .connected, .loginSent, .sessionInit,
      .frames (burst c (envOf c st)), .loginResult .ok] ∧ (reconnect c st).1.session = true := by
  simp [reconnect, doLogin, hup, ha, hr, envOf]

/-- THE reconnect law, over every history: from any reachable state with a connected server connection, when
    the connection is lost with reason `r` and the reconnect delay (+ one poll) passes, a new connection is
    attempted iff `reconnect.auto` ∧ `r ∉ {REQUESTED, EOF}` ∧ credentials are configured, and a new Login is sent
    iff moreover the server accepts the connection.  (`stop()` closes with REQUESTED and is covered in full
    strength by `C16_stop_final`; a connected state is never a stopped one.) -/
theorem C16_reconnect_iff (c : Config) (ops : List Op) (r : Reason) :
    let st := (run c init ops).1
    st.conn = .connected → r ≠ .connectFailed → ((r = .eof ∨ r = .readError) → st.reader = true) →
    let obs := (run c st (.loss r :: List.replicate (reconnectTicks + 1) .tick)).2
    (Obs.attempt ∈ obs ↔ (c.reconnectAuto = true ∧ r ≠ .requested ∧ r ≠ .eof ∧ c.credsOk = true)) ∧
    (Obs.loginSent ∈ obs ↔
      (c.reconnectAuto = true ∧ r ≠ .requested ∧ r ≠ .eof ∧ c.credsOk = true ∧ st.srvUp = true)) := by
  intro st hc hv hr obs
  have hw : WInv c st := winv_run c ops init (winv_init c) inv_init
  obtain ⟨k1, k2, k3, k4, k5⟩ := closeServer_connected r st hc
  have hobs : obs = (closeServer r st).2 ++
      (run c (closeServer r st).1 (List.replicate (reconnectTicks + 1) .tick)).2 :=
    loss_ticks_obs c st r _ hc hv hr
  rw [hobs]
  exact reconnect_law c st _ _ r hw hc k1 k2 k3 k4 k5

/-- The same law when a listener of the application (CLOSED / SessionDestroyed event) stays SUSPENDED for the whole
    reconnect delay: the watchdog reconnects and logs in while `DataConnection.disconnect` has not returned. -/
theorem C16_reconnect_iff_held (c : Config) (ops : List Op) (r : Reason) :
    let st := (run c init ops).1
    st.conn = .connected → r ≠ .connectFailed → ((r = .eof ∨ r = .readError) → st.reader = true) →
    let obs := (run c st (.lossHeld r :: List.replicate (reconnectTicks + 1) .tick)).2
    (Obs.attempt ∈ obs ↔ (c.reconnectAuto = true ∧ r ≠ .requested ∧ r ≠ .eof ∧ c.credsOk = true)) ∧
    (Obs.loginSent ∈ obs ↔
      (c.reconnectAuto = true ∧ r ≠ .requested ∧ r ≠ .eof ∧ c.credsOk = true ∧ st.srvUp = true)) := by
  intro st hc hv hr obs
  have hw : WInv c st := winv_run c ops init (winv_init c) inv_init
  obtain ⟨k1, k2, k3, k4, k5⟩ := closeServer_connected r st hc
  have hobs := lossHeld_ticks_obs c st r (reconnectTicks + 1) hc hv hr
  show (Obs.attempt ∈ (run c st (.lossHeld r :: List.replicate (reconnectTicks + 1) .tick)).2 ↔ _) ∧
       (Obs.loginSent ∈ (run c st (.lossHeld r :: List.replicate (reconnectTicks + 1) .tick)).2 ↔ _)
  rw [hobs]
  exact reconnect_law c st _ _ r hw hc k1 k2 k3 k4 k5

/-- When the suspended listeners return nothing else changes: the connection and the session the watchdog (or the
    application) has established meanwhile stay as they are, no event is produced, and no reader of the old
    stream is left (fix C16-disconnect-releases-stream-first). -/
theorem C16_release_harmless (c : Config) (st : State) (h : st.held ≠ []) :
    (step c st .release).2 = [] ∧ (step c st .release).1 = { st with held := [] } ∧
    (step c st .release).1.heldReaders = 0 := by
  simp [step, h, State.heldReaders]

/-! ## stop is final -/

/-- After `stop()` has returned — wherever it was called: in ANY reachable state, also from another task while a
    `login()` is waiting for the reply or is suspended in any write of its post-login burst (`pre` may end with
    `.loginBreak pos d .stop`) — no library task is pending except reader loops that are suspended inside a
    listener of the APPLICATION (they end when the listener returns: last conjunct), no socket is open, and for
    EVERY later sequence of operations (time passing, server coming back, even user calls) no connection is
    attempted or opened, nothing is sent, no session appears, and it stays that way.
    (Calling `start()` again after `stop()` is outside the model: it is reported as not applicable.) -/
theorem C16_stop_final (c : Config) (pre post : List Op) :
    let st1 := (run c init pre).1
    st1.stopped = true →
    alive c st1 = List.replicate st1.heldReaders .reader ∧ openSockets st1 = 0 ∧
    (∀ o ∈ (run c st1 post).2, o = .invalid ∨ o = .refused) ∧
    alive c (run c st1 post).1 = List.replicate (run c st1 post).1.heldReaders .reader ∧
    (run c st1 post).1.heldReaders ≤ st1.heldReaders ∧
    openSockets (run c st1 post).1 = 0 ∧
    alive c (step c (run c st1 post).1 .release).1 = [] := by
  intro st1 hp
  have hi : Inv (run c init pre).1 := inv_run c pre init inv_init
  have hq : Quiet st1 := stopinv_run c pre init inv_init stopinv_init hp
  have hr := quiet_run c post st1 hq
  have hrel := quiet_step c (run c st1 post).1 .release hr.1
  refine ⟨(quiet_alive c st1 hq).1, (quiet_alive c st1 hq).2, hr.2.1, (quiet_alive c _ hr.1).1, hr.2.2,
    (quiet_alive c _ hr.1).2, ?_⟩
  rw [(quiet_alive c _ hrel.1).1]
  by_cases hh : (run c st1 post).1.held = []
  · simp [step, hh, State.heldReaders]
  · simp [step, hh, State.heldReaders]

/-- `stop()` is applicable in every reachable state of a started, not yet stopped client and sets `stopped` … -/
theorem C16_stop_applicable (c : Config) (pre : List Op) :
    let st0 := (run c init pre).1
    st0.started = true → st0.stopped = false → (step c st0 .stop).1.stopped = true := by
  intro st0 hs hp
  simp [step, hs, hp, doStop]

/-- … also when it is called while a `login()` is in progress, at any of its suspension points -/
theorem C16_stop_applicable_in_login (c : Config) (pre : List Op) (pos : Option Nat) (d : Nat) :
    let st0 := (run c init pre).1
    st0.conn = .connected → st0.session = false → st0.reader = false → st0.stopped = false →
    (step c st0 (.loginBreak pos d .stop)).1.stopped = true ∧
    Obs.invalid ∉ (step c st0 (.loginBreak pos d .stop)).2 := by
  intro st0 hc hs hr hp
  have hstop : ∀ s : State, (doStop c s).1.stopped = true := by intro s; simp [doStop]
  have hinv : ∀ s : State, Obs.invalid ∉ (doStop c s).2 := by
    intro s; simp only [doStop, closeServer]; split <;> (try split) <;> simp
  simp only [step, hc, hs, hr, hp, and_self, if_true]
  unfold doLoginBreak
  cases pos with
  | none => exact ⟨hstop _, by simp [applyBreak, hinv]⟩
  | some j =>
    simp only []
    split
    · refine ⟨hstop _, ?_⟩
      simp [applyBreak, hinv, doLogin]
    · exact ⟨hstop _, by simp [applyBreak, hinv]⟩

/-! ## the hypotheses are satisfiable by non-trivial reachable states -/

private def exCfg : Config :=
  { friends := ["f1", "f2"], liked := ["rock"], hated := ["pop"], favorites := ["room1"], reconnectAuto := true,
    requestTimeout := true, wishlist := 1, clearPort := 60000, obfPort := 60001, race := true, files := 2 }

/-- a session with pending work (search timer, wishlist, potential parent in race mode), lost by a read error, reconnected after
    21 ticks and logged in again: two sessions initialised, one destroyed, one present -/
example :
    let r := run exCfg init ([.start, .login, .populate, .search, .wishlistInterval, .potentialParents,
      .loss .readError] ++ List.replicate 21 .tick)
    r.1.session = true ∧ nInit r.2 = 2 ∧ nDestr r.2 = 1 ∧ r.1.conn = .connected := by decide

/-- stop() in the middle of the reconnect delay: the premises of `C16_stop_final` hold and work was pending -/
example :
    let st0 := (run exCfg init [.start, .login, .search, .potentialParents, .searchRequest, .loss .writeError,
      .tick, .tick]).1
    -- watchdog, 3 managers' tasks, search timer, potential parent + search reply, each with 2 race children
    st0.started = true ∧ st0.stopped = false ∧ st0.wd = .sleeping 19 ∧ (alive exCfg st0).length = 11 := by decide

/-- `stop()` from another task while the login after a reconnect is suspended in the 4th write of its burst: the
    premise of `C16_stop_final` holds for this history, a session was initialised twice and destroyed twice -/
example :
    let r := run exCfg init [.start, .login, .search, .loss .readError, .connect, .loginBreak (some 3) 4 .stop]
    r.1.stopped = true ∧ nInit r.2 = 2 ∧ nDestr r.2 = 2 ∧ alive exCfg r.1 = [] := by decide

/-- a read error whose SessionDestroyed listener stays suspended while the watchdog reconnects and logs in; when
    the listener returns the new session is untouched and the stale reader is gone -/
example :
    let r := run exCfg init ([.start, .login, .lossHeld .readError] ++ List.replicate 21 .tick)
    let r' := step exCfg r.1 .release
    r.1.session = true ∧ r.1.heldReaders = 1 ∧ (alive exCfg r.1).count .reader = 2 ∧
    r'.1.session = true ∧ r'.1.conn = .connected ∧ (alive exCfg r'.1).count .reader = 1 ∧ r'.2 = [] := by decide

example : exCfg.WF := by decide

example : (burst exCfg (envOf exCfg init)).length = 14 := by decide

end AioslskVerif.Session
