import AioslskVerif.Proofs.Session
/-!
# C16 — session life cycle: login advertises settings, loss resets, stop is final

Property theorems over `Model/Session.lean` (the FIXED code: fixes/C16-*.patch).  All statements quantify over
every configuration (unbounded sets of friends / interests / favourites) and every operation history.
-/
namespace AioslskVerif.Session
open AioslskVerif.Generated

/-! ## the task inventory is the code's -/

/-- Every spawn site found in the source is an inventory entry and every inventory entry is a spawn site of the
    source (regenerated on every run: a new `create_task(` / `BackgroundTask(` / `Timer(` breaks this). -/
theorem C16_inventory_complete :
    (∀ k ∈ TaskSites.sites, k ∈ Site.all.map Site.key) ∧ (∀ s ∈ Site.all, s.key ∈ TaskSites.sites) ∧
    (∀ s : Site, s ∈ Site.all) := by
  refine ⟨by decide, by decide, ?_⟩
  intro s; cases s <;> decide

/-- Every inventory entry has a cancelling path that exists in the scanned source (services list, cancel calls on
    the shutdown paths, and — for the two children of `_create_peer_connection_race`, which hold no handle — the
    `except asyncio.CancelledError` handler of their creator that cancels the pending children, waits for them and
    re-raises, together with a covered path for every library task the creator runs in). -/
theorem C16_inventory_covered (k : Site) : covered k = true := covered_all k

/-! ## the burst -/

/-- After a successful login the server has been told exactly what the settings say: for EVERY frame value the
    number of times the login burst contains it equals the table `mustTell`. -/
theorem C16_burst_exact (c : Config) (e : Env) (h : c.WF) (f : Frame) :
    (burst c e).count f = mustTell c e f := burst_count c e h f

/-- favourites are joined iff automatic rejoin is enabled (reading of SETTINGS.rst `rooms.auto_join`) -/
theorem C16_burst_favourites (c : Config) (e : Env) (h : c.WF) (r : String) :
    (Frame.joinRoom r ∈ burst c e) ↔ (c.autoJoin = true ∧ r ∈ c.favorites) := by
  rw [← List.count_pos_iff, burst_count c e h]
  simp only [mustTell]
  split <;> simp_all

/-- a successful login emits exactly the burst -/
theorem C16_login_emits_burst (c : Config) (st : State) (hc : st.conn = .connected) (hs : st.session = false)
    (hr : st.reader = false) (hp : st.stopped = false) (ha : st.srvReply = .accepted) :
    (step c st .login).2 = [.loginSent, .sessionInit, .frames (burst c (envOf c st)), .loginResult .ok] ∧
    (step c st .login).1.session = true := by
  simp [step, doLogin, hc, hs, hr, hp, ha]

/-! ## commands are refused without a session -/

theorem C16_refuse_without_session (c : Config) (st : State) (h : st.session = false) :
    step c st .exec = (st, [.refused]) := by
  simp [step, h]

/-- in every reachable state a command is sent only over a connected server connection -/
theorem C16_exec_sent_only_connected (c : Config) (ops : List Op) :
    let st := (run c init ops).1
    (step c st .exec).2 = [.sent] → st.conn = .connected ∧ st.session = true := by
  intro st h
  have hi : Inv st := inv_run c ops init inv_init
  cases hs : st.session with
  | false => simp [step, hs] at h
  | true =>
    refine ⟨?_, rfl⟩
    by_cases hc : st.conn = .connected
    · exact hc
    · have := (hi.1 hc).2.2; simp [hs] at this

/-! ## a session is destroyed exactly once -/

/-- For every history: #SessionDestroyed + (1 if a session is present) = #SessionInitialized. -/
theorem C16_destroy_once (c : Config) (ops : List Op) :
    nDestr (run c init ops).2 + b2n (run c init ops).1.session = nInit (run c init ops).2 := by
  have := count_run c ops init inv_init
  simpa [init, b2n] using this

/-- a session exists only on a connected server connection: a lost connection never keeps its session -/
theorem C16_session_needs_connection (c : Config) (ops : List Op) :
    (run c init ops).1.session = true → (run c init ops).1.conn = .connected := by
  intro h
  have hi : Inv (run c init ops).1 := inv_run c ops init inv_init
  by_cases hc : (run c init ops).1.conn = .connected
  · exact hc
  · have := (hi.1 hc).2.2; simp [h] at this

/-! ## loss resets the server-derived state -/

/-- FULL STATEMENT (violated, see the counterexample): for every state and every operation, if the operation
    reports the server connection CLOSED then afterwards no tracked user, user, room, distributed parameter or
    session is stored.  Proved for every operation except an accepted login whose burst is cut by a write failure
    (`loginCut` with `j < |burst|`, KNOWN FINDING). -/
theorem C16_reset_partial (c : Config) (st : State) (op : Op) (hop : ∀ j d res ul, op ≠ .loginCut j d res ul)
    (h : obsClosed (step c st op).2 = true) : cleared (step c st op).1 :=
  reset_step c st op hop h

/-- Known finding: the burst write #2 fails; the user listener still runs and tracks the own name and the friends
    on the destroyed session (witness replayed on the real code on every run). -/
theorem C16_reset_counterexample :
    let c : Config := { friends := ["f1", "f2"], clearPort := 60000 }
    let st : State := { conn := .connected, started := true, ping := true }
    let r := step c st (.loginCut 1 1 (typicalResidual c 1) true)
    obsClosed r.2 = true ∧ r.1.tracked = ["me", "f1", "f2"] ∧ ¬ cleared r.1 := by
  decide

/-! ## reconnect iff auto ∧ reason ∉ {REQUESTED, EOF} ∧ credentials ∧ not stopped
(the pieces first, the single law `C16_reconnect_iff` at the end of the section) -/

/-- the decision is taken when the connection closes: a requested disconnect or a server-side EOF stops the
    watchdog, every other reason leaves it as it was -/
theorem C16_reconnect_decision (c : Config) (st : State) (r : Reason) (hc : st.conn = .connected)
    (hv : r ≠ .connectFailed) (hr : (r = .eof ∨ r = .readError) → st.reader = true) :
    (step c st (.loss r)).1.wd = (if r = .requested ∨ r = .eof then .off else st.wd) ∧
    (step c st (.loss r)).1.conn = .closed := by
  simp only [step]
  rw [if_pos ⟨hc, hv, hr⟩]
  simp [closeServer, hc]

/-- the watchdog runs on a connected, not stopped client iff `reconnect.auto` (it is started at CONNECTED) -/
theorem C16_watchdog_started_iff_auto (c : Config) (st : State) (hu : st.conn = .uninit) (hs : st.started = false)
    (hup : st.srvUp = true) (n : Nat) (hl : listenResult c = some n) :
    (step c st .start).1.conn = .connected ∧
    ((step c st .start).1.wd = .idle ↔ c.reconnectAuto = true) ∧
    ((step c st .start).1.wd = .off ↔ c.reconnectAuto = false) := by
  cases ha : c.reconnectAuto <;> simp [step, doStart, hu, hs, hup, hl, ha]

/-- with the watchdog stopped (requested disconnect, EOF, stop(), or reconnect.auto off) NOTHING happens any more,
    whatever time passes and whatever the server does -/
theorem C16_no_reconnect (c : Config) (st : State) (post : List Op) (he : ∀ op ∈ post, op.isEnv = true)
    (h : st.wd = .off) : (run c st post).2 = [] := off_run c post st he h

/-- without configured credentials the watchdog never reconnects -/
theorem C16_no_reconnect_without_credentials (c : Config) (st : State) (hc : c.credsOk = false)
    (h : st.wd = .idle) : (step c st .tick).2 = [] ∧ (step c st .tick).1.wd = .idle :=
  ⟨(nocreds_step c st hc h).2, (nocreds_step c st hc h).1⟩

/-- with the watchdog alive, a closed connection and credentials, a connect attempt is made once the reconnect
    delay has elapsed … -/
theorem C16_reconnect_after_delay (c : Config) (st : State) (hw : st.wd = .idle) (hc : st.conn = .closed)
    (hk : c.credsOk = true) :
    Obs.attempt ∈ (run c st (List.replicate (reconnectTicks + 1) .tick)).2 := idle_reconnects c st hw hc hk

/-- … and a successful reconnect logs in again and sends the whole burst again -/
theorem C16_reconnect_logs_in (c : Config) (st : State) (hup : st.srvUp = true) (ha : c.reconnectAuto = true)
    (hr : st.srvReply = .accepted) :
    (reconnect c st).2 = [.attempt, .connected, .loginSent, .sessionInit,
      .frames (burst c (envOf c st)), .loginResult .ok] ∧ (reconnect c st).1.session = true := by
  simp [reconnect, doLogin, hup, ha, hr, envOf]

/-- THE reconnect law, over every history: from any reachable state with a connected server connection, when
    the connection is lost with reason `r` and the reconnect delay (+ one poll) passes, a new connection is
    attempted iff `reconnect.auto` ∧ `r ∉ {REQUESTED, EOF}` ∧ credentials are configured, and a new Login is sent
    iff moreover the server accepts the connection.  (`stop()` closes with REQUESTED and is covered in full
    strength by `C16_stop_final`; a connected state is never a stopped one.) -/
theorem C16_reconnect_iff (c : Config) (ops : List Op) (r : Reason) :
    let st := (run c init ops).1
    st.conn = .connected → r ≠ .connectFailed → ((r = .eof ∨ r = .readError) → st.reader = true) →
    let obs := (run c st (.loss r :: List.replicate (reconnectTicks + 1) .tick)).2
    (Obs.attempt ∈ obs ↔ (c.reconnectAuto = true ∧ r ≠ .requested ∧ r ≠ .eof ∧ c.credsOk = true)) ∧
    (Obs.loginSent ∈ obs ↔
      (c.reconnectAuto = true ∧ r ≠ .requested ∧ r ≠ .eof ∧ c.credsOk = true ∧ st.srvUp = true)) := by
  intro st hc hv hr obs
  have hi : Inv st := inv_run c ops init inv_init
  have hw : WInv c st := winv_run c ops init (winv_init c) inv_init
  obtain ⟨k1, k2, k3, k4, k5⟩ := closeServer_connected r st hc
  have hobs : obs = (closeServer r st).2 ++
      (run c (closeServer r st).1 (List.replicate (reconnectTicks + 1) .tick)).2 :=
    loss_ticks_obs c st r _ hc hv hr
  by_cases cond : c.reconnectAuto = true ∧ r ≠ .requested ∧ r ≠ .eof ∧ c.credsOk = true
  · obtain ⟨ha, hq, he, hk⟩ := cond
    have hidle : (closeServer r st).1.wd = .idle := by
      rw [k2]; simp [hq, he, hw.2 hc ha]
    obtain ⟨s2, hs2, hs3⟩ := idle_reconnect_obs c (closeServer r st).1 hidle k1 hk
    have hro := reconnect_obs_attempt c s2
    rw [hobs, hs2]
    refine ⟨?_, ?_⟩
    · simp [ha, hq, he, hk, hro.1]
    · simp only [List.mem_append, k5, false_or, hro.2, hs3, k3]
      simp [ha, hq, he, hk]
  · have hquiet : (run c (closeServer r st).1 (List.replicate (reconnectTicks + 1) .tick)).2 = [] := by
      by_cases ha : c.reconnectAuto = true
      · by_cases hre : r = .requested ∨ r = .eof
        · apply off_run
          · intro op hop; simp [List.mem_replicate] at hop; subst hop; rfl
          · rw [k2]; simp [hre]
        · have hk : c.credsOk = false := by
            cases hcr : c.credsOk with
            | false => rfl
            | true => exact absurd ⟨ha, fun e => hre (Or.inl e), fun e => hre (Or.inr e), hcr⟩ cond
          apply nocreds_run c hk
          rw [k2]; simp [hre, hw.2 hc ha]
      · have hoff : st.wd = .off := by
          cases hwd : st.wd with
          | off => rfl
          | idle => exact absurd (hw.1 (by simp [hwd])) ha
          | sleeping n => exact absurd (hw.1 (by simp [hwd])) ha
        apply off_run
        · intro op hop; simp [List.mem_replicate] at hop; subst hop; rfl
        · rw [k2, hoff]; simp
    rw [hobs, hquiet]
    simp only [List.append_nil]
    refine ⟨⟨fun h => absurd h k4, fun h => absurd h cond⟩,
            ⟨fun h => absurd h k5, fun h => absurd ⟨h.1, h.2.1, h.2.2.1, h.2.2.2.1⟩ cond⟩⟩

/-! ## stop is final -/

/-- After `stop()` returns (in any reachable state of a started client): no library task is pending, no socket is
    open, and for EVERY later sequence of operations (time passing, server coming back, even user calls) no
    connection is attempted or opened, nothing is sent, no session appears, and it stays that way.
    (Calling `start()` again after `stop()` is outside the model: it is reported as not applicable.) -/
theorem C16_stop_final (c : Config) (pre post : List Op) :
    let st0 := (run c init pre).1
    st0.started = true → st0.stopped = false →
    let st1 := (step c st0 .stop).1
    alive c st1 = [] ∧ openSockets st1 = 0 ∧
    (∀ o ∈ (run c st1 post).2, o = .invalid ∨ o = .refused) ∧
    alive c (run c st1 post).1 = [] ∧ openSockets (run c st1 post).1 = 0 := by
  intro st0 hs hp st1
  have hi : Inv st0 := inv_run c pre init inv_init
  have hq : Quiet st1 := by
    show Quiet (step c st0 .stop).1
    simp only [step, hs, hp, and_self, if_true]
    exact quiet_doStop c st0 hi hs
  have hr := quiet_run c post st1 hq
  exact ⟨(quiet_alive c st1 hq).1, (quiet_alive c st1 hq).2, hr.2, (quiet_alive c _ hr.1).1, (quiet_alive c _ hr.1).2⟩

/-! ## the hypotheses are satisfiable by non-trivial reachable states -/

private def exCfg : Config :=
  { friends := ["f1", "f2"], liked := ["rock"], hated := ["pop"], favorites := ["room1"], reconnectAuto := true,
    requestTimeout := true, wishlist := 1, clearPort := 60000, obfPort := 60001, race := true, files := 2 }

/-- a session with pending work (search timer, wishlist, potential parent in race mode), lost by a read error, reconnected after
    21 ticks and logged in again: two sessions initialised, one destroyed, one present -/
example :
    let r := run exCfg init ([.start, .login, .populate, .search, .wishlistInterval, .potentialParents,
      .loss .readError] ++ List.replicate 21 .tick)
    r.1.session = true ∧ nInit r.2 = 2 ∧ nDestr r.2 = 1 ∧ r.1.conn = .connected := by decide

/-- stop() in the middle of the reconnect delay: the premises of `C16_stop_final` hold and work was pending -/
example :
    let st0 := (run exCfg init [.start, .login, .search, .potentialParents, .searchRequest, .loss .writeError,
      .tick, .tick]).1
    -- watchdog, 3 managers' tasks, search timer, potential parent + search reply, each with 2 race children
    st0.started = true ∧ st0.stopped = false ∧ st0.wd = .sleeping 19 ∧ (alive exCfg st0).length = 11 := by decide

example : exCfg.WF := by decide

example : (burst exCfg (envOf exCfg init)).length = 14 := by decide

end AioslskVerif.Session
