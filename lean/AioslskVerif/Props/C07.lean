import AioslskVerif.Proofs.Query
import AioslskVerif.Proofs.Shares
/-!
# C07 — a search over the shares returns exactly the files that match the query

Property theorems only (models: `Model/Query.lean`, `Model/Shares.lean`; helpers: `Proofs/Query.lean`,
`Proofs/Shares.lean`). The models are those of the code after `fixes/C07-wildcard-union.patch`,
`fixes/C07-term-map-follows-index.patch` and `fixes/C07-moved-items-rebased.patch`.

Characters are abstract (`Cls`); the only assumptions on them are `Cls.Lawful` (lower-casing is
idempotent and keeps the class of a character; `*` and `-` are not word characters), which the
harness checks for every character it uses.
-/
namespace AioslskVerif.C07
open AioslskVerif.Query AioslskVerif.Shares

section query
variable {Ch : Type} [DecidableEq Ch] (K : Cls Ch) {I : Type} [DecidableEq I] (qp : I → List Ch)

/-- The regular expressions built by `create_term_pattern` / `matchers_iter` (as a backtracking
matcher with look-behind and look-ahead) decide exactly the property's predicate: every include
term occurs as whole words, every wildcard term occurs after a run of word characters that starts
a word, no exclude term occurs as whole words — all case-insensitively. -/
theorem C07_regex_is_spec (q : Query Ch) (p : List Ch) :
    matchesRegex K q p = true ↔ MatchesSpec K q p :=
  matchesRegex_iff K q p

/-- What `SearchQuery.parse` produces: every include / wildcard term has a word character and is
lower-cased (the precondition of the prefilter theorem). -/
theorem C07_parse_wf (hK : K.Lawful) (s : List Ch) : (parse K s).WF K :=
  parse_wf K hK s

/-- **The term-map prefilter loses nothing**: an indexed item whose path matches the query (by the
regular expressions) is among the candidates of the first round — for every term map, every query
(terms with inner punctuation, several wildcard terms, suffixes shared by many words included). -/
theorem C07_prefilter_complete (hK : K.Lawful) (tm : List I) (q : Query Ch) (hq : q.WF K)
    (hi : q.hasInclusion = true) (it : I) (hit : it ∈ tm) (hm : matchesRegex K q (qp it) = true) :
    it ∈ prefilter K qp tm q :=
  mem_prefilter K qp hK tm q hq hi it hit ((matchesRegex_iff K q _).1 hm)

/-- **A query returns exactly the matching items, capped**: there is a duplicate-free enumeration
`L` of precisely the items of the term map whose path satisfies the property's predicate (and the
extra per-item filter, `fun _ => true` for C07); the result is its first `cap` elements — so it is
a subset of the matching items of size `min cap |matching|`. -/
theorem C07_query_exact (hK : K.Lawful) (tm : List I) (htm : tm.Nodup) (q : Query Ch) (hq : q.WF K)
    (hi : q.hasInclusion = true) (cap : Nat) (hcap : 0 < cap) (extra : I → Bool) :
    ∃ L : List I, L.Nodup ∧
      (∀ it, it ∈ L ↔ it ∈ tm ∧ MatchesSpec K q (qp it) ∧ extra it = true) ∧
      query K qp cap extra tm q = L.take cap ∧
      (query K qp cap extra tm q).length = min cap L.length ∧
      (∀ it ∈ query K qp cap extra tm q, it ∈ L) := by
  refine ⟨(prefilter K qp tm q).filter (fun it => matchesRegex K q (qp it) && extra it), ?_, ?_, ?_⟩
  · exact (List.filter_sublist).nodup ((prefilter_sublist K qp tm q).nodup htm)
  · intro it
    simp only [List.mem_filter, Bool.and_eq_true, matchesRegex_iff]
    constructor
    · rintro ⟨h1, h2, h3⟩
      exact ⟨(prefilter_sublist K qp tm q).subset h1, h2, h3⟩
    · rintro ⟨h1, h2, h3⟩
      exact ⟨mem_prefilter K qp hK tm q hq hi it h1 h2, h2, h3⟩
  · have heq : query K qp cap extra tm q =
        ((prefilter K qp tm q).filter (fun it => matchesRegex K q (qp it) && extra it)).take cap := by
      simp only [query, hi, Bool.not_true, Bool.false_eq_true, if_false]
      rw [keepLoop_eq _ _ cap _ [] (by simpa using hcap)]
      simp
    refine ⟨heq, ?_, ?_⟩
    · rw [heq, List.length_take]
    · intro it h
      rw [heq] at h
      exact List.mem_of_mem_take h

/-- A query without include and wildcard terms is answered with nothing (manager.py:678-680). -/
theorem C07_query_no_inclusion (tm : List I) (q : Query Ch) (hi : q.hasInclusion = false) (cap : Nat)
    (extra : I → Bool) : query K qp cap extra tm q = [] := by
  simp [query, hi]

end query

section index
variable {C : Type} [DecidableEq C]

/-- **The index is a partition by innermost shared directory**, after any history of
add / remove / update / scan / scan-all operations (any paths, any disk contents at each scan):
shared directories are distinct, no item is held twice, every item belongs to a shared directory
that is the innermost one containing its folder, and no absolute file path is indexed twice. -/
theorem C07_index_partition (ops : List (Op C)) :
    (run ops).paths.Nodup ∧ (run ops).items.Nodup ∧
    (∀ it ∈ (run ops).items, it.sd ∈ (run ops).paths ∧
        ∀ p ∈ (run ops).paths, p <+: it.dir → p <+: it.sd) ∧
    (∀ a ∈ (run ops).items, ∀ b ∈ (run ops).items, a.abs = b.abs → a = b) := by
  have h := inv_run ops
  exact ⟨h.paths_nodup, h.items_nodup, fun it hit => ⟨h.owner it hit, h.innermost it hit⟩,
    fun a ha b hb hab => abs_inj (run ops) h a b ha hb hab⟩

/-- After any history the term map holds exactly the items of the index, once each (so a removed
directory, a vanished file or a moved item no longer answers queries). -/
theorem C07_termmap_is_index (ops : List (Op C)) :
    (run ops).tm.Nodup ∧ ∀ it, it ∈ (run ops).tm ↔ it ∈ (run ops).items :=
  ⟨(inv_run ops).tm_nodup, (inv_run ops).tm_sync⟩

/-- A scan reconciles the directory with the disk: afterwards its items are exactly the files found
under it that are not inside a nested shared directory. -/
theorem C07_scan_reconciles (ops : List (Op C)) (p : List C) (disk : List (File C)) (hp : p ∈ (run ops).paths)
    (it : Item C) :
    it ∈ dirItems (scan (run ops) p disk).1 p ↔
      ∃ f ∈ disk, p <+: f.dir ∧ (∀ c ∈ (run ops).paths, c ≠ p → p <+: c → ¬ c <+: f.dir) ∧
        it = { sd := p, sub := f.dir.drop p.length, name := f.name } := by
  have hsc := mem_scanned (run ops).paths p disk it
  simp only [scan, hp, not_true_eq_false, if_false, dirItems, List.mem_filter, decide_eq_true_eq,
    mem_scanDir_items]
  constructor
  · rintro ⟨h1 | h1, h2⟩
    · exact absurd h2 h1.2
    · obtain ⟨f, hf, h3, h4, h5⟩ := hsc.1 h1
      refine ⟨f, hf, h3, ?_, h5⟩
      intro c hc hne hpc
      apply h4
      simp only [children, List.mem_filter, Bool.and_eq_true, decide_eq_true_eq, List.isPrefixOf_iff_prefix]
      exact ⟨hc, hne, hpc⟩
  · rintro ⟨f, hf, h3, h4, h5⟩
    refine ⟨Or.inr (hsc.2 ⟨f, hf, h3, ?_, h5⟩), by rw [h5]⟩
    intro c hc
    simp only [children, List.mem_filter, Bool.and_eq_true, decide_eq_true_eq, List.isPrefixOf_iff_prefix] at hc
    exact h4 c hc.1 hc.2.1 hc.2.2

/-- `get_stats()` reports the index: the number of distinct absolute folders holding an indexed
file, and the number of indexed files. -/
theorem C07_stats (ops : List (Op C)) :
    stats (run ops) = ((Shares.dedup ((run ops).items.map Item.dir)).length, (run ops).items.length) :=
  stats_eq (run ops) (inv_run ops)

end index

/-- **End to end**: after any history, a query string with at least one include / wildcard term is
answered with the first `cap` elements of a duplicate-free enumeration of exactly the indexed items
whose query path (components joined by `sep`) satisfies the property's predicate. -/
theorem C07_query_over_index {Ch : Type} [DecidableEq Ch] (K : Cls Ch) (hK : K.Lawful) (sep : Ch)
    (ops : List (Op (List Ch))) (s : List Ch) (hi : (parse K s).hasInclusion = true) (cap : Nat) (hcap : 0 < cap) :
    ∃ L : List (Item (List Ch)), L.Nodup ∧
      (∀ it, it ∈ L ↔ it ∈ (run ops).items ∧ MatchesSpec K (parse K s) (qpath sep it)) ∧
      query K (qpath sep) cap (fun _ => true) (run ops).tm (parse K s) = L.take cap ∧
      (query K (qpath sep) cap (fun _ => true) (run ops).tm (parse K s)).length = min cap L.length := by
  obtain ⟨L, h1, h2, h3, h4, _⟩ := C07_query_exact K (qpath sep) hK (run ops).tm (inv_run ops).tm_nodup
    (parse K s) (parse_wf K hK s) hi cap hcap (fun _ => true)
  refine ⟨L, h1, ?_, h3, h4⟩
  intro it
  rw [h2, (inv_run ops).tm_sync]
  simp

/-! ## Non-vacuity: a lawful alphabet, a reachable nested index, queries with answers -/

namespace Ex
/-- 0 `a`, 1 `A`, 2 `b`, 3 `B`, 4 `.`, 5 space, 6 `*`, 7 `-` -/
def K : Cls (Fin 8) where
  isWord c := c.val < 4
  fold c := if c = 1 then 0 else if c = 3 then 2 else c
  isSpace c := c = 5
  star := 6
  dash := 7

example : K.Lawful := ⟨by decide, by decide, by decide, by decide⟩

/-- folders `m` = [[0]] and `m/b` = [[0],[2]]; files `m/aB.b`, `m/bB.b`, `m/b/A.a` -/
def disk : List (File (List (Fin 8))) :=
  [⟨[[0]], [0, 3, 4, 2]⟩, ⟨[[0]], [2, 3, 4, 2]⟩, ⟨[[0], [2]], [1, 4, 0]⟩]

def ops : List (Op (List (Fin 8))) :=
  [.add [[0]], .scan [[0]] disk, .add [[0], [2]], .remove [[0], [2]], .add [[0], [2]], .scanAll disk]

/-- the history reaches a nested index: two files under `m`, one under `m/b` (re-based) -/
example : (run ops).items =
    [⟨[[0]], [], [0, 3, 4, 2]⟩, ⟨[[0]], [], [2, 3, 4, 2]⟩, ⟨[[0], [2]], [], [1, 4, 0]⟩] := by decide
example : stats (run ops) = (2, 3) := by decide
/-- `*b` (suffix shared by the words `ab` and `bb`) finds both files; with cap 1 one of them -/
example : (parse K [6, 2]).hasInclusion = true := by decide
example : (query K (qpath 4) 5 (fun _ => true) (run ops).tm (parse K [6, 2])).length = 2 := by decide
example : (query K (qpath 4) 1 (fun _ => true) (run ops).tm (parse K [6, 2])).length = 1 := by decide
/-- `A.a -b`: include term with punctuation matches `m/b/A.a` case-insensitively -/
example : query K (qpath 4) 5 (fun _ => true) (run ops).tm (parse K [1, 4, 0, 5, 7, 2]) =
    [⟨[[0], [2]], [], [1, 4, 0]⟩] := by decide
end Ex

end AioslskVerif.C07
