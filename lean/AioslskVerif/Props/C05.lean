import AioslskVerif.Proofs.Sched
/-!
# C05 — active uploads never exceed the slot limit or one per user; priority holds

Property theorems only (model: `Model/Sched.lean`, helpers: `Proofs/Sched.lean`).
`run ops` / `runFrom s ops` is the scheduler state after any list of operations — peers queueing
files, management cycles, initialisations getting through / failing / falling back, completions,
aborts, re-queues, limit changes, friend-list changes, and the server's reports about users (status
updates, answers to the tracking request, the privileged list) — i.e. any arrival order and any
timing of the cycles relative to the other events.  A management cycle is `s.cycle = s.track.start`:
`manage_user_tracking`, then `manage_transfers`; `s.select` is what `manage_transfers` starts in
state `s` (`uploads[:free_upload_slots]` of the prioritised `_get_queued_transfers()`), so the
decision of a cycle taken in state `s` is `s.track.select`.  `s.users u` is what the scheduler reads
about `u` at that instant (the `User` object the user manager holds, else a fresh one); the section
"what the scheduler knows" proves that for every user with an unfinished transfer this is what the
server last reported.
-/
namespace AioslskVerif.C05
open AioslskVerif.Sched List

/-! ## the ranking realises privileged > friend > online/away > unknown -/

/-- Generated obligation: the weights read from `_prioritize_uploads` make the additive rank
lexicographic. -/
theorem C05_weights_lexicographic :
    W.privileged > W.friend + W.online ∧ W.friend > W.online ∧ W.online > 0 := by decide

/-- Generated obligation: exactly ONLINE and AWAY earn the status weight (OFFLINE is excluded
earlier, UNKNOWN ranks lowest). -/
theorem C05_online_earners (st : UStatus) : earnsOnline st = true ↔ (st = .online ∨ st = .away) := by
  cases st <;> decide

/-- the class order the property states, lexicographic on (privileged, friend, online/away) -/
def classLt (i j : UserInfo) : Prop :=
  (i.privileged = false ∧ j.privileged = true) ∨
  (i.privileged = j.privileged ∧
    ((i.friend = false ∧ j.friend = true) ∨
     (i.friend = j.friend ∧ earnsOnline i.status = false ∧ earnsOnline j.status = true)))

/-- For any weights with `privileged > friend + online`, `friend > online > 0` the numeric rank
orders users exactly as the class order does. -/
theorem C05_rank_lexicographic (w : Weights) (hw : w.privileged > w.friend + w.online ∧ w.friend > w.online ∧ w.online > 0)
    (i j : UserInfo) : rankW w i < rankW w j ↔ classLt i j := by
  obtain ⟨h1, h2, h3⟩ := hw
  unfold rankW classLt
  cases i.privileged <;> cases j.privileged <;> cases i.friend <;> cases j.friend <;>
    cases earnsOnline i.status <;> cases earnsOnline j.status <;> simp <;> omega

theorem C05_rank_is_class_order (i j : UserInfo) : rank i < rank j ↔ classLt i j :=
  C05_rank_lexicographic W C05_weights_lexicographic i j

/-! ## one cycle -/

/-- A cycle starts at most as many uploads as there are free slots. -/
theorem C05_select_le_free (s : Sched) : s.select.length ≤ s.slots - s.procUploads :=
  select_length_le s

/-- The uploads a cycle starts belong to pairwise different users. -/
theorem C05_select_distinct_users (s : Sched) : (s.select.map (·.user)).Nodup :=
  select_nodup_users s

/-- A started upload was a QUEUED upload of the transfer list, its user is not offline and has no
upload that is initialising or uploading. -/
theorem C05_select_no_busy_no_offline (s : Sched) (t : Xfer) (h : t ∈ s.select) :
    t ∈ s.xs ∧ t.dir = .upload ∧ t.st = .queued ∧ (s.users t.user).status ≠ .offline ∧
      ∀ x ∈ s.xs, x.procUpload = true → x.user ≠ t.user :=
  select_spec h

/-- Whatever is started ranks at least as high as every eligible upload that is left waiting. -/
theorem C05_priority (s : Sched) (t t' : Xfer) (ht : t ∈ s.select) (ht' : t' ∈ s.eligible) (hn : t' ∉ s.select) :
    s.rankOf t' ≤ s.rankOf t := by
  have hs := prioritize_sorted s s.candidates
  have hsplit : s.eligible = s.select ++ s.eligible.drop s.freeSlots := (take_append_drop _ _).symm
  have hd : t' ∈ s.eligible.drop s.freeSlots := by
    rw [hsplit] at ht'
    rcases mem_append.mp ht' with h | h
    · exact absurd h hn
    · exact h
  change (s.eligible).Pairwise _ at hs
  rw [hsplit, pairwise_append] at hs
  exact hs.2.2 t ht t' hd

/-- Every user that could be served is represented in the eligible list: a QUEUED upload of a user
who is not offline and has no active upload has an eligible upload of the same user. -/
theorem C05_eligible_complete (s : Sched) (x : Xfer) (hx : x ∈ s.xs) (hu : x.dir = .upload) (hq : x.st = .queued)
    (hoff : (s.users x.user).status ≠ .offline) (hb : ∀ y ∈ s.xs, y.procUpload = true → y.user ≠ x.user) :
    ∃ y ∈ s.eligible, y.user = x.user := by
  have hbusy : x.user ∉ s.busyUsers := by
    intro hc
    obtain ⟨z, hz, hzu⟩ := mem_map.mp hc
    have ⟨hzx, hzp⟩ := mem_filter.mp hz
    exact hb z hzx hzp hzu
  obtain ⟨y, hy, hyu⟩ := eligLoop_complete s.xs [] x hx hu hq hoff hbusy (by simp)
  exact ⟨y, (eligible_perm s).mem_iff.mpr hy, hyu⟩

/-- User-level priority: if a cycle starts an upload of user `u` and leaves an eligible user `v`
(queued upload, not offline, nothing active, none of `v`'s uploads started) waiting, then `v` is not
of a higher class than `u`. -/
theorem C05_priority_users (s : Sched) (t x : Xfer) (ht : t ∈ s.select) (hx : x ∈ s.xs) (hu : x.dir = .upload)
    (hq : x.st = .queued) (hoff : (s.users x.user).status ≠ .offline)
    (hb : ∀ y ∈ s.xs, y.procUpload = true → y.user ≠ x.user) (hw : ∀ y ∈ s.select, y.user ≠ x.user) :
    ¬ classLt (s.users t.user) (s.users x.user) := by
  obtain ⟨y, hy, hyu⟩ := C05_eligible_complete s x hx hu hq hoff hb
  have hn : y ∉ s.select := fun hc => hw y hc hyu
  have := C05_priority s t y ht hy hn
  rw [← C05_rank_is_class_order]
  unfold Sched.rankOf at this
  rw [hyu] at this
  omega

/-! ## all schedules -/

/-- In every reachable state no user has two uploads that are initialising / uploading. -/
theorem C05_one_per_user (n : Nat) (ops : List Op) (a b : Xfer)
    (ha : a ∈ (runFrom { slots := n } ops).xs) (hb : b ∈ (runFrom { slots := n } ops).xs) (hne : a ≠ b)
    (pa : a.procUpload = true) (pb : b.procUpload = true) : a.user ≠ b.user := by
  have hi : Inv (runFrom { slots := n } ops) := inv_runFrom (s := { slots := n }) ⟨by simp, by simp, by simp⟩ ops
  exact forall_of_pairwise (R := fun a b => a.procUpload = true → b.procUpload = true → a.user ≠ b.user)
    (fun a b h pb pa e => h pa pb e.symm) hi.one a ha b hb hne pa pb

/-- Slot invariant, per-step form: from any reachable state, a step either does not increase the
number of initialising / uploading uploads, or leaves it at most the slot setting **at that step**.
(So with a lowered limit running uploads finish, and nothing new starts until the count fits.) -/
theorem C05_slot_invariant (s : Sched) (hi : Inv s) (op : Op) :
    (step s op).procUploads ≤ s.procUploads ∨ (step s op).procUploads ≤ (step s op).slots := by
  cases op with
  | addUpload u => left; simp only [step, Sched.procUploads]; rw [procUploads_append_idle _ _ (by simp [Xfer.procUpload, Xfer.processing])]; exact Nat.le_refl _
  | addDownload u => left; simp only [step, Sched.procUploads]; rw [procUploads_append_idle _ _ (by simp [Xfer.procUpload, Xfer.processing])]; exact Nat.le_refl _
  | setSlots n => left; exact Nat.le_refl _
  | friend u b => left; exact Nat.le_refl _
  | report u st p => left; exact Nat.le_refl _
  | reply u st => left; cases st <;> exact Nat.le_refl _
  | privList l => left; exact Nat.le_refl _
  | cycle =>
    simp only [step]
    split
    · have hi' : Inv s.track := hi
      have h1 := procUploads_start hi'
      have h2 := select_length_le s.track
      have h3 : s.cycle.slots = s.slots := rfl
      have h4 : s.track.procUploads = s.procUploads := rfl
      have h5 : s.track.slots = s.slots := rfl
      have h6 : s.cycle = s.track.start := rfl
      unfold Sched.freeSlots at h2
      rw [h6] at h3 ⊢
      omega
    · left; exact Nat.le_refl _
  | started k | finish k | failX k | backToQueue k | requeue k | apiQueue k | abort k =>
    left
    simp only [step, Op.xfer?]
    split
    · rename_i x hg
      split
      · rename_i st ht
        exact procUploads_setSt_le hi hg ht
      · exact Nat.le_refl _
    · exact Nat.le_refl _

/-- Corollary for a constant limit: if the slot setting is never changed, the number of
initialising / uploading uploads never exceeds it, whatever the schedule. -/
theorem C05_slot_invariant_const (n : Nat) (ops : List Op) (hc : ∀ op ∈ ops, ∀ m, op ≠ .setSlots m) :
    (runFrom { slots := n } ops).procUploads ≤ n ∧ (runFrom { slots := n } ops).slots = n := by
  suffices H : ∀ (s : Sched), Inv s → s.procUploads ≤ s.slots →
      (runFrom s ops).procUploads ≤ s.slots ∧ (runFrom s ops).slots = s.slots by
    exact H { slots := n } ⟨by simp, by simp, by simp⟩ (by simp [Sched.procUploads])
  induction ops with
  | nil => intro s _ h; exact ⟨h, rfl⟩
  | cons op ops ih =>
    intro s hi h
    have hs : (step s op).slots = s.slots := by
      cases op with
      | setSlots m => exact absurd rfl (hc _ mem_cons_self m)
      | addUpload u => rfl
      | addDownload u => rfl
      | friend u b => rfl
      | report u st p => rfl
      | reply u st => cases st <;> rfl
      | privList l => rfl
      | cycle => simp only [step]; split <;> rfl
      | started k | finish k | failX k | backToQueue k | requeue k | apiQueue k | abort k =>
        simp only [step, Op.xfer?]
        (repeat' split) <;> rfl
    have hstep := C05_slot_invariant s hi op
    have h' : (step s op).procUploads ≤ (step s op).slots := by omega
    have := ih (fun o ho => hc o (mem_cons_of_mem _ ho)) (step s op) (inv_step hi op) h'
    rw [hs] at this
    exact this

/-- Work conservation of `manage_transfers`: right after it either no slot is free or no eligible queued
upload remains. -/
theorem C05_work_conserving_start (s : Sched) (hi : Inv s) : s.start.freeSlots = 0 ∨ s.start.eligible = [] := by
  by_cases hl : s.eligible.length ≤ s.freeSlots
  · right
    have hsel : s.select = s.eligible := take_of_length_le hl
    have hcand : s.start.candidates = [] := by
      apply eq_nil_iff_forall_not_mem.mpr
      intro y hy
      have hy' := mem_eligLoop hy
      have hyx : y ∈ s.xs.map (cycleMap s.select) := hy'.1
      obtain ⟨x, hx, rfl⟩ := mem_map.mp hyx
      have hxs : x ∉ s.select := by
        intro hc
        have := hy'.2.2.1
        simp [cycleMap, hc] at this
      have hxe : cycleMap s.select x = x := by simp [cycleMap, hxs]
      rw [hxe] at hy'
      -- an active upload of `s` stays active
      have keep : ∀ z ∈ s.xs, z.procUpload = true → z.user ∈ s.start.busyUsers := by
        intro z hz hp
        have hp' : (cycleMap s.select z).procUpload = true := by rw [cycleMap_proc hz]; simp [hp]
        have hu : (cycleMap s.select z).user = z.user := by unfold cycleMap; split <;> rfl
        exact hu ▸ mem_busyUsers (s := s.start) (mem_map_of_mem hz) hp'
      have hb : x.user ∉ s.busyUsers := by
        intro hc
        obtain ⟨z, hz, hzu⟩ := mem_map.mp hc
        have ⟨hzx, hzp⟩ := mem_filter.mp hz
        exact hy'.2.2.2.2.1 (hzu ▸ keep z hzx hzp)
      obtain ⟨c, hc, hcu⟩ := eligLoop_complete s.xs [] x hx hy'.2.1 hy'.2.2.1 hy'.2.2.2.1 hb (by simp)
      have hcs : c ∈ s.select := by rw [hsel]; exact (eligible_perm s).mem_iff.mpr hc
      have hcx : c ∈ s.xs := (select_spec hcs).1
      have hp' : (cycleMap s.select c).procUpload = true := by rw [cycleMap_proc hcx]; simp [hcs]
      have hu : (cycleMap s.select c).user = c.user := by unfold cycleMap; split <;> rfl
      have : c.user ∈ s.start.busyUsers := hu ▸ mem_busyUsers (s := s.start) (mem_map_of_mem hcx) hp'
      exact hy'.2.2.2.2.1 (hcu ▸ this)
    unfold Sched.eligible
    rw [hcand]
    rfl
  · left
    have hlen : s.select.length = s.freeSlots := by
      unfold Sched.select
      rw [length_take]
      omega
    have h1 := procUploads_start hi
    have h3 : s.start.slots = s.slots := rfl
    unfold Sched.freeSlots at *
    omega

/-- Work conservation: right after a management cycle (tracking + scheduling) either no slot is free or no
eligible queued upload remains (every reachable state satisfies `Inv`, see `C05_work_conserving_run`). -/
theorem C05_work_conserving (s : Sched) (hi : Inv s) : s.cycle.freeSlots = 0 ∨ s.cycle.eligible = [] :=
  C05_work_conserving_start s.track hi

theorem C05_work_conserving_run (n : Nat) (ops : List Op) :
    let s := runFrom { slots := n } ops
    s.cycle.freeSlots = 0 ∨ s.cycle.eligible = [] :=
  C05_work_conserving _ (inv_runFrom (s := { slots := n }) ⟨by simp, by simp, by simp⟩ ops)

/-- Every op that changes a transfer leaves a cycle request behind, and a cycle that started something
requests the next one: a queued upload of an eligible user is looked at again after every change, and
by `C05_work_conserving` started while slots are free.  (Reports of the server request a cycle too:
`C05_report_requests_cycle`.) -/
theorem C05_change_requests_cycle (s : Sched) (op : Op) (hne : (step s op).xs ≠ s.xs) :
    (step s op).cyclePending = true := by
  cases op with
  | addUpload u => rfl
  | addDownload u => rfl
  | setSlots n => exact absurd rfl hne
  | friend u b => exact absurd rfl hne
  | report u st p => rfl
  | reply u st => cases st <;> rfl
  | privList l => exact absurd rfl hne
  | cycle =>
    simp only [step] at hne ⊢
    split
    · rename_i hp
      simp only [hp, if_true] at hne
      by_cases he : s.track.select = []
      · exfalso
        apply hne
        rw [cycle_eq, start_xs, he, track_xs]
        have : ∀ x, cycleMap [] x = x := fun x => by simp [cycleMap]
        simp [funext this]
      · rw [cycle_eq]
        unfold Sched.start
        cases hs : s.track.select with
        | nil => exact absurd hs he
        | cons a l => simp
    · rename_i hp
      simp only [hp] at hne
      exact absurd rfl hne
  | started k | finish k | failX k | backToQueue k | requeue k | apiQueue k | abort k =>
    simp only [step, Op.xfer?] at hne ⊢
    split
    · rename_i x hg
      split
      · rfl
      · rename_i ht
        simp only [hg, ht] at hne
        exact absurd rfl hne
    · rename_i hg
      simp only [hg] at hne
      exact absurd rfl hne

/-! ## what the scheduler knows about a user is what the server last reported

The ranking and the offline filter read `s.users`, i.e. the user manager's weak dictionary (`store`).
`ref` is the specification: for a user who has had an unfinished transfer at every cycle since cycle
`c`, the last status / privilege the server reported after `c` (a fresh entry — status unknown,
privileged per the last privileged list — while nothing was reported); no knowledge is claimed for a
user whose transfers were all finalized at the last cycle. -/

/-- the specification reads as intended: a status report overwrites the entry of a user whose tracking is
due, an answer to the tracking request sets its status, a privileged list sets its privilege flag;
nothing else but a cycle touches it; a cycle keeps the entry of a user with an unfinished transfer (or
starts one) and forgets everybody else. -/
theorem C05_ref_semantics (s : Sched) (u : Nat) :
    (∀ st p, (step s (.report u st p)).ref u = (s.ref u).map (fun _ => { status := st, privileged := p })) ∧
    (∀ st, (step s (.reply u (some st))).ref u = (s.ref u).map (fun k => { k with status := st })) ∧
    (step s (.reply u none)).ref u = s.ref u ∧
    (∀ l, (step s (.privList l)).ref u = (s.ref u).map (fun k => { k with privileged := l.contains u })) ∧
    (∀ v st p, v ≠ u → (step s (.report v st p)).ref u = s.ref u) ∧
    (∀ v st, v ≠ u → (step s (.reply v st)).ref u = s.ref u) ∧
    (∀ op, (∀ v st p, op ≠ .report v st p) → (∀ v st, op ≠ .reply v st) → (∀ l, op ≠ .privList l) → op ≠ .cycle →
      (step s op).ref u = s.ref u) ∧
    (s.cycle.ref u = if s.unfinishedUser u then some ((s.ref u).getD (s.fresh u)) else none) := by
  refine ⟨fun st p => ?_, fun st => ?_, rfl, fun l => rfl, fun v st p hv => ?_, fun v st hv => ?_, fun op h1 h2 h3 h4 => ?_, ?_⟩
  · simp [step, updKnown]
  · simp [step, updKnown]
  · simp [step, updKnown, Ne.symm hv]
  · cases st <;> simp [step, updKnown, Ne.symm hv]
  · cases op with
    | report v st p => exact absurd rfl (h1 v st p)
    | reply v st => exact absurd rfl (h2 v st)
    | privList l => exact absurd rfl (h3 l)
    | cycle => exact absurd rfl h4
    | addUpload v => rfl
    | addDownload v => rfl
    | setSlots n => rfl
    | friend v b => rfl
    | started k | finish k | failX k | backToQueue k | requeue k | apiQueue k | abort k =>
      simp only [step, Op.xfer?]
      (repeat' split) <;> rfl
  · show (if s.unfinishedUser u then (match s.ref u with | some k => some k | none => some (s.fresh u)) else none) = _
    cases s.ref u <;> rfl

/-- The bookkeeping invariant: in every reachable state the weak dictionary holds, for every user, exactly
what the specification says — nothing the server reported while the user had an unfinished transfer at
every cycle is lost, and nothing else is remembered. -/
theorem C05_seen_is_last_reported (n : Nat) (ops : List Op) (u : Nat) :
    (runFrom { slots := n } ops).store u = (runFrom { slots := n } ops).ref u :=
  (trackInv_runFrom (trackInv_init n) ops).same u

/-- Tracked while an unfinished transfer exists: at the scheduling decision of every cycle the user manager
holds the object of every user who has a transfer that is not finalized, whatever the order of the
transfer list (interleaved users, finalized transfers in between). -/
theorem C05_tracked_at_decision (s : Sched) (x : Xfer) (hx : x ∈ s.xs) (hf : x.finalized = false) :
    (s.track.store x.user).isSome = true :=
  track_holds_unfinished s hx hf

/-- Between two cycles nothing is dropped or added: only a cycle changes who is held. -/
theorem C05_held_between_cycles (s : Sched) (op : Op) (hc : op ≠ .cycle) (u : Nat) :
    ((step s op).store u).isSome = (s.store u).isSome := by
  cases op with
  | cycle => exact absurd rfl hc
  | addUpload v => rfl
  | addDownload v => rfl
  | setSlots n => rfl
  | friend v b => rfl
  | report v st p => simp only [step, updKnown]; split <;> simp
  | reply v st => cases st <;> simp only [step, updKnown] <;> (try split) <;> simp
  | privList l => simp [step]
  | started k | finish k | failX k | backToQueue k | requeue k | apiQueue k | abort k =>
    simp only [step, Op.xfer?]
    (repeat' split) <;> rfl

/-- Eligibility and rank of a cycle's decision in terms of the server's reports: an upload started by a
management cycle (from any reachable state) belongs to a user whose last reported status is not OFFLINE,
and the `UserInfo` the ranking used for ANY user with an unfinished transfer is the last report. -/
theorem C05_decision_uses_last_report (n : Nat) (ops : List Op) :
    let s := (runFrom { slots := n } ops).track
    (∀ x ∈ s.xs, x.finalized = false → ∃ k, s.ref x.user = some k ∧
        s.users x.user = { status := k.status, friend := s.friends x.user, privileged := k.privileged }) ∧
    (∀ t ∈ s.select, ∃ k, s.ref t.user = some k ∧ k.status ≠ .offline) := by
  intro s
  have hinv : TrackInv s := trackInv_track (trackInv_runFrom (trackInv_init n) ops)
  have key : ∀ x ∈ s.xs, x.finalized = false → ∃ k, s.ref x.user = some k ∧
      s.users x.user = { status := k.status, friend := s.friends x.user, privileged := k.privileged } := by
    intro x hx hf
    have hs := track_holds_unfinished (runFrom { slots := n } ops) hx hf
    have hsame := hinv.same x.user
    change (s.store x.user).isSome = true at hs
    cases hk : s.store x.user with
    | none => rw [hk] at hs; cases hs
    | some k =>
      refine ⟨k, by rw [← hsame, hk], ?_⟩
      simp [Sched.users, hk]
  refine ⟨key, ?_⟩
  intro t ht
  have hsp := select_spec ht
  have hfin : t.finalized = false := by simp [Xfer.finalized, hsp.2.2.1]
  obtain ⟨k, hk, hu⟩ := key t hsp.1 hfin
  refine ⟨k, hk, ?_⟩
  have := hsp.2.2.2.1
  rw [hu] at this
  exact this

/-- A report of the server requests a management cycle (manager.py:1211-1221). -/
theorem C05_report_requests_cycle (s : Sched) (u : Nat) (st : UStatus) (p : Bool) (r : Option UStatus) :
    (step s (.report u st p)).cyclePending = true ∧ (step s (.reply u r)).cyclePending = true := by
  cases r <;> exact ⟨rfl, rfl⟩

/-! ## the hypotheses are satisfiable: reachable states with contention -/

/-- three users queue with no slot; the cycle starts tracking them, the server answers; one slot opens: the
privileged user who queued last is served, the others wait -/
example :
    let s := runFrom { slots := 0 }
      [.privList [2], .friend 1 true, .addUpload 0, .addUpload 1, .addUpload 2, .addUpload 2, .cycle,
       .reply 0 (some .online), .reply 1 (some .away), .reply 2 (some .online), .setSlots 1]
    s.track.select.map (·.id) = [2] ∧ s.track.eligible.map (·.id) = [2, 1, 0] ∧
      (step s .cycle).xs.map (·.st) = [.queued, .queued, .initializing, .queued] ∧
      (step s .cycle).freeSlots = 0 := by decide

/-- the limit is lowered below the number of running uploads: nothing starts until it fits -/
example :
    let s := runFrom { slots := 2 }
      [.addUpload 0, .addUpload 1, .addUpload 2, .cycle, .setSlots 1, .started 2, .finish 2, .cycle]
    s.procUploads = 1 ∧ s.slots = 1 ∧ s.select = [] ∧ s.eligible.map (·.id) = [0] := by decide

/-- an offline user is never served, a busy user's second upload waits -/
example :
    let s := runFrom { slots := 0 }
      [.privList [1], .addUpload 0, .addUpload 0, .addUpload 1, .cycle, .report 1 .offline true, .setSlots 4, .cycle]
    s.xs.map (·.st) = [.initializing, .queued, .queued] ∧ s.cycle.eligible = [] ∧ s.cycle.freeSlots = 3 := by decide

/-- interleaved arrivals (user 0, user 1, user 0), the later upload of user 0 is aborted: user 0 stays
tracked, the OFFLINE report is what every later cycle sees, the queued upload is not started; once all of
user 0's uploads are finalized the entry is dropped, and a report for the untracked user is not kept -/
example :
    let s := runFrom { slots := 0 }
      [.addUpload 0, .addUpload 1, .addUpload 0, .cycle, .reply 0 (some .online), .reply 1 (some .online),
       .report 0 .offline false, .abort 2, .cycle, .setSlots 4, .addUpload 3, .cycle]
    s.xs.map (·.st) = [.queued, .initializing, .aborted, .initializing] ∧
      s.store 0 = some { status := .offline } ∧
      ((step (step (step s (.abort 0)) .cycle) (.report 0 .online true)).store 0 = none) := by decide

end AioslskVerif.C05
