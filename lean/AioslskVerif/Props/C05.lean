import AioslskVerif.Proofs.Sched
/-!
# C05 — active uploads never exceed the slot limit or one per user; priority holds

Property theorems only (model: `Model/Sched.lean`, helpers: `Proofs/Sched.lean`).
`run ops` / `runFrom s ops` is the scheduler state after any list of operations — peers queueing
files, management cycles, initialisations getting through / failing / falling back, completions,
aborts, re-queues, limit changes, user status / friend / privilege changes — i.e. any arrival order
and any timing of the cycles relative to the other events.  `select s` is what one management cycle
starts (`uploads[:free_upload_slots]` of the prioritised `_get_queued_transfers()`).
-/
namespace AioslskVerif.C05
open AioslskVerif.Sched List

/-! ## the ranking realises privileged > friend > online/away > unknown -/

/-- Generated obligation: the weights read from `_prioritize_uploads` make the additive rank
lexicographic. -/
theorem C05_weights_lexicographic :
    W.privileged > W.friend + W.online ∧ W.friend > W.online ∧ W.online > 0 := by decide

/-- Generated obligation: exactly ONLINE and AWAY earn the status weight (OFFLINE is excluded
earlier, UNKNOWN ranks lowest). -/
theorem C05_online_earners (st : UStatus) : earnsOnline st = true ↔ (st = .online ∨ st = .away) := by
  cases st <;> decide

/-- the class order the property states, lexicographic on (privileged, friend, online/away) -/
def classLt (i j : UserInfo) : Prop :=
  (i.privileged = false ∧ j.privileged = true) ∨
  (i.privileged = j.privileged ∧
    ((i.friend = false ∧ j.friend = true) ∨
     (i.friend = j.friend ∧ earnsOnline i.status = false ∧ earnsOnline j.status = true)))

/-- For any weights with `privileged > friend + online`, `friend > online > 0` the numeric rank
orders users exactly as the class order does. -/
theorem C05_rank_lexicographic (w : Weights) (hw : w.privileged > w.friend + w.online ∧ w.friend > w.online ∧ w.online > 0)
    (i j : UserInfo) : rankW w i < rankW w j ↔ classLt i j := by
  obtain ⟨h1, h2, h3⟩ := hw
  unfold rankW classLt
  cases i.privileged <;> cases j.privileged <;> cases i.friend <;> cases j.friend <;>
    cases earnsOnline i.status <;> cases earnsOnline j.status <;> simp <;> omega

theorem C05_rank_is_class_order (i j : UserInfo) : rank i < rank j ↔ classLt i j :=
  C05_rank_lexicographic W C05_weights_lexicographic i j

/-! ## one cycle -/

/-- A cycle starts at most as many uploads as there are free slots. -/
theorem C05_select_le_free (s : Sched) : s.select.length ≤ s.slots - s.procUploads :=
  select_length_le s

/-- The uploads a cycle starts belong to pairwise different users. -/
theorem C05_select_distinct_users (s : Sched) : (s.select.map (·.user)).Nodup :=
  select_nodup_users s

/-- A started upload was a QUEUED upload of the transfer list, its user is not offline and has no
upload that is initialising or uploading. -/
theorem C05_select_no_busy_no_offline (s : Sched) (t : Xfer) (h : t ∈ s.select) :
    t ∈ s.xs ∧ t.dir = .upload ∧ t.st = .queued ∧ (s.users t.user).status ≠ .offline ∧
      ∀ x ∈ s.xs, x.procUpload = true → x.user ≠ t.user :=
  select_spec h

/-- Whatever is started ranks at least as high as every eligible upload that is left waiting. -/
theorem C05_priority (s : Sched) (t t' : Xfer) (ht : t ∈ s.select) (ht' : t' ∈ s.eligible) (hn : t' ∉ s.select) :
    s.rankOf t' ≤ s.rankOf t := by
  have hs := prioritize_sorted s s.candidates
  have hsplit : s.eligible = s.select ++ s.eligible.drop s.freeSlots := (take_append_drop _ _).symm
  have hd : t' ∈ s.eligible.drop s.freeSlots := by
    rw [hsplit] at ht'
    rcases mem_append.mp ht' with h | h
    · exact absurd h hn
    · exact h
  change (s.eligible).Pairwise _ at hs
  rw [hsplit, pairwise_append] at hs
  exact hs.2.2 t ht t' hd

/-- Every user that could be served is represented in the eligible list: a QUEUED upload of a user
who is not offline and has no active upload has an eligible upload of the same user. -/
theorem C05_eligible_complete (s : Sched) (x : Xfer) (hx : x ∈ s.xs) (hu : x.dir = .upload) (hq : x.st = .queued)
    (hoff : (s.users x.user).status ≠ .offline) (hb : ∀ y ∈ s.xs, y.procUpload = true → y.user ≠ x.user) :
    ∃ y ∈ s.eligible, y.user = x.user := by
  have hbusy : x.user ∉ s.busyUsers := by
    intro hc
    obtain ⟨z, hz, hzu⟩ := mem_map.mp hc
    have ⟨hzx, hzp⟩ := mem_filter.mp hz
    exact hb z hzx hzp hzu
  obtain ⟨y, hy, hyu⟩ := eligLoop_complete s.xs [] x hx hu hq hoff hbusy (by simp)
  exact ⟨y, (eligible_perm s).mem_iff.mpr hy, hyu⟩

/-- User-level priority: if a cycle starts an upload of user `u` and leaves an eligible user `v`
(queued upload, not offline, nothing active, none of `v`'s uploads started) waiting, then `v` is not
of a higher class than `u`. -/
theorem C05_priority_users (s : Sched) (t x : Xfer) (ht : t ∈ s.select) (hx : x ∈ s.xs) (hu : x.dir = .upload)
    (hq : x.st = .queued) (hoff : (s.users x.user).status ≠ .offline)
    (hb : ∀ y ∈ s.xs, y.procUpload = true → y.user ≠ x.user) (hw : ∀ y ∈ s.select, y.user ≠ x.user) :
    ¬ classLt (s.users t.user) (s.users x.user) := by
  obtain ⟨y, hy, hyu⟩ := C05_eligible_complete s x hx hu hq hoff hb
  have hn : y ∉ s.select := fun hc => hw y hc hyu
  have := C05_priority s t y ht hy hn
  rw [← C05_rank_is_class_order]
  unfold Sched.rankOf at this
  rw [hyu] at this
  omega

/-! ## all schedules -/

/-- In every reachable state no user has two uploads that are initialising / uploading. -/
theorem C05_one_per_user (n : Nat) (ops : List Op) (a b : Xfer)
    (ha : a ∈ (runFrom { slots := n } ops).xs) (hb : b ∈ (runFrom { slots := n } ops).xs) (hne : a ≠ b)
    (pa : a.procUpload = true) (pb : b.procUpload = true) : a.user ≠ b.user := by
  have hi : Inv (runFrom { slots := n } ops) := inv_runFrom (s := { slots := n }) ⟨by simp, by simp, by simp⟩ ops
  exact forall_of_pairwise (R := fun a b => a.procUpload = true → b.procUpload = true → a.user ≠ b.user)
    (fun a b h pb pa e => h pa pb e.symm) hi.one a ha b hb hne pa pb

/-- Slot invariant, per-step form: from any reachable state, a step either does not increase the
number of initialising / uploading uploads, or leaves it at most the slot setting **at that step**.
(So with a lowered limit running uploads finish, and nothing new starts until the count fits.) -/
theorem C05_slot_invariant (s : Sched) (hi : Inv s) (op : Op) :
    (step s op).procUploads ≤ s.procUploads ∨ (step s op).procUploads ≤ (step s op).slots := by
  cases op with
  | addUpload u => left; simp only [step, Sched.procUploads]; rw [procUploads_append_idle _ _ (by simp [Xfer.procUpload, Xfer.processing])]; exact Nat.le_refl _
  | addDownload u => left; simp only [step, Sched.procUploads]; rw [procUploads_append_idle _ _ (by simp [Xfer.procUpload, Xfer.processing])]; exact Nat.le_refl _
  | setSlots n => left; exact Nat.le_refl _
  | setUser u i => left; exact Nat.le_refl _
  | cycle =>
    simp only [step]
    split
    · have h1 := procUploads_cycle hi
      have h2 := select_length_le s
      have h3 : s.cycle.slots = s.slots := rfl
      unfold Sched.freeSlots at h2
      omega
    · left; exact Nat.le_refl _
  | started k | finish k | failX k | backToQueue k | requeue k | apiQueue k | abort k =>
    left
    simp only [step, Op.xfer?]
    split
    · rename_i x hg
      split
      · rename_i st ht
        exact procUploads_setSt_le hi hg ht
      · exact Nat.le_refl _
    · exact Nat.le_refl _

/-- Corollary for a constant limit: if the slot setting is never changed, the number of
initialising / uploading uploads never exceeds it, whatever the schedule. -/
theorem C05_slot_invariant_const (n : Nat) (ops : List Op) (hc : ∀ op ∈ ops, ∀ m, op ≠ .setSlots m) :
    (runFrom { slots := n } ops).procUploads ≤ n ∧ (runFrom { slots := n } ops).slots = n := by
  suffices H : ∀ (s : Sched), Inv s → s.procUploads ≤ s.slots →
      (runFrom s ops).procUploads ≤ s.slots ∧ (runFrom s ops).slots = s.slots by
    exact H { slots := n } ⟨by simp, by simp, by simp⟩ (by simp [Sched.procUploads])
  induction ops with
  | nil => intro s _ h; exact ⟨h, rfl⟩
  | cons op ops ih =>
    intro s hi h
    have hs : (step s op).slots = s.slots := by
      cases op <;> simp only [step, Op.xfer?, Sched.setSt, Sched.cycle] <;> try rfl
      all_goals first
        | exact absurd rfl (hc _ mem_cons_self _)
        | (repeat' split) <;> rfl
    have hstep := C05_slot_invariant s hi op
    have h' : (step s op).procUploads ≤ (step s op).slots := by omega
    have := ih (fun o ho => hc o (mem_cons_of_mem _ ho)) (step s op) (inv_step hi op) h'
    rw [hs] at this
    exact this

/-- Work conservation: right after a cycle either no slot is free or no eligible queued upload
remains (every reachable state satisfies `Inv`, see `C05_work_conserving_run`). -/
theorem C05_work_conserving (s : Sched) (hi : Inv s) : s.cycle.freeSlots = 0 ∨ s.cycle.eligible = [] := by
  by_cases hl : s.eligible.length ≤ s.freeSlots
  · right
    have hsel : s.select = s.eligible := take_of_length_le hl
    have hcand : s.cycle.candidates = [] := by
      apply eq_nil_iff_forall_not_mem.mpr
      intro y hy
      have hy' := mem_eligLoop hy
      have hyx : y ∈ s.xs.map (cycleMap s.select) := hy'.1
      obtain ⟨x, hx, rfl⟩ := mem_map.mp hyx
      have hxs : x ∉ s.select := by
        intro hc
        have := hy'.2.2.1
        simp [cycleMap, hc] at this
      have hxe : cycleMap s.select x = x := by simp [cycleMap, hxs]
      rw [hxe] at hy'
      -- an active upload of `s` stays active
      have keep : ∀ z ∈ s.xs, z.procUpload = true → z.user ∈ s.cycle.busyUsers := by
        intro z hz hp
        have hp' : (cycleMap s.select z).procUpload = true := by rw [cycleMap_proc hz]; simp [hp]
        have hu : (cycleMap s.select z).user = z.user := by unfold cycleMap; split <;> rfl
        exact hu ▸ mem_busyUsers (s := s.cycle) (mem_map_of_mem hz) hp'
      have hb : x.user ∉ s.busyUsers := by
        intro hc
        obtain ⟨z, hz, hzu⟩ := mem_map.mp hc
        have ⟨hzx, hzp⟩ := mem_filter.mp hz
        exact hy'.2.2.2.2.1 (hzu ▸ keep z hzx hzp)
      obtain ⟨c, hc, hcu⟩ := eligLoop_complete s.xs [] x hx hy'.2.1 hy'.2.2.1 hy'.2.2.2.1 hb (by simp)
      have hcs : c ∈ s.select := by rw [hsel]; exact (eligible_perm s).mem_iff.mpr hc
      have hcx : c ∈ s.xs := (select_spec hcs).1
      have hp' : (cycleMap s.select c).procUpload = true := by rw [cycleMap_proc hcx]; simp [hcs]
      have hu : (cycleMap s.select c).user = c.user := by unfold cycleMap; split <;> rfl
      have : c.user ∈ s.cycle.busyUsers := hu ▸ mem_busyUsers (s := s.cycle) (mem_map_of_mem hcx) hp'
      exact hy'.2.2.2.2.1 (hcu ▸ this)
    unfold Sched.eligible
    rw [hcand]
    rfl
  · left
    have hlen : s.select.length = s.freeSlots := by
      unfold Sched.select
      rw [length_take]
      omega
    have h1 := procUploads_cycle hi
    have h3 : s.cycle.slots = s.slots := rfl
    unfold Sched.freeSlots at *
    omega

theorem C05_work_conserving_run (n : Nat) (ops : List Op) :
    let s := runFrom { slots := n } ops
    s.cycle.freeSlots = 0 ∨ s.cycle.eligible = [] :=
  C05_work_conserving _ (inv_runFrom (s := { slots := n }) ⟨by simp, by simp, by simp⟩ ops)

/-- Every op that changes a transfer (or a user) leaves a cycle request behind, and a cycle that
started something requests the next one: a queued upload of an eligible user is looked at again
after every change, and by `C05_work_conserving` started while slots are free. -/
theorem C05_change_requests_cycle (s : Sched) (op : Op) (hne : (step s op).xs ≠ s.xs) :
    (step s op).cyclePending = true := by
  cases op with
  | addUpload u => rfl
  | addDownload u => rfl
  | setSlots n => exact absurd rfl hne
  | setUser u i => rfl
  | cycle =>
    simp only [step] at hne ⊢
    split
    · rename_i hp
      simp only [hp, if_true] at hne
      by_cases he : s.select = []
      · exfalso
        apply hne
        rw [cycle_xs, he]
        have : ∀ x, cycleMap [] x = x := fun x => by simp [cycleMap]
        simp [funext this]
      · unfold Sched.cycle
        cases hs : s.select with
        | nil => exact absurd hs he
        | cons a l => simp
    · rename_i hp
      simp only [hp] at hne
      exact absurd rfl hne
  | started k | finish k | failX k | backToQueue k | requeue k | apiQueue k | abort k =>
    simp only [step, Op.xfer?] at hne ⊢
    split
    · rename_i x hg
      split
      · rfl
      · rename_i ht
        simp only [hg, ht] at hne
        exact absurd rfl hne
    · rename_i hg
      simp only [hg] at hne
      exact absurd rfl hne

/-! ## the hypotheses are satisfiable: reachable states with contention -/

/-- three users, one slot: the privileged user who queued last is served; the others wait -/
example :
    let s := runFrom { slots := 1 }
      [.setUser 2 { status := .online, privileged := true }, .setUser 1 { status := .away, friend := true },
       .addUpload 0, .addUpload 1, .addUpload 2, .addUpload 2]
    s.select.map (·.id) = [2] ∧ s.eligible.map (·.id) = [2, 1, 0] ∧
      (step s .cycle).xs.map (·.st) = [.queued, .queued, .initializing, .queued] ∧
      (step s .cycle).freeSlots = 0 := by decide

/-- the limit is lowered below the number of running uploads: nothing starts until it fits -/
example :
    let s := runFrom { slots := 2 }
      [.addUpload 0, .addUpload 1, .addUpload 2, .cycle, .setSlots 1, .started 2, .finish 2, .cycle]
    s.procUploads = 1 ∧ s.slots = 1 ∧ s.select = [] ∧ s.eligible.map (·.id) = [0] := by decide

/-- an offline user is never served, a busy user's second upload waits -/
example :
    let s := runFrom { slots := 4 }
      [.setUser 1 { status := .offline, privileged := true }, .addUpload 0, .addUpload 0, .addUpload 1, .cycle]
    s.xs.map (·.st) = [.initializing, .queued, .queued] ∧ s.cycle.eligible = [] ∧ s.cycle.freeSlots = 3 := by decide

end AioslskVerif.C05
