import AioslskVerif.Proofs.Sched
/-!
# C05 — active uploads never exceed the slot limit or one per user; priority holds

Property theorems only (model: `Model/Sched.lean`, helpers: `Proofs/Sched.lean`).
`run ops` / `runFrom s ops` is the scheduler state after any list of operations — peers queueing
files, management cycles, initialisations getting through / failing / falling back, completions,
aborts, re-queues, limit changes, friend-list changes, and the server's reports about users (status
updates, answers to the tracking request, the privileged list) — i.e. any arrival order and any
timing of the cycles relative to the other events.  A management cycle is `s.cycle = s.track.start`:
`manage_user_tracking`, then `manage_transfers`; `s.select` is `uploads[:free_upload_slots]` of the
prioritised `_get_queued_transfers()` in state `s`, and `manage_transfers` creates a task for each of
them that has none (`s.started`; all of `s.select` when nothing is between decision and record,
`C05_cycle_starts_the_selection`), so the decision of a cycle taken in state `s` is `s.track.select`.
The decision is RECORDED by a later step (`record k`: the first step of the created task makes the
upload INITIALIZING); between the two the upload is `inflight` — it holds a slot (`Xfer.held`) that
the scheduler's own count (`procUploads`) does not show.  The schedule theorems (slot limit, one
upload per user) hold for every schedule that is `Timely`: no cycle is served while an upload is
`inflight`.  That is a fact about the running client (a created task takes its first step in the next
loop iteration, the job sleeps between two cycles), the harness checks it on every real cycle, and
without it the theorems are false: `C05_untimely_cycle_breaks_slot_limit`,
`C05_untimely_cycle_breaks_one_per_user`.  `s.users u` is what the scheduler reads
about `u` at that instant (the `User` object the user manager holds, else a fresh one); the section
"what the scheduler knows" proves that for every user with an unfinished transfer this is what the
server last reported.
-/
namespace AioslskVerif.C05
open AioslskVerif.Sched List

/-! ## the ranking realises privileged > friend > online/away > unknown -/

/-- Generated obligation: the weights read from `_prioritize_uploads` make the additive rank
lexicographic. -/
theorem C05_weights_lexicographic :
    W.privileged > W.friend + W.online ∧ W.friend > W.online ∧ W.online > 0 := by decide

/-- Generated obligation: exactly ONLINE and AWAY earn the status weight (OFFLINE is excluded
earlier, UNKNOWN ranks lowest). -/
theorem C05_online_earners (st : UStatus) : earnsOnline st = true ↔ (st = .online ∨ st = .away) := by
  cases st <;> decide

/-- the class order the property states, lexicographic on (privileged, friend, online/away) -/
def classLt (i j : UserInfo) : Prop :=
  (i.privileged = false ∧ j.privileged = true) ∨
  (i.privileged = j.privileged ∧
    ((i.friend = false ∧ j.friend = true) ∨
     (i.friend = j.friend ∧ earnsOnline i.status = false ∧ earnsOnline j.status = true)))

/-- For any weights with `privileged > friend + online`, `friend > online > 0` the numeric rank
orders users exactly as the class order does. -/
theorem C05_rank_lexicographic (w : Weights) (hw : w.privileged > w.friend + w.online ∧ w.friend > w.online ∧ w.online > 0)
    (i j : UserInfo) : rankW w i < rankW w j ↔ classLt i j := by
  obtain ⟨h1, h2, h3⟩ := hw
  unfold rankW classLt
  cases i.privileged <;> cases j.privileged <;> cases i.friend <;> cases j.friend <;>
    cases earnsOnline i.status <;> cases earnsOnline j.status <;> simp <;> omega

theorem C05_rank_is_class_order (i j : UserInfo) : rank i < rank j ↔ classLt i j :=
  C05_rank_lexicographic W C05_weights_lexicographic i j

/-! ## one cycle -/

/-- A cycle starts at most as many uploads as there are free slots. -/
theorem C05_select_le_free (s : Sched) : s.select.length ≤ s.slots - s.procUploads :=
  select_length_le s

/-- The uploads a cycle starts belong to pairwise different users. -/
theorem C05_select_distinct_users (s : Sched) : (s.select.map (·.user)).Nodup :=
  select_nodup_users s

/-- A started upload was a QUEUED upload of the transfer list, its user is not offline and has no
upload that is initialising or uploading. -/
theorem C05_select_no_busy_no_offline (s : Sched) (t : Xfer) (h : t ∈ s.select) :
    t ∈ s.xs ∧ t.dir = .upload ∧ t.st = .queued ∧ (s.users t.user).status ≠ .offline ∧
      ∀ x ∈ s.xs, x.procUpload = true → x.user ≠ t.user :=
  select_spec h

/-- Whatever is started ranks at least as high as every eligible upload that is left waiting. -/
theorem C05_priority (s : Sched) (t t' : Xfer) (ht : t ∈ s.select) (ht' : t' ∈ s.eligible) (hn : t' ∉ s.select) :
    s.rankOf t' ≤ s.rankOf t := by
  have hs := prioritize_sorted s s.candidates
  have hsplit : s.eligible = s.select ++ s.eligible.drop s.freeSlots := (take_append_drop _ _).symm
  have hd : t' ∈ s.eligible.drop s.freeSlots := by
    rw [hsplit] at ht'
    rcases mem_append.mp ht' with h | h
    · exact absurd h hn
    · exact h
  change (s.eligible).Pairwise _ at hs
  rw [hsplit, pairwise_append] at hs
  exact hs.2.2 t ht t' hd

/-- Every user that could be served is represented in the eligible list: a QUEUED upload of a user
who is not offline and has no active upload has an eligible upload of the same user. -/
theorem C05_eligible_complete (s : Sched) (x : Xfer) (hx : x ∈ s.xs) (hu : x.dir = .upload) (hq : x.st = .queued)
    (hoff : (s.users x.user).status ≠ .offline) (hb : ∀ y ∈ s.xs, y.procUpload = true → y.user ≠ x.user) :
    ∃ y ∈ s.eligible, y.user = x.user := by
  have hbusy : x.user ∉ s.busyUsers := by
    intro hc
    obtain ⟨z, hz, hzu⟩ := mem_map.mp hc
    have ⟨hzx, hzp⟩ := mem_filter.mp hz
    exact hb z hzx hzp hzu
  obtain ⟨y, hy, hyu⟩ := eligLoop_complete s.xs [] x hx hu hq hoff hbusy (by simp)
  exact ⟨y, (eligible_perm s).mem_iff.mpr hy, hyu⟩

/-- User-level priority: if a cycle starts an upload of user `u` and leaves an eligible user `v`
(queued upload, not offline, nothing active, none of `v`'s uploads started) waiting, then `v` is not
of a higher class than `u`. -/
theorem C05_priority_users (s : Sched) (t x : Xfer) (ht : t ∈ s.select) (hx : x ∈ s.xs) (hu : x.dir = .upload)
    (hq : x.st = .queued) (hoff : (s.users x.user).status ≠ .offline)
    (hb : ∀ y ∈ s.xs, y.procUpload = true → y.user ≠ x.user) (hw : ∀ y ∈ s.select, y.user ≠ x.user) :
    ¬ classLt (s.users t.user) (s.users x.user) := by
  obtain ⟨y, hy, hyu⟩ := C05_eligible_complete s x hx hu hq hoff hb
  have hn : y ∉ s.select := fun hc => hw y hc hyu
  have := C05_priority s t y ht hy hn
  rw [← C05_rank_is_class_order]
  unfold Sched.rankOf at this
  rw [hyu] at this
  omega

/-- What a cycle starts: the selected uploads that have no running task; when nothing is between decision and
record (every timely cycle) and no selected upload has a lingering task that is the whole selection, so the
theorems above speak about exactly the uploads whose tasks the cycle creates.  (A selected upload with a
lingering task is passed over and watched: `C05_work_conserving`.) -/
theorem C05_cycle_starts_the_selection (s : Sched) (hn : s.noInflight = true)
    (hl : ∀ x ∈ s.select, x.lingering = false) : s.started = s.select := by
  unfold Sched.started
  apply filter_eq_self.mpr
  intro x hx
  simp [noInflight_spec hn (select_spec hx).1, hl x hx]

/-- the selected uploads a cycle passes over: an earlier task of theirs is still running
(`_is_running(upload._transfer_task)`, manager.py:580-590) -/
def passedOver (s : Sched) : List Xfer := s.select.filter (fun x => x.inflight || x.lingering)

/-- A passed-over upload uses up its slot: the tasks a cycle creates and the uploads it passes over are, together,
`uploads[:free_upload_slots]` — the slice is taken BEFORE the uploads with a running task are skipped, the loop
does not go on to the next candidate in line. -/
theorem C05_passed_over_uses_its_slot (s : Sched) :
    s.started.length + (passedOver s).length = s.select.length ∧
      s.started.length + (passedOver s).length ≤ s.slots - s.procUploads := by
  have h : ∀ l : List Xfer, (l.filter (fun x => !x.inflight && !x.lingering)).length
      + (l.filter (fun x => x.inflight || x.lingering)).length = l.length := by
    intro l
    induction l with
    | nil => rfl
    | cons a l ih =>
      simp only [filter_cons]
      cases a.inflight <;> cases a.lingering <;> simp <;> omega
  have h1 : s.started.length + (passedOver s).length = s.select.length := h s.select
  exact ⟨h1, h1 ▸ select_length_le s⟩

/-- No slot goes past a passed-over upload: if a cycle creates a task for `t` and an eligible upload `t'` ranks
strictly higher, then `t'` is in the slice too — it got a task as well or it was passed over, and then it is marked
(`inflight`: its task will record the decision; `watched`: the cycle asked to be run again when the lingering task
ends) in the state the cycle leaves behind.  Never is a task created for a lower-ranking upload INSTEAD. -/
theorem C05_no_slot_goes_past_a_passed_over_upload (s : Sched) (t t' : Xfer) (ht : t ∈ s.started)
    (ht' : t' ∈ s.eligible) (hr : s.rankOf t < s.rankOf t') :
    t' ∈ s.select ∧ markSel s.select t' ∈ s.start.xs ∧
      ((markSel s.select t').inflight = true ∨ (markSel s.select t').watched = true) := by
  have hsel : t' ∈ s.select := by
    apply Classical.byContradiction
    intro hn
    have := C05_priority s t t' (mem_filter.mp ht).1 ht' hn
    omega
  refine ⟨hsel, ?_, ?_⟩
  · exact mem_map.mpr ⟨t', (select_spec hsel).1, rfl⟩
  · unfold markSel
    rw [if_pos hsel]
    cases hl : t'.lingering <;> simp

/-- The same at the level of the property's classes: a user of a strictly higher class (privileged > friend >
online/away > unknown) whose upload is eligible never loses the slot to the user a task is created for. -/
theorem C05_higher_class_keeps_its_slot (s : Sched) (t t' : Xfer) (ht : t ∈ s.started) (ht' : t' ∈ s.eligible)
    (hc : classLt (s.users t.user) (s.users t'.user)) :
    t' ∈ s.started ∨
      (t' ∈ passedOver s ∧ ((markSel s.select t').inflight = true ∨ (markSel s.select t').watched = true)) := by
  have hr : s.rankOf t < s.rankOf t' := (C05_rank_is_class_order _ _).mpr hc
  obtain ⟨hsel, _, hm⟩ := C05_no_slot_goes_past_a_passed_over_upload s t t' ht ht' hr
  by_cases hp : (t'.inflight || t'.lingering) = true
  · exact Or.inr ⟨mem_filter.mpr ⟨hsel, hp⟩, hm⟩
  · refine Or.inl (mem_filter.mpr ⟨hsel, ?_⟩)
    cases hi : t'.inflight <;> cases hl : t'.lingering <;> simp_all

/-! ## all schedules -/

/-- In every state a timely schedule reaches no user holds two slots: no two uploads of one user that are
initialising / uploading or chosen by a cycle (task created, decision not yet recorded). -/
theorem C05_one_slot_per_user (n : Nat) (ops : List Op) (ht : Timely { slots := n } ops) (a b : Xfer)
    (ha : a ∈ (runFrom { slots := n } ops).xs) (hb : b ∈ (runFrom { slots := n } ops).xs) (hne : a ≠ b)
    (pa : a.held = true) (pb : b.held = true) : a.user ≠ b.user := by
  have hi : Inv (runFrom { slots := n } ops) := inv_runFrom (inv_slots n) ops ht
  exact forall_of_pairwise (R := fun a b => a.held = true → b.held = true → a.user ≠ b.user)
    (fun a b h pb pa e => h pa pb e.symm) hi.one a ha b hb hne pa pb

/-- In every state a timely schedule reaches no user has two uploads that are initialising / uploading. -/
theorem C05_one_per_user (n : Nat) (ops : List Op) (ht : Timely { slots := n } ops) (a b : Xfer)
    (ha : a ∈ (runFrom { slots := n } ops).xs) (hb : b ∈ (runFrom { slots := n } ops).xs) (hne : a ≠ b)
    (pa : a.procUpload = true) (pb : b.procUpload = true) : a.user ≠ b.user :=
  C05_one_slot_per_user n ops ht a b ha hb hne (held_of_proc pa) (held_of_proc pb)

/-- Only a QUEUED upload is ever between decision and record, and its record is enabled: the first step of the
created task can always be taken (nothing has to be waited for). -/
theorem C05_inflight_is_queued_upload (n : Nat) (ops : List Op) (ht : Timely { slots := n } ops) (x : Xfer)
    (hx : x ∈ (runFrom { slots := n } ops).xs) (hi : x.inflight = true) :
    x.dir = .upload ∧ x.st = .queued ∧ (runFrom { slots := n } ops).accepts (.record x.id) = true := by
  have hinv : Inv (runFrom { slots := n } ops) := inv_runFrom (inv_slots n) ops ht
  have hq := hinv.infl x hx hi
  refine ⟨hq.1, hq.2, ?_⟩
  cases hg : (runFrom { slots := n } ops).get? x.id with
  | none =>
    unfold Sched.get? at hg
    rw [find?_eq_none] at hg
    have := hg x hx
    simp at this
  | some y =>
    have ⟨hy, hk⟩ := get?_spec hg
    have : y = x := unique_id hinv hy hx hk
    subst this
    simp [Sched.accepts, Op.xfer?, hg, target, hq.1, hq.2, hi]

/-- Slot invariant, per-step form: from any reachable state, a timely step either does not increase the
number of held slots (uploads initialising / uploading + uploads chosen by a cycle), or leaves it at most the
slot setting **at that step**.  The only step that takes slots is the cycle, and it takes them under the
limit in force when it decides; `record` (the step that makes an upload INITIALIZING) takes none.  (So with
a lowered limit what was started goes on, and nothing new starts until the count fits.) -/
theorem C05_slot_invariant (s : Sched) (hi : Inv s) (op : Op) (ht : timelyOp s op = true) :
    (step s op).heldCount ≤ s.heldCount ∨ (step s op).heldCount ≤ (step s op).slots := by
  cases op with
  | addUpload u => left; simp only [step, Sched.heldCount]; rw [heldCount_append_idle _ _ (by simp [Xfer.held, Xfer.procUpload, Xfer.processing])]; exact Nat.le_refl _
  | addDownload u => left; simp only [step, Sched.heldCount]; rw [heldCount_append_idle _ _ (by simp [Xfer.held, Xfer.procUpload, Xfer.processing])]; exact Nat.le_refl _
  | setSlots n => left; exact Nat.le_refl _
  | friend u b => left; exact Nat.le_refl _
  | report u st p => left; exact Nat.le_refl _
  | reply u st => left; cases st <;> exact Nat.le_refl _
  | privList l => left; exact Nat.le_refl _
  | cycle =>
    simp only [step]
    split
    · rename_i hp
      have hn0 : s.noInflight = true := by simpa [timelyOp, hp] using ht
      have hn : s.track.noInflight = true := hn0
      have hi' : Inv s.track := hi
      have h1 := heldCount_start hi' hn
      have h2 := select_length_le s.track
      have h7 : (taskSel s.track.select).length ≤ s.track.select.length := length_filter_le _ _
      have h0 := heldCount_of_noInflight hn
      have h3 : s.cycle.slots = s.slots := rfl
      have h4 : s.track.heldCount = s.heldCount := rfl
      have h5 : s.track.slots = s.slots := rfl
      have h6 : s.cycle = s.track.start := rfl
      unfold Sched.freeSlots at h2
      rw [h6] at h3 ⊢
      omega
    · left; exact Nat.le_refl _
  | breakX k =>
    left
    simp only [step]
    split
    · rename_i ha; exact heldCount_breakSt_le hi ha
    · exact Nat.le_refl _
  | noticeEnd k d =>
    left
    simp only [step]
    split
    · rename_i ha; exact heldCount_endNotice_le hi ha
    · exact Nat.le_refl _
  | record k | started k | finish k | failX k | backToQueue k | requeue k | apiQueue k | abort k =>
    left
    simp only [step, Op.xfer?]
    split
    · rename_i x hg
      split
      · rename_i st ht
        exact heldCount_setSt_le hi hg ht
      · exact Nat.le_refl _
    · exact Nat.le_refl _

/-- The scheduler's own count never exceeds the number of held slots. -/
theorem C05_active_le_held (s : Sched) : s.procUploads ≤ s.heldCount := procUploads_le_heldCount s

/-- Corollary for a constant limit: if the slot setting is never changed, the number of held slots — and with
it the number of initialising / uploading uploads — never exceeds it, whatever the (timely) schedule. -/
theorem C05_slot_invariant_const (n : Nat) (ops : List Op) (hc : ∀ op ∈ ops, ∀ m, op ≠ .setSlots m)
    (ht : Timely { slots := n } ops) :
    (runFrom { slots := n } ops).procUploads ≤ n ∧ (runFrom { slots := n } ops).heldCount ≤ n ∧
      (runFrom { slots := n } ops).slots = n := by
  suffices H : ∀ (s : Sched), Inv s → Timely s ops → s.heldCount ≤ s.slots →
      (runFrom s ops).heldCount ≤ s.slots ∧ (runFrom s ops).slots = s.slots by
    have := H { slots := n } (inv_slots n) ht (by simp [Sched.heldCount])
    exact ⟨Nat.le_trans (procUploads_le_heldCount _) this.1, this.1, this.2⟩
  clear ht
  induction ops with
  | nil => intro s _ _ h; exact ⟨h, rfl⟩
  | cons op ops ih =>
    intro s hi ht h
    have ht := timely_cons.mp ht
    have hs : (step s op).slots = s.slots := by
      cases op with
      | setSlots m => exact absurd rfl (hc _ mem_cons_self m)
      | addUpload u => rfl
      | addDownload u => rfl
      | friend u b => rfl
      | report u st p => rfl
      | reply u st => cases st <;> rfl
      | privList l => rfl
      | cycle => simp only [step]; split <;> rfl
      | breakX k => simp only [step]; split <;> rfl
      | noticeEnd k d => simp only [step]; split <;> rfl
      | record k | started k | finish k | failX k | backToQueue k | requeue k | apiQueue k | abort k =>
        simp only [step, Op.xfer?]
        (repeat' split) <;> rfl
    have hstep := C05_slot_invariant s hi op ht.1
    have h' : (step s op).heldCount ≤ (step s op).slots := by omega
    have := ih (fun o ho => hc o (mem_cons_of_mem _ ho)) (step s op) (inv_step hi op ht.1) ht.2 h'
    rw [hs] at this
    exact this

/-- The hypothesis `Timely` cannot be dropped (slot limit): one slot; a cycle chooses user 0's upload; before
its task records the decision a privileged user queues a file and a second cycle is served — it ranks the new
upload first, the chosen one has lost its place in `uploads[:1]` and nothing else counts it; both tasks then
record: two uploads initialising with one slot.  (`manage_transfers` itself has no guard against this: the
window must be closed by the schedule.) -/
theorem C05_untimely_cycle_breaks_slot_limit :
    let ops : List Op := [.privList [1], .addUpload 0, .cycle, .addUpload 1, .cycle, .record 0, .record 1]
    ¬ Timely { slots := 1 } ops ∧ (runFrom { slots := 1 } ops).procUploads = 2 ∧
      (runFrom { slots := 1 } ops).slots = 1 := by decide

/-- The hypothesis `Timely` cannot be dropped (one upload per user): user 0's first upload failed and a second
one is chosen by a cycle; before its task records the decision the peer re-queues the first (earlier in the
list: it is now "the first queued upload of the user", and the user is not counted as uploading) and a second
cycle is served: both uploads of user 0 become active. -/
theorem C05_untimely_cycle_breaks_one_per_user :
    let ops : List Op := [.addUpload 0, .cycle, .record 0, .failX 0, .addUpload 0, .cycle, .requeue 0, .cycle,
                          .record 1, .record 0]
    ¬ Timely { slots := 2 } ops ∧
      ((runFrom { slots := 2 } ops).xs.map (fun x => (x.user, x.procUpload))) = [(0, true), (0, true)] := by decide

/-- Work conservation of `manage_transfers`: right after a timely decision either every slot is taken — held by an
upload that is initialising / uploading or that the cycle has just chosen, or kept for an upload the cycle passed
over because an earlier task of it is still running (it is watched: the cycle is repeated when that task ends,
`C05_passed_over_is_looked_at_again`) — or every eligible queued upload has been chosen or is watched. -/
theorem C05_work_conserving_start (s : Sched) (hi : Inv s) (hn : s.noInflight = true) :
    s.slots ≤ s.start.heldCount + s.start.watchedCount ∨
      ∀ y ∈ s.start.eligible, y.inflight = true ∨ y.watched = true := by
  by_cases hl : s.eligible.length ≤ s.freeSlots
  · right
    have hsel : s.select = s.eligible := take_of_length_le hl
    intro y hy
    rw [eligible_start] at hy
    obtain ⟨x, hx, rfl⟩ := mem_map.mp hy
    rw [markSel_inflight, markSel_watched, hsel]
    cases hxl : x.lingering
    · left; simp [mem_taskSel, hx, hxl]
    · right; simp [hx]
  · left
    have hlen : s.select.length = s.freeSlots := by
      unfold Sched.select
      rw [length_take]
      omega
    have h1 := heldCount_start hi hn
    have h0 := heldCount_of_noInflight hn
    have h2 := watchedCount_start_ge hi
    have h3 := taskSel_add_lingerSel s.select
    unfold Sched.freeSlots at *
    have h4 : s.start.slots = s.slots := rfl
    omega

/-- Work conservation: right after a timely management cycle (tracking + scheduling) either every slot is taken
(held, or kept for a watched upload) or every eligible queued upload has its task or is watched (every state a
timely schedule reaches satisfies `Inv`, see `C05_work_conserving_run`). -/
theorem C05_work_conserving (s : Sched) (hi : Inv s) (hn : s.noInflight = true) :
    s.slots ≤ s.cycle.heldCount + s.cycle.watchedCount ∨
      ∀ y ∈ s.cycle.eligible, y.inflight = true ∨ y.watched = true :=
  C05_work_conserving_start s.track hi hn

theorem C05_work_conserving_run (n : Nat) (ops : List Op) (ht : Timely { slots := n } ops) :
    let s := runFrom { slots := n } ops
    s.noInflight = true → (s.slots ≤ s.cycle.heldCount + s.cycle.watchedCount ∨
      ∀ y ∈ s.cycle.eligible, y.inflight = true ∨ y.watched = true) :=
  fun hn => C05_work_conserving _ (inv_runFrom (inv_slots n) ops ht) hn

/-- A watched upload is looked at again: when the lingering task of an upload a cycle passed over ends — whether
or not the failure could be reported — a management cycle is requested (the done callback of
`fixes/C05-passed-over-upload-looked-at-again.patch`; without it nothing would: no state changes when the report
is delivered).  An upload that is offered again because the downloader could not be told requests one by its
state change. -/
theorem C05_passed_over_is_looked_at_again (s : Sched) (k : Nat) (d : Bool) (x : Xfer) (hx : x ∈ s.xs) (hk : x.id = k)
    (hl : x.lingering = true) (hw : x.watched = true ∨ (d = false ∧ x.st = .failed)) (hi : Inv s) :
    s.accepts (.noticeEnd k d) = true ∧ (step s (.noticeEnd k d)).cyclePending = true ∧
      ∀ y ∈ (step s (.noticeEnd k d)).xs, y.id = k → y.lingering = false ∧ y.watched = false := by
  have hg : s.get? k = some x := by
    cases hg : s.get? k with
    | none =>
      unfold Sched.get? at hg
      rw [find?_eq_none] at hg
      have := hg x hx
      simp [hk] at this
    | some y =>
      have ⟨hy, hyk⟩ := get?_spec hg
      rw [unique_id hi hy hx (hyk.trans hk.symm)]
  have ha : s.accepts (.noticeEnd k d) = true := by simp [Sched.accepts, hg, hl]
  refine ⟨ha, ?_, ?_⟩
  · simp only [step, ha, if_true, Sched.endNotice, Bool.or_eq_true]
    right
    rw [any_eq_true]
    refine ⟨x, hx, ?_⟩
    rcases hw with hw | ⟨hd, hs⟩
    · simp [hk, hw]
    · simp [hk, hd, hs]
  · intro y hy hyk
    simp only [step, ha, if_true, Sched.endNotice] at hy
    obtain ⟨z, _, rfl⟩ := mem_map.mp hy
    by_cases hz : z.id = k
    · simp [hz, Xfer.afterNotice]
    · simp only [hz, if_false] at hyk

/-- ... and once the chosen uploads have recorded the decision the scheduler's own count shows it: recording
moves a held slot from "chosen" to "initialising", it neither takes nor frees one. -/
theorem C05_record_keeps_held (s : Sched) (hi : Inv s) (k : Nat) (ha : s.accepts (.record k) = true) :
    (step s (.record k)).heldCount = s.heldCount ∧ (step s (.record k)).procUploads = s.procUploads + 1 := by
  simp only [Sched.accepts, Op.xfer?] at ha
  cases hg : s.get? k with
  | none => simp [hg] at ha
  | some x =>
    have ⟨hx, hk⟩ := get?_spec hg
    simp only [hg] at ha
    have htg : target x (.record k) = some .initializing := by
      simp only [target] at ha ⊢
      split
      · rfl
      · rename_i hc; simp [hc] at ha
    have hc : x.dir = .upload ∧ x.st = .queued ∧ x.inflight = true := by
      simp only [target] at htg
      split at htg
      · assumption
      · cases htg
    have hstep : step s (.record k) = s.setSt k .initializing := by
      simp [step, Op.xfer?, hg, htg]
    rw [hstep]
    unfold Sched.heldCount Sched.procUploads
    rw [setSt_xs, setSt_map_eq hi hg, countP_map, countP_map]
    have hw : x.withSt .initializing = ({ x with st := .initializing, inflight := false, lingering := x.lingering, watched := x.watched } : Xfer) := by
      simp [Xfer.withSt]
    have hnd := InvL.nodup hi
    constructor
    · apply countP_congr
      intro y _
      simp only [Function.comp]
      split
      · rename_i e; subst e
        simp [hw, Xfer.held, Xfer.procUpload, Xfer.processing, hc.1, hc.2.2]
      · rfl
    · have hcnt : ∀ (l : List Xfer), l.Nodup →
          countP (Xfer.procUpload ∘ fun y => if y = x then x.withSt .initializing else y) l
            = countP Xfer.procUpload l + (if x ∈ l then 1 else 0) := by
        intro l
        induction l with
        | nil => intro _; simp
        | cons a r ih =>
          intro hnd
          rw [nodup_cons] at hnd
          rw [countP_cons, countP_cons, ih hnd.2]
          by_cases e : a = x
          · subst e
            have hq : a.procUpload = false := not_proc_of_queued hc.2.1
            simp [hnd.1, hw, Xfer.procUpload, Xfer.processing, hc.1, hc.2.1]
          · have : x ≠ a := fun e' => e e'.symm
            simp [e, this, mem_cons]
            omega
      rw [hcnt _ hnd]
      simp [hx]

/-- Every op that adds a transfer or changes the state of one leaves a cycle request behind (a cycle itself changes
no state: it creates tasks, whose first step — `record`, enabled by `C05_inflight_is_queued_upload` — does, or
leaves a watch, `C05_passed_over_is_looked_at_again`): a queued upload of an eligible user is looked at again
after every change, and by `C05_work_conserving` started while slots are free.  (Reports of the server request
a cycle too: `C05_report_requests_cycle`.) -/
theorem C05_change_requests_cycle (s : Sched) (op : Op)
    (hne : (step s op).xs.map (·.st) ≠ s.xs.map (·.st)) : (step s op).cyclePending = true := by
  cases op with
  | addUpload u => rfl
  | addDownload u => rfl
  | setSlots n => exact absurd rfl hne
  | friend u b => exact absurd rfl hne
  | report u st p => rfl
  | reply u st => cases st <;> rfl
  | privList l => exact absurd rfl hne
  | cycle =>
    exfalso
    apply hne
    simp only [step]
    split
    · rw [cycle_eq, start_xs, track_xs, map_map]
      apply map_congr_left
      intro x _
      exact markSel_st _ _
    · rfl
  | breakX k =>
    simp only [step] at hne ⊢
    split
    · rfl
    · rename_i ha
      simp only [ha] at hne
      exact absurd rfl hne
  | noticeEnd k d =>
    simp only [step] at hne ⊢
    split
    · rename_i ha
      simp only [ha, if_true] at hne
      simp only [Sched.endNotice, Bool.or_eq_true]
      right
      rw [any_eq_true]
      apply Classical.byContradiction
      intro hc
      apply hne
      simp only [Sched.endNotice, map_map]
      apply map_congr_left
      intro x hx
      simp only [Function.comp]
      split
      · rename_i hk
        have : ¬ ((!d && x.st == .failed) = true) := by
          intro h1
          apply hc
          refine ⟨x, hx, ?_⟩
          simp only [Bool.and_eq_true, beq_iff_eq, Bool.or_eq_true]
          exact ⟨hk, Or.inr (by simpa using h1)⟩
        simp only [Xfer.afterNotice]
        split
        · rename_i h1; exact absurd h1 this
        · rfl
      · rfl
    · rename_i ha
      simp only [ha] at hne
      exact absurd rfl hne
  | record k | started k | finish k | failX k | backToQueue k | requeue k | apiQueue k | abort k =>
    simp only [step, Op.xfer?] at hne ⊢
    split
    · rename_i x hg
      split
      · rfl
      · rename_i ht
        simp only [hg, ht] at hne
        exact absurd rfl hne
    · rename_i hg
      simp only [hg] at hne
      exact absurd rfl hne

/-- The record of a decision requests the next cycle (the state change is reported to the manager's own state
listener, manager.py:1210-1213). -/
theorem C05_record_requests_cycle (s : Sched) (k : Nat) (ha : s.accepts (.record k) = true) :
    (step s (.record k)).cyclePending = true := by
  simp only [Sched.accepts, Op.xfer?] at ha
  simp only [step, Op.xfer?]
  cases hg : s.get? k with
  | none => simp [hg] at ha
  | some x =>
    simp only [hg] at ha ⊢
    cases ht : target x (.record k) with
    | none => simp [ht] at ha
    | some st => rfl

/-! ## what the scheduler knows about a user is what the server last reported

The ranking and the offline filter read `s.users`, i.e. the user manager's weak dictionary (`store`).
`ref` is the specification: for a user who has had an unfinished transfer at every cycle since cycle
`c`, the last status / privilege the server reported after `c` (a fresh entry — status unknown,
privileged per the last privileged list — while nothing was reported); no knowledge is claimed for a
user whose transfers were all finalized at the last cycle. -/

/-- the specification reads as intended: a status report overwrites the entry of a user whose tracking is
due, an answer to the tracking request sets its status, a privileged list sets its privilege flag;
nothing else but a cycle touches it; a cycle keeps the entry of a user with an unfinished transfer (or
starts one) and forgets everybody else. -/
theorem C05_ref_semantics (s : Sched) (u : Nat) :
    (∀ st p, (step s (.report u st p)).ref u = (s.ref u).map (fun _ => { status := st, privileged := p })) ∧
    (∀ st, (step s (.reply u (some st))).ref u = (s.ref u).map (fun k => { k with status := st })) ∧
    (step s (.reply u none)).ref u = s.ref u ∧
    (∀ l, (step s (.privList l)).ref u = (s.ref u).map (fun k => { k with privileged := l.contains u })) ∧
    (∀ v st p, v ≠ u → (step s (.report v st p)).ref u = s.ref u) ∧
    (∀ v st, v ≠ u → (step s (.reply v st)).ref u = s.ref u) ∧
    (∀ op, (∀ v st p, op ≠ .report v st p) → (∀ v st, op ≠ .reply v st) → (∀ l, op ≠ .privList l) → op ≠ .cycle →
      (step s op).ref u = s.ref u) ∧
    (s.cycle.ref u = if s.unfinishedUser u then some ((s.ref u).getD (s.fresh u)) else none) := by
  refine ⟨fun st p => ?_, fun st => ?_, rfl, fun l => rfl, fun v st p hv => ?_, fun v st hv => ?_, fun op h1 h2 h3 h4 => ?_, ?_⟩
  · simp [step, updKnown]
  · simp [step, updKnown]
  · simp [step, updKnown, Ne.symm hv]
  · cases st <;> simp [step, updKnown, Ne.symm hv]
  · cases op with
    | report v st p => exact absurd rfl (h1 v st p)
    | reply v st => exact absurd rfl (h2 v st)
    | privList l => exact absurd rfl (h3 l)
    | cycle => exact absurd rfl h4
    | addUpload v => rfl
    | addDownload v => rfl
    | setSlots n => rfl
    | friend v b => rfl
    | breakX k => simp only [step]; split <;> rfl
    | noticeEnd k d => simp only [step]; split <;> rfl
    | record k | started k | finish k | failX k | backToQueue k | requeue k | apiQueue k | abort k =>
      simp only [step, Op.xfer?]
      (repeat' split) <;> rfl
  · show (if s.unfinishedUser u then (match s.ref u with | some k => some k | none => some (s.fresh u)) else none) = _
    cases s.ref u <;> rfl

/-- The bookkeeping invariant: in every reachable state the weak dictionary holds, for every user, exactly
what the specification says — nothing the server reported while the user had an unfinished transfer at
every cycle is lost, and nothing else is remembered. -/
theorem C05_seen_is_last_reported (n : Nat) (ops : List Op) (u : Nat) :
    (runFrom { slots := n } ops).store u = (runFrom { slots := n } ops).ref u :=
  (trackInv_runFrom (trackInv_init n) ops).same u

/-- Tracked while an unfinished transfer exists: at the scheduling decision of every cycle the user manager
holds the object of every user who has a transfer that is not finalized, whatever the order of the
transfer list (interleaved users, finalized transfers in between). -/
theorem C05_tracked_at_decision (s : Sched) (x : Xfer) (hx : x ∈ s.xs) (hf : x.finalized = false) :
    (s.track.store x.user).isSome = true :=
  track_holds_unfinished s hx hf

/-- Between two cycles nothing is dropped or added: only a cycle changes who is held. -/
theorem C05_held_between_cycles (s : Sched) (op : Op) (hc : op ≠ .cycle) (u : Nat) :
    ((step s op).store u).isSome = (s.store u).isSome := by
  cases op with
  | cycle => exact absurd rfl hc
  | addUpload v => rfl
  | addDownload v => rfl
  | setSlots n => rfl
  | friend v b => rfl
  | report v st p => simp only [step, updKnown]; split <;> simp
  | reply v st => cases st <;> simp only [step, updKnown] <;> (try split) <;> simp
  | privList l => simp [step]
  | breakX k => simp only [step]; split <;> rfl
  | noticeEnd k d => simp only [step]; split <;> rfl
  | record k | started k | finish k | failX k | backToQueue k | requeue k | apiQueue k | abort k =>
    simp only [step, Op.xfer?]
    (repeat' split) <;> rfl

/-- Eligibility and rank of a cycle's decision in terms of the server's reports: an upload started by a
management cycle (from any reachable state) belongs to a user whose last reported status is not OFFLINE,
and the `UserInfo` the ranking used for ANY user with an unfinished transfer is the last report. -/
theorem C05_decision_uses_last_report (n : Nat) (ops : List Op) :
    let s := (runFrom { slots := n } ops).track
    (∀ x ∈ s.xs, x.finalized = false → ∃ k, s.ref x.user = some k ∧
        s.users x.user = { status := k.status, friend := s.friends x.user, privileged := k.privileged }) ∧
    (∀ t ∈ s.select, ∃ k, s.ref t.user = some k ∧ k.status ≠ .offline) := by
  intro s
  have hinv : TrackInv s := trackInv_track (trackInv_runFrom (trackInv_init n) ops)
  have key : ∀ x ∈ s.xs, x.finalized = false → ∃ k, s.ref x.user = some k ∧
      s.users x.user = { status := k.status, friend := s.friends x.user, privileged := k.privileged } := by
    intro x hx hf
    have hs := track_holds_unfinished (runFrom { slots := n } ops) hx hf
    have hsame := hinv.same x.user
    change (s.store x.user).isSome = true at hs
    cases hk : s.store x.user with
    | none => rw [hk] at hs; cases hs
    | some k =>
      refine ⟨k, by rw [← hsame, hk], ?_⟩
      simp [Sched.users, hk]
  refine ⟨key, ?_⟩
  intro t ht
  have hsp := select_spec ht
  have hfin : t.finalized = false := by simp [Xfer.finalized, hsp.2.2.1]
  obtain ⟨k, hk, hu⟩ := key t hsp.1 hfin
  refine ⟨k, hk, ?_⟩
  have := hsp.2.2.2.1
  rw [hu] at this
  exact this

/-- A report of the server requests a management cycle (manager.py:1211-1221). -/
theorem C05_report_requests_cycle (s : Sched) (u : Nat) (st : UStatus) (p : Bool) (r : Option UStatus) :
    (step s (.report u st p)).cyclePending = true ∧ (step s (.reply u r)).cyclePending = true := by
  cases r <;> exact ⟨rfl, rfl⟩

/-! ## the hypotheses are satisfiable: reachable states with contention -/

/-- three users queue with no slot; the cycle starts tracking them, the server answers; one slot opens: the
privileged user who queued last is chosen (task created, still QUEUED), the task's first step records it, the
others wait; the schedule is timely -/
example :
    let ops : List Op :=
      [.privList [2], .friend 1 true, .addUpload 0, .addUpload 1, .addUpload 2, .addUpload 2, .cycle,
       .reply 0 (some .online), .reply 1 (some .away), .reply 2 (some .online), .setSlots 1]
    let s := runFrom { slots := 0 } ops
    s.track.select.map (·.id) = [2] ∧ s.track.eligible.map (·.id) = [2, 1, 0] ∧
      (step s .cycle).xs.map (fun x => (x.st, x.inflight)) =
        [(.queued, false), (.queued, false), (.queued, true), (.queued, false)] ∧
      (step s .cycle).heldCount = 1 ∧ (step s .cycle).procUploads = 0 ∧
      (step (step s .cycle) (.record 2)).xs.map (·.st) = [.queued, .queued, .initializing, .queued] ∧
      (step (step s .cycle) (.record 2)).freeSlots = 0 ∧
      Timely { slots := 0 } (ops ++ [.cycle, .record 2, .cycle]) := by decide

/-- events between decision and record: the chosen upload is aborted before its task's first step (the task is
cancelled, the record never happens), another peer queues a file, the limit moves; the next cycle is timely -/
example :
    let ops : List Op := [.addUpload 0, .addUpload 1, .cycle, .abort 1, .addUpload 2, .setSlots 1, .record 0, .cycle]
    let s := runFrom { slots := 2 } ops
    Timely { slots := 2 } ops ∧ s.xs.map (fun x => (x.st, x.inflight)) =
      [(.initializing, false), (.aborted, false), (.queued, false)] ∧ s.accepts (.record 1) = false ∧
      s.heldCount = 1 := by decide

/-- an upload breaks in mid-transfer; while its task still reports the failure the peer queues the file again: the
cycle passes the upload over (no second task) and watches it; when the report ends — delivered or not — a cycle is
requested and starts the upload -/
example :
    let ops : List Op := [.addUpload 0, .cycle, .record 0, .started 0, .breakX 0, .cycle, .requeue 0, .cycle]
    let s := runFrom { slots := 1 } ops
    Timely { slots := 1 } ops ∧
      s.xs.map (fun x => (x.st, x.inflight, x.lingering, x.watched)) = [(.queued, false, true, true)] ∧
      s.cyclePending = false ∧ s.heldCount = 0 ∧ s.watchedCount = 1 ∧
      (step s (.noticeEnd 0 true)).cyclePending = true ∧
      (step (step s (.noticeEnd 0 true)) .cycle).xs.map (fun x => (x.st, x.inflight, x.lingering, x.watched)) =
        [(.queued, true, false, false)] ∧
      -- the report fails while the upload is still FAILED: it is offered again
      (runFrom { slots := 1 } [.addUpload 0, .cycle, .record 0, .started 0, .breakX 0, .noticeEnd 0 false]).xs.map (·.st)
        = [.queued] := by decide

/-- one slot; the upload of privileged user 0 breaks, the report hangs, user 0 queues the file again and is passed
over; user 1 asks for a file: the free slot stays user 0's (no task for user 1), and when the report ends the cycle
it requested starts user 0's upload -/
example :
    let ops : List Op := [.privList [0], .addUpload 0, .cycle, .record 0, .started 0, .breakX 0, .cycle, .requeue 0,
      .cycle, .addUpload 1, .cycle]
    let s := runFrom { slots := 1 } ops
    Timely { slots := 1 } ops ∧
      s.xs.map (fun x => (x.st, x.inflight, x.lingering, x.watched)) =
        [(.queued, false, true, true), (.queued, false, false, false)] ∧
      s.select.map (·.id) = [0] ∧ s.started = [] ∧ (passedOver s).map (·.id) = [0] ∧ s.eligible.map (·.id) = [0, 1] ∧
      (step (step s (.noticeEnd 0 true)) .cycle).xs.map (fun x => (x.st, x.inflight)) =
        [(.queued, true), (.queued, false)] := by decide

/-- the limit is lowered below the number of running uploads: nothing starts until it fits -/
example :
    let s := runFrom { slots := 2 }
      [.addUpload 0, .addUpload 1, .addUpload 2, .cycle, .record 2, .record 1, .setSlots 1, .started 2, .finish 2,
       .cycle]
    s.procUploads = 1 ∧ s.slots = 1 ∧ s.select = [] ∧ s.eligible.map (·.id) = [0] ∧ s.noInflight = true := by decide

/-- an offline user is never served, a busy user's second upload waits -/
example :
    let s := runFrom { slots := 0 }
      [.privList [1], .addUpload 0, .addUpload 0, .addUpload 1, .cycle, .report 1 .offline true, .setSlots 4, .cycle,
       .record 0]
    s.xs.map (·.st) = [.initializing, .queued, .queued] ∧ s.cycle.eligible = [] ∧ s.cycle.freeSlots = 3 := by decide

/-- interleaved arrivals (user 0, user 1, user 0), the later upload of user 0 is aborted: user 0 stays
tracked, the OFFLINE report is what every later cycle sees, the queued upload is not started; once all of
user 0's uploads are finalized the entry is dropped, and a report for the untracked user is not kept -/
example :
    let s := runFrom { slots := 0 }
      [.addUpload 0, .addUpload 1, .addUpload 0, .cycle, .reply 0 (some .online), .reply 1 (some .online),
       .report 0 .offline false, .abort 2, .cycle, .setSlots 4, .addUpload 3, .cycle, .record 3, .record 1]
    s.xs.map (·.st) = [.queued, .initializing, .aborted, .initializing] ∧
      s.store 0 = some { status := .offline } ∧
      ((step (step (step s (.abort 0)) .cycle) (.report 0 .online true)).store 0 = none) := by decide

end AioslskVerif.C05
