import AioslskVerif.Proofs.TrackWorld
/-!
# C15 — user tracking on the server mirrors the set of reasons to track

Property theorems only (model: `Model/Track.lean` = the code **with** `fixes/C15-lost-call-in-exit-window.patch`,
`fixes/C15-swallowed-cancel-on-close.patch`, `fixes/C15-transfer-reason-kept-after-remove.patch` and
`fixes/C15-stale-retry-after-retrack.patch`; helpers: `Proofs/Track.lean`, `Proofs/TrackLog.lean`,
`Proofs/TrackWorld.lean`).

Every theorem quantifies over **all** op lists `ops` from the initial state, i.e. over every interleaving of
calls (`track`/`untrack`, any user, any flags), worker steps with any network behaviour (`workerStep u env`),
retry timers firing (never early), done-callbacks (`reap`), server closes and clock advances. Histories
(`issued`, `processed`, `frames`, …) are per user and start again at every server close.
The second half (`World`) adds the owners of the reasons — logins, the friends list, the transfer manager's
cycles and transfers — and proves that what the tracking manager is asked for is what can be observed from
outside, in particular again after a session loss. A `TransferManager.remove` is three steps there
(`trmStart`, `trmDrop`, `trmEnd`): whatever the manager is asked meanwhile — other removals of the same user's
transfers, additions, cycles — comes in between.
Time unit: tick = 1/1024 s.
-/
namespace AioslskVerif.C15
open AioslskVerif.Track AioslskVerif.Generated.Track

/-- **No call is ever lost.** In every reachable state the requests already applied by the worker followed
by the requests still queued are exactly the requests made, in order. (On the pinned code a request put on
the queue of a worker that has returned but whose done-callback has not run is in neither list.) -/
theorem C15_no_lost_op (ops : List Op) (u : Nat) :
    let U := (run State.init ops).users u
    U.processed ++ U.queue = U.issued :=
  (inv_reach ops u).lost

/-- the done-callback of a finished worker never removes a live entry (fix 1: identity check) -/
theorem C15_reap_harmless (ops : List Op) (u g : Nat) :
    let s := run State.init ops
    ((step s (.reap u g)).users u).entry = (s.users u).entry := by
  intro s
  show ((s.upd u ((s.users u).reap g)).users u).entry = _
  simp only [State.upd, if_true]
  exact reap_entry_of_inv (inv_reach ops u) g

/-- what one request must put on the wire, by cases: RemoveUser exactly on non-empty→empty, AddUser exactly
on empty→non-empty, nothing otherwise -/
theorem C15_edge_cases (f : Flags) (r : Req) :
    (f ≠ Flags.empty → r.apply f = Flags.empty → edge f r = [.removeUser]) ∧
    (f = Flags.empty → r.apply f ≠ Flags.empty → edge f r = [.addUser]) ∧
    (f = Flags.empty → r.apply f = Flags.empty → edge f r = []) ∧
    (f ≠ Flags.empty → r.apply f ≠ Flags.empty → edge f r = []) :=
  edge_cases f r

/-- **Edges.** The AddUser/RemoveUser attempts made — the repetitions of an AddUser (its retries, justified by
`C15_attempts_justified`) left out — are exactly the edge-triggered fold (`specFrames`: one `edge` per
request) of the requests the worker has applied, and the reasons it holds are their fold; once nothing is
queued both equal the fold of **all** requests made (in issue order; a retry request changes no reason). -/
theorem C15_edges (ops : List Op) (u : Nat) :
    let U := (run State.init ops).users u
    collapse U.frames = specFrames U.processed ∧ U.flagsOf = specFlags U.processed ∧
    (U.queue = [] → collapse U.frames = specFrames U.issued ∧ U.flagsOf = specFlags U.issued) :=
  edges_of_inv (inv_reach ops u)

/-- **…and never otherwise.** The log of what happened on the wire for a user (attempts and how they ended) is
the attempts made, and every event in it may follow its predecessor (`Ev.okAfter`): an AddUser is attempted
first of all, directly after a RemoveUser, or directly after a FAILED attempt — then not before the documented
delay for that kind of failure is over; it is never repeated after an attempt that was answered "exists" or is
still unanswered, whatever was queued behind whatever (on the pinned code a retry request queued behind an
untrack + track pair re-sent AddUser to a user that was tracked again). A RemoveUser only follows an answered
attempt, an answer only its attempt. -/
theorem C15_attempts_justified (ops : List Op) (u : Nat) :
    let U := (run State.init ops).users u
    Justified U.log = true ∧ framesOf U.log = U.frames :=
  ⟨(inv_reach ops u).logJ, (inv_reach ops u).logF⟩

/-- the cases of `Ev.okAfter` spelled out for an AddUser attempt made at tick `t` -/
theorem C15_add_follows (t : Nat) (prev : Option Ev) :
    (Ev.add t).okAfter prev = true ↔
      (prev = none ∨ prev = some .remove ∨ ∃ due, prev = some (.fail due) ∧ due ≤ t) := by
  cases prev with
  | none => simp [Ev.okAfter]
  | some e => cases e <;> simp [Ev.okAfter]

/-- a failed attempt is logged with the instant its documented delay is over: now + 10 s (send error, no
answer, error) or now + 600 s (user does not exist) -/
theorem C15_fail_logged (U : User) (e : Entry) (now : Nat) (o : Outcome) (delay : Nat) :
    (U.failAttempt e now o delay).log = U.log ++ [.fail (now + delay * 1024)] := rfl

/-- **A retry that was called off stays called off.** A retry request counts only while it is the pending one
(fix 4): when the worker takes a request made by a retry task that is not the pending retry — the reasons were
withdrawn after the timer fired and came back, or a newer attempt failed — while reasons stand, nothing is
sent and neither the state nor the reasons change. -/
theorem C15_stale_retry_ignored (U : User) (now : Nat) (env : Env) (e : Entry) (q : List Req) (k : Nat)
    (he : U.entry = some e) (hpc : e.pc = .idle) (hq : e.queue = retryReq k :: q)
    (hk : e.live ≠ some k) (hf : e.flags ≠ Flags.empty) :
    (U.worker now env).frames = U.frames ∧ (U.worker now env).log = U.log ∧
    (U.worker now env).stateOf = U.stateOf ∧ (U.worker now env).flagsOf = U.flagsOf := by
  have hh : e.honours (retryReq k) = false := by
    unfold Entry.honours retryReq
    simp only [beq_eq_false_iff_ne, ne_eq]
    exact hk
  have ha : (retryReq k).apply e.flags = e.flags := by simp [retryReq, Req.apply]
  unfold User.worker
  simp only [he, hpc, hq]
  unfold User.take
  simp [hh, ha, hf, User.stateOf, User.flagsOf, he]

/-- the pending retry, in every reachable state: its request is only remembered while the worker waits for
requests in state `retry_pending` with reasons standing, no other retry task sleeps, and the last thing that
happened on the wire is the failed attempt it belongs to, whose documented delay is over -/
theorem C15_pending_retry (ops : List Op) (u : Nat) :
    let s := run State.init ops
    let U := s.users u
    ∀ e k, U.entry = some e → e.live = some k →
      e.flags ≠ Flags.empty ∧ e.pc = .idle ∧ e.retry = none ∧ e.state = .retryPending ∧
      ∃ due, U.log.getLast? = some (.fail due) ∧ due ≤ s.now := by
  intro s U e k he hk
  have hinv : UInv s.now U := inv_reach ops u
  obtain ⟨h1, h2, h3, due, h4, h5⟩ := hinv.live e k he hk
  refine ⟨h1, h2, h3, ?_, due, h4, h5⟩
  rcases (hinv.idle e he h2).2.2.2 h1 with ⟨_, hl⟩ | ⟨hs, _⟩
  · rw [h4] at hl; cases hl
  · exact hs

/-- **State.** When the user is quiescent (nothing queued, worker waiting for requests, or no entry) the
reported state is `tracked` exactly when the reasons — the fold of all requests made — are non-empty and the
last answer to an AddUser attempt said the user exists; it is `untracked` exactly when they are empty. -/
theorem C15_state_iff (ops : List Op) (u : Nat) :
    let U := (run State.init ops).users u
    U.Quiescent →
      U.flagsOf = specFlags U.issued ∧
      (U.stateOf = .tracked ↔ U.flagsOf ≠ Flags.empty ∧ U.outcomes.getLast? = some .exists) ∧
      (U.stateOf = .untracked ↔ U.flagsOf = Flags.empty) :=
  state_of_inv (inv_reach ops u)

/-- the documented delays (DESIGN.md C15 reading): 10 s after a network error or no answer within 10 s,
600 s after "user does not exist" — pinned against the constants regenerated from the source -/
theorem C15_documented_delays :
    delaySendFail = 10 ∧ delayTimeout = 10 ∧ delayError = 10 ∧ delayNotExists = 600 ∧ responseTimeout = 10 ∧
    retryNetError = 10 ∧ retryNonExisting = 600 :=
  documented_delays

/-- **Retries only while a reason remains.** In every reachable state a sleeping retry task implies a
non-empty set of reasons, was started in the past with one of the documented delays, and the number of retry
timers that have fired or are pending never exceeds the number of failed attempts; a network call in flight
for AddUser implies a non-empty set of reasons, one for RemoveUser implies an empty one, no retry task and no
pending retry request. -/
theorem C15_retry_only_while_reason (ops : List Op) (u : Nat) :
    let s := run State.init ops
    let U := s.users u
    (∀ e t, U.entry = some e → e.retry = some t →
        e.flags ≠ Flags.empty ∧ t.armedAt ≤ s.now ∧ (t.delay = 10 ∨ t.delay = 600)) ∧
    U.fired + U.pending ≤ U.failed ∧
    (∀ e, U.entry = some e → (e.pc = .sendAdd ∨ ∃ d, e.pc = .waitResp d) → e.flags ≠ Flags.empty) ∧
    (∀ e, U.entry = some e → e.pc = .sendRemove → e.flags = Flags.empty ∧ e.retry = none ∧ e.live = none) :=
  retry_of_inv (inv_reach ops u)

/-- the requests made by retry tasks among the requests made are exactly the timer firings — hence at most as
many as failed attempts (whatever flags the calls carry: a retry request is known by its identity) -/
theorem C15_retries_from_timers (ops : List Op) (u : Nat) :
    let U := (run State.init ops).users u
    (U.issued.filter Req.isRetry).length = U.fired ∧ U.fired ≤ U.failed :=
  ⟨rinv_reach ops u, Nat.le_trans (Nat.le_add_right _ _) (inv_reach ops u).count⟩

/-- a worker step that starts a retry task is a failed attempt, and the task sleeps the documented delay
for that kind of failure, counted from now -/
theorem C15_retry_delay (U : User) (now : Nat) (env : Env) (e e' : Entry) (t : Timer)
    (he : U.entry = some e) (he' : (U.worker now env).entry = some e') (ht : e'.retry = some t)
    (hnew : e.retry ≠ some t) :
    t.armedAt = now ∧
    (((env = .sendFail ∨ env = .timeout ∨ env = .error) ∧ t.delay = 10) ∨ (env = .notExists ∧ t.delay = 600)) :=
  retry_delay U now env e e' t he he' ht hnew

/-- a retry request is only ever enqueued by a retry task whose sleep is over -/
theorem C15_retry_not_early (U : User) (now : Nat) (h : (U.retryFires now).issued ≠ U.issued) :
    ∃ e t, U.entry = some e ∧ e.retry = some t ∧ t.armedAt + t.delay * 1024 ≤ now :=
  retry_not_early U now h

/-- **Everything is dropped when the server connection closes**: from any reachable state, after the close
and any further ops that are not calls (worker steps, timers, callbacks, more closes, time), no user has an
entry, flags or state, and no request was or will be sent. -/
theorem C15_drop_on_close (ops after : List Op) (hafter : ∀ op ∈ after, op.isCall = false) (u : Nat) :
    let U := (run State.init (ops ++ [.serverClosed] ++ after)).users u
    U.entry = none ∧ U.flagsOf = Flags.empty ∧ U.stateOf = .untracked ∧ U.frames = [] ∧ U.issued = [] := by
  intro U
  have hd : Dropped U := dropped_after_close ops after hafter u
  exact ⟨hd.1, by simp [User.flagsOf, hd.1], by simp [User.stateOf, hd.1], hd.2.2.2.1, hd.2.1⟩

/-- **The wire mirrors the reasons.** In every reachable state the last AddUser/RemoveUser attempt made for a
user is an AddUser exactly when the reasons the worker holds for that user are non-empty (nothing was ever
attempted, or the last attempt was a RemoveUser, exactly when they are empty). -/
theorem C15_wire_mirrors (ops : List Op) (u : Nat) :
    let U := (run State.init ops).users u
    U.frames.getLast? = some .addUser ↔ U.flagsOf ≠ Flags.empty :=
  wire_of_inv (inv_reach ops u)

/-! ### Session loss and re-derivation: the owners of the reasons (`World`, `WOp` in `Model/Track.lean`)

World histories `wops : List WOp` interleave, in any order: everything above (`.base op`: application calls,
worker steps, timers, the clock, **server closes**), logins, management cycles of the transfer manager, changes
of the friends list and of the transfers (add / finish / queue again / remove). The only hypothesis is
`appOk`: the application itself only ever names REQUESTED (FRIEND and TRANSFER belong to their owners).
`reasons s u` is `R_u`: the fold of every request made for u since the last close. -/

/-- every world history is a history of the tracking manager: all theorems above hold in the world -/
theorem C15_world_is_history (wops : List WOp) :
    ∃ ops, (wrun World.init wops).t = run State.init ops :=
  wrun_is_run wops

/-- **TRANSFER = "has an unfinished transfer".** After a management cycle — until the transfers change or
the server connection closes — the TRANSFER reason of *every* user is set exactly when the user has an
unfinished transfer; and at all times a user without any transfer does not carry it (needs
`fixes/C15-transfer-reason-kept-after-remove.patch`) — a user whose transfer a `remove()` in progress has taken
off the list and who is about to be asked about (`RemovalPending`) excepted, for as long as that takes. A close
clears `cycleRan`: the reason is gone with everything else and is back after the next cycle, whatever happened
in between. -/
theorem C15_transfer_reason (wops : List WOp) (hops : ∀ op ∈ wops, op.appOk = true) (u : Nat) :
    let w := wrun World.init wops
    (w.cycleRan = true → ¬ w.RemovalPending u → (reasons w.t u).tr = decide (w.HasUnfinished u)) ∧
    (¬ w.HasXfer u → ¬ w.RemovalPending u → (reasons w.t u).tr = false) := by
  intro w
  constructor
  · intro hc hp
    rcases (winv_reach wops hops).trSync hc u with h | ⟨h, _⟩
    · exact h
    · exact (hp h).elim
  · intro hx hp
    rcases (winv_reach wops hops).trNone u hx with h | h
    · exact (hp h).elim
    · exact h

/-- **Removals that overlap withdraw the reason all the same.** `remove()` waits in the middle (abort, the
cancelled tasks, the listeners): removals of several transfers of one user may be in progress at once, transfers
may be added and cycles may run meanwhile — in any order of their steps. Once no removal is in progress, a user
without any transfer does not carry TRANSFER (each removal asks "any transfer of that user left?" at its end,
not at its beginning: the last one to end sees none). -/
theorem C15_removals_withdraw (wops : List WOp) (hops : ∀ op ∈ wops, op.appOk = true) (u : Nat) :
    let w := wrun World.init wops
    w.rm = [] → ¬ w.HasXfer u → (reasons w.t u).tr = false := by
  intro w hrm hx
  have hp : ¬ w.RemovalPending u := by
    rintro ⟨r, hr, _⟩
    rw [hrm] at hr
    cases hr
  exact (C15_transfer_reason wops hops u).2 hx hp

/-- `remove()` with nothing else running meanwhile is its three steps in a row -/
theorem C15_remove_is_its_steps (w : World) (id : Nat) :
    wstep w (.trm id) = wrun w [.trmStart id, .trmDrop id, .trmEnd id] := rfl

/-- **FRIEND = "a session exists and the name is in the friends list"**, at all times, for every user other
than the own name — in particular again after every login that follows a close. -/
theorem C15_friend_reason (wops : List WOp) (hops : ∀ op ∈ wops, op.appOk = true) (u : Nat) (hu : u ≠ me) :
    let w := wrun World.init wops
    (reasons w.t u).fr = (w.session && decide (u ∈ w.friends)) := by
  intro w
  cases hs : w.session
  · simpa using (winv_reach wops hops).frOff hs u hu
  · simpa using (winv_reach wops hops).frOn hs u hu

/-- the owners (login, cycle, friends list, transfers) never touch REQUESTED: it is the fold of the
application's own calls since the last close -/
theorem C15_owners_leave_requested (w : World) (op : WOp) (hop : ∀ b, op ≠ .base b) (u : Nat) :
    (reasons (wstep w op).t u).req = (reasons w.t u).req :=
  req_owner_step w op hop u

/-- **What is observable mirrors what can be observed.** In any world state with a session in which a cycle ran
after the last change of the transfers and no `remove()` is about to ask about the user, a user (other than
the own name) whose worker has caught up (`queue = []`) reports exactly these reasons: REQUESTED as the application left it, TRANSFER iff an
unfinished transfer exists, FRIEND iff in the friends list — and the last request made to the server for that
user is an AddUser exactly when one of the three stands. -/
theorem C15_session_mirror (wops : List WOp) (hops : ∀ op ∈ wops, op.appOk = true) (u : Nat) (hu : u ≠ me) :
    let w := wrun World.init wops
    let U := w.t.users u
    w.session = true → w.cycleRan = true → ¬ w.RemovalPending u → U.queue = [] →
      U.flagsOf = ⟨(reasons w.t u).req, decide (w.HasUnfinished u), decide (u ∈ w.friends)⟩ ∧
      (U.frames.getLast? = some .addUser ↔
        ((reasons w.t u).req = true ∨ w.HasUnfinished u ∨ u ∈ w.friends)) := by
  intro w U hs hc hp hq
  obtain ⟨ops, hops'⟩ := wrun_is_run wops
  have hinv : UInv (run State.init ops).now ((run State.init ops).users u) := inv_reach ops u
  have hU : U = (run State.init ops).users u := by show w.t.users u = _; rw [hops']
  rw [← hU] at hinv
  have hfl : U.flagsOf = reasons w.t u := ((edges_of_inv hinv).2.2 hq).2
  have htr := (C15_transfer_reason wops hops u).1 hc hp
  have hfr := (winv_reach wops hops).frOn hs u hu
  have hfl' : U.flagsOf = ⟨(reasons w.t u).req, decide (w.HasUnfinished u), decide (u ∈ w.friends)⟩ := by
    rw [hfl, ← htr, ← hfr]
  refine ⟨hfl', ?_⟩
  rw [wire_of_inv hinv, hfl', Flags.ne_empty_iff]
  simp

/-- **After the next session every still-standing reason is tracked again.** From any reachable world state:
the server connection closes (everything is dropped, `C15_drop_on_close`), the client logs in again and the
transfer manager runs its next cycle. Then the requests made in the new session amount, for every user other
than the own name, to exactly: no REQUESTED (the application has to ask again), TRANSFER iff the user still has
an unfinished transfer, FRIEND iff the name is still in the friends list — transfers and friends list are
untouched by the loss. -/
theorem C15_rederived_after_session_loss (wops : List WOp) (hops : ∀ op ∈ wops, op.appOk = true)
    (u : Nat) (hu : u ≠ me) :
    let w := wrun World.init wops
    let w' := wrun w [.base .serverClosed, .login, .cycle]
    w'.xfers = w.xfers ∧ w'.friends = w.friends ∧ w'.session = true ∧
    reasons w'.t u = ⟨false, decide (w.HasUnfinished u), decide (u ∈ w.friends)⟩ := by
  intro w w'
  have hops' : ∀ op ∈ wops ++ [.base .serverClosed, .login, .cycle], op.appOk = true := by
    intro op hop
    rcases List.mem_append.mp hop with h | h
    · exact hops op h
    · simp at h; rcases h with h | h | h <;> subst h <;> rfl
  have hw' : w' = wrun World.init (wops ++ [.base .serverClosed, .login, .cycle]) := by
    show wrun (wrun World.init wops) _ = _; rw [wrun_append]
  have hinv : WInv w' := hw' ▸ winv_reach _ hops'
  have hx : w'.xfers = w.xfers := rfl
  have hf : w'.friends = w.friends := rfl
  have hs : w'.session = true := rfl
  have hc : w'.cycleRan = true := rfl
  refine ⟨hx, hf, hs, ?_⟩
  have htr : (reasons w'.t u).tr = decide (w'.HasUnfinished u) := by
    rcases hinv.trSync hc u with h | ⟨_, hnx⟩
    · exact h
    · -- no transfer at all: nothing was asked for since the close
      let w2 := wstep (wstep w (.base .serverClosed)) .login
      have hnx2 : ¬ w2.HasXfer u := hnx
      show (reasons (run w2.t w2.cycleOps) u).tr = _
      rw [tr_cycle_no_xfer w2 u hnx2]
      show (reasons (run (wstep w (.base .serverClosed)).t (wstep w (.base .serverClosed)).loginOps) u).tr = _
      rw [tr_login]
      show (reasons (step w.t .serverClosed) u).tr = _
      rw [reasons_closed]
      exact (not_unfinished_of_no_xfer hnx).symm
  have hfr := hinv.frOn hs u hu
  have hreq : (reasons w'.t u).req = false := by
    have h1 : (reasons w'.t u).req = (reasons (wstep (wstep w (.base .serverClosed)) .login).t u).req :=
      req_owner_step _ .cycle (by intro b h; cases h) u
    have h2 : (reasons (wstep (wstep w (.base .serverClosed)) .login).t u).req
        = (reasons (wstep w (.base .serverClosed)).t u).req :=
      req_owner_step _ .login (by intro b h; cases h) u
    rw [h1, h2]
    show (reasons (step w.t .serverClosed) u).req = false
    rw [reasons_closed]; rfl
  have hU : w'.HasUnfinished u ↔ w.HasUnfinished u := Iff.rfl
  cases hr : reasons w'.t u with
  | mk a b c =>
    rw [hr] at htr hfr hreq
    simp only at htr hfr hreq
    subst hreq
    rw [htr, hfr]
    simp [hf, World.HasUnfinished, hx]

/-! ### Non-vacuity: reachable states that meet the hypotheses -/

def fFriend : Flags := ⟨false, false, true⟩

/-- track → AddUser sent → exists: tracked and quiescent -/
example : ((run State.init [.track 0 fReq, .workerStep 0 .sendOk, .workerStep 0 .sendOk,
    .workerStep 0 .exists]).users 0).stateOf = .tracked := by decide

/-- the exit window: the worker returns, a call arrives before its done-callback, then the callback runs —
the new entry survives and its request is served -/
example :
    let U := (run State.init [.track 0 fReq, .workerStep 0 .sendOk, .workerStep 0 .sendOk, .workerStep 0 .exists,
      .untrack 0 fReq, .workerStep 0 .sendOk, .workerStep 0 .sendOk,   -- worker returned, task 0 finished
      .track 0 fFriend, .reap 0 0, .workerStep 0 .sendOk]).users 0
    U.flagsOf = fFriend ∧ U.frames = [.addUser, .removeUser, .addUser] ∧ U.finished = [] := by decide

/-- a failed attempt: retry pending with the documented delay; the timer cannot fire before it is due -/
example :
    let s := run State.init [.advance 7, .track 0 fReq, .workerStep 0 .sendOk, .workerStep 0 .sendFail,
      .retryFires 0, .advance 10239, .retryFires 0]
    (s.users 0).stateOf = .retryPending ∧ (s.users 0).pending = 1 ∧ (s.users 0).fired = 0 := by decide
example :
    let s := run State.init [.advance 7, .track 0 fReq, .workerStep 0 .sendOk, .workerStep 0 .sendFail,
      .advance 10240, .retryFires 0, .workerStep 0 .sendOk]
    (s.users 0).fired = 1 ∧ (s.users 0).frames = [.addUser, .addUser] := by decide

/-- the retry that was called off: the attempt fails, the timer fires while the worker has not run, and the
request it puts ends up behind an untrack + track pair. The user is untracked, tracked again (answered "exists") —
and the stale retry request sends nothing (on the pinned code: a fourth attempt, AddUser to a tracked user) -/
example :
    let s := run State.init [.track 0 fReq, .workerStep 0 .sendOk, .workerStep 0 .sendFail, .advance 10240,
      .untrack 0 fReq, .track 0 fReq, .retryFires 0,
      .workerStep 0 .sendOk, .workerStep 0 .sendOk,                       -- untrack: RemoveUser, sent
      .workerStep 0 .sendOk, .workerStep 0 .sendOk, .workerStep 0 .exists, -- track: AddUser, sent, "exists"
      .workerStep 0 .sendOk]                                              -- the stale retry request
    (s.users 0).frames = [.addUser, .removeUser, .addUser] ∧ (s.users 0).stateOf = .tracked ∧
    (s.users 0).queue = [] ∧ (s.users 0).fired = 1 ∧
    (s.users 0).log = [.add 0, .fail 10240, .remove, .add 10240, .ok] := by decide

/-- the pending retry is honoured: same start, nobody interferes -/
example :
    let s := run State.init [.track 0 fReq, .workerStep 0 .sendOk, .workerStep 0 .sendFail, .advance 10240,
      .retryFires 0]
    (∃ e, (s.users 0).entry = some e ∧ e.live = some 0) ∧
    ((step s (.workerStep 0 .sendOk)).users 0).log = [.add 0, .fail 10240, .add 10240] := by
  refine ⟨⟨_, rfl, rfl⟩, ?_⟩
  decide

/-- calls with a reason satisfy `flagOk`; a close is not a call -/
example : ∀ op ∈ [Op.track 0 fReq, .untrack 1 fFriend, .serverClosed, .advance 3], op.flagOk = true := by decide
example : ∀ op ∈ [Op.workerStep 0 .sendOk, .retryFires 1, .reap 0 0, .serverClosed], op.isCall = false := by decide


/-- a world history with a session loss in the middle: bob (0) has an unfinished download and is a friend,
user 1 is explicitly requested. After close + login + cycle (and the workers catching up) bob is asked for again
with TRANSFER and FRIEND, user 1 is not (the application has to ask again) -/
def lossHistory : List WOp :=
  [.friend 0 true, .tadd 0, .login, .cycle, .base (.track 1 fReq),
   .base (.workerStep 0 .sendOk), .base (.workerStep 0 .sendOk), .base (.workerStep 0 .exists),
   .base (.workerStep 0 .sendOk), .base (.workerStep 1 .sendOk),
   .base .serverClosed, .login, .cycle,
   .base (.workerStep 0 .sendOk), .base (.workerStep 0 .sendOk), .base (.workerStep 0 .exists),
   .base (.workerStep 0 .sendOk)]

example : ∀ op ∈ lossHistory, op.appOk = true := by decide

example :
    let w := wrun World.init lossHistory
    w.session = true ∧ w.cycleRan = true ∧ (w.t.users 0).queue = [] ∧ w.HasUnfinished 0 ∧ 0 ∈ w.friends ∧
    (w.t.users 0).flagsOf = ⟨false, true, true⟩ ∧ (w.t.users 0).frames = [.addUser] ∧
    (w.t.users 0).stateOf = .tracked ∧ (w.t.users 1).flagsOf = Flags.empty ∧ (w.t.users 1).frames = [] := by
  decide

/-- removing the last transfer of a user withdraws TRANSFER (RemoveUser follows) -/
example :
    let w := wrun World.init [.tadd 0, .cycle, .base (.workerStep 0 .sendOk), .base (.workerStep 0 .sendOk),
      .base (.workerStep 0 .exists), .trm 0, .base (.workerStep 0 .sendOk)]
    ¬ w.HasXfer 0 ∧ (w.t.users 0).frames = [.addUser, .removeUser] := by
  decide

/-- two removals of one user's last two transfers that overlap ("clear all"): each takes its transfer off the
list before either asks; the one that ends last sees no transfer left and withdraws the reason -/
example :
    let w := wrun World.init [.tadd 0, .tadd 0, .cycle, .base (.workerStep 0 .sendOk), .base (.workerStep 0 .sendOk),
      .base (.workerStep 0 .exists), .trmStart 0, .trmStart 1, .trmDrop 0, .trmDrop 1, .trmEnd 0, .trmEnd 1,
      .base (.workerStep 0 .sendOk)]
    w.rm = [] ∧ ¬ w.HasXfer 0 ∧ (w.t.users 0).frames = [.addUser, .removeUser] ∧
    (reasons w.t 0).tr = false := by
  decide

/-- a transfer of the same user is added while the only one is being removed: at its end the removal sees the
new transfer and leaves the reason alone -/
example :
    let w := wrun World.init [.tadd 0, .cycle, .base (.workerStep 0 .sendOk), .base (.workerStep 0 .sendOk),
      .base (.workerStep 0 .exists), .trmStart 0, .trmDrop 0, .tadd 0, .trmEnd 0, .base (.workerStep 0 .sendOk)]
    w.rm = [] ∧ w.HasUnfinished 0 ∧ (w.t.users 0).frames = [.addUser] ∧ (reasons w.t 0).tr = true := by
  decide

/-- between `trmDrop` and `trmEnd` the user is `RemovalPending`: the exception in `C15_transfer_reason` is met -/
example :
    let w := wrun World.init [.tadd 0, .cycle, .trmStart 0, .trmDrop 0, .cycle]
    w.cycleRan = true ∧ w.RemovalPending 0 ∧ ¬ w.HasXfer 0 ∧ (reasons w.t 0).tr = true := by
  decide

end AioslskVerif.C15
