import AioslskVerif.Proofs.Track
/-!
# C15 — user tracking on the server mirrors the set of reasons to track

Property theorems only (model: `Model/Track.lean` = the code **with** `fixes/C15-lost-call-in-exit-window.patch`
and `fixes/C15-swallowed-cancel-on-close.patch`; helpers: `Proofs/Track.lean`).

Every theorem quantifies over **all** op lists `ops` from the initial state, i.e. over every interleaving of
calls (`track`/`untrack`, any user, any flags), worker steps with any network behaviour (`workerStep u env`),
retry timers firing (never early), done-callbacks (`reap`), server closes and clock advances. Histories
(`issued`, `processed`, `frames`, …) are per user and start again at every server close.
Time unit: tick = 1/1024 s.
-/
namespace AioslskVerif.C15
open AioslskVerif.Track AioslskVerif.Generated.Track

/-- **No call is ever lost.** In every reachable state the requests already applied by the worker followed
by the requests still queued are exactly the requests made, in order. (On the pinned code a request put on
the queue of a worker that has returned but whose done-callback has not run is in neither list.) -/
theorem C15_no_lost_op (ops : List Op) (u : Nat) :
    let U := (run State.init ops).users u
    U.processed ++ U.queue = U.issued :=
  (inv_reach ops u).lost

/-- the done-callback of a finished worker never removes a live entry (fix 1: identity check) -/
theorem C15_reap_harmless (ops : List Op) (u g : Nat) :
    let s := run State.init ops
    ((step s (.reap u g)).users u).entry = (s.users u).entry := by
  intro s
  show ((s.upd u ((s.users u).reap g)).users u).entry = _
  simp only [State.upd, if_true]
  exact reap_entry_of_inv (inv_reach ops u) g

/-- what one request must put on the wire, by cases: RemoveUser exactly on non-empty→empty, AddUser exactly
on empty→non-empty, nothing otherwise — except that a retry request re-sends AddUser while a reason remains -/
theorem C15_edge_cases (f : Flags) (r : Req) :
    (f ≠ Flags.empty → r.apply f = Flags.empty → edge f r = [.removeUser]) ∧
    (f = Flags.empty → r.apply f ≠ Flags.empty → edge f r = [.addUser]) ∧
    (f = Flags.empty → r.apply f = Flags.empty → edge f r = []) ∧
    (f ≠ Flags.empty → r.apply f ≠ Flags.empty → r.isRetry = false → edge f r = []) ∧
    (f ≠ Flags.empty → r.isRetry = true → edge f r = [.addUser]) :=
  edge_cases f r

/-- **Edges.** The AddUser/RemoveUser attempts made are exactly the edge-triggered fold (`specFrames`: one
`edge` per request) of the requests the worker has applied, and the reasons it holds are their fold; once
nothing is queued both equal the fold of **all** requests made (calls and retry firings, in issue order). -/
theorem C15_edges (ops : List Op) (u : Nat) :
    let U := (run State.init ops).users u
    U.frames = specFrames U.processed ∧ U.flagsOf = specFlags U.processed ∧
    (U.queue = [] → U.frames = specFrames U.issued ∧ U.flagsOf = specFlags U.issued) :=
  edges_of_inv (inv_reach ops u)

/-- **State.** When the user is quiescent (nothing queued, worker waiting for requests, or no entry) the
reported state is `tracked` exactly when the reasons — the fold of all requests made — are non-empty and the
last answer to an AddUser attempt said the user exists; it is `untracked` exactly when they are empty. -/
theorem C15_state_iff (ops : List Op) (u : Nat) :
    let U := (run State.init ops).users u
    U.Quiescent →
      U.flagsOf = specFlags U.issued ∧
      (U.stateOf = .tracked ↔ U.flagsOf ≠ Flags.empty ∧ U.outcomes.getLast? = some .exists) ∧
      (U.stateOf = .untracked ↔ U.flagsOf = Flags.empty) :=
  state_of_inv (inv_reach ops u)

/-- the documented delays (DESIGN.md C15 reading): 10 s after a network error or no answer within 10 s,
600 s after "user does not exist" — pinned against the constants regenerated from the source -/
theorem C15_documented_delays :
    delaySendFail = 10 ∧ delayTimeout = 10 ∧ delayError = 10 ∧ delayNotExists = 600 ∧ responseTimeout = 10 ∧
    retryNetError = 10 ∧ retryNonExisting = 600 :=
  documented_delays

/-- **Retries only while a reason remains.** In every reachable state a sleeping retry task implies a
non-empty set of reasons, was started in the past with one of the documented delays, and the number of retry
timers that have fired or are pending never exceeds the number of failed attempts; a network call in flight
for AddUser implies a non-empty set of reasons, one for RemoveUser implies an empty one and no retry task. -/
theorem C15_retry_only_while_reason (ops : List Op) (u : Nat) :
    let s := run State.init ops
    let U := s.users u
    (∀ e t, U.entry = some e → e.retry = some t →
        e.flags ≠ Flags.empty ∧ t.armedAt ≤ s.now ∧ (t.delay = 10 ∨ t.delay = 600)) ∧
    U.fired + U.pending ≤ U.failed ∧
    (∀ e, U.entry = some e → (e.pc = .sendAdd ∨ ∃ d, e.pc = .waitResp d) → e.flags ≠ Flags.empty) ∧
    (∀ e, U.entry = some e → e.pc = .sendRemove → e.flags = Flags.empty ∧ e.retry = none) :=
  retry_of_inv (inv_reach ops u)

/-- when every call names at least one reason, the retry requests among the requests made are exactly the
timer firings — hence at most as many as failed attempts -/
theorem C15_retries_from_timers (ops : List Op) (hops : ∀ op ∈ ops, op.flagOk = true) (u : Nat) :
    let U := (run State.init ops).users u
    (U.issued.filter Req.isRetry).length = U.fired ∧ U.fired ≤ U.failed :=
  ⟨rinv_reach ops hops u, Nat.le_trans (Nat.le_add_right _ _) (inv_reach ops u).count⟩

/-- a worker step that starts a retry task is a failed attempt, and the task sleeps the documented delay
for that kind of failure, counted from now -/
theorem C15_retry_delay (U : User) (now : Nat) (env : Env) (e e' : Entry) (t : Timer)
    (he : U.entry = some e) (he' : (U.worker now env).entry = some e') (ht : e'.retry = some t)
    (hnew : e.retry ≠ some t) :
    t.armedAt = now ∧
    (((env = .sendFail ∨ env = .timeout ∨ env = .error) ∧ t.delay = 10) ∨ (env = .notExists ∧ t.delay = 600)) :=
  retry_delay U now env e e' t he he' ht hnew

/-- a retry request is only ever enqueued by a retry task whose sleep is over -/
theorem C15_retry_not_early (U : User) (now : Nat) (h : (U.retryFires now).issued ≠ U.issued) :
    ∃ e t, U.entry = some e ∧ e.retry = some t ∧ t.armedAt + t.delay * 1024 ≤ now :=
  retry_not_early U now h

/-- **Everything is dropped when the server connection closes**: from any reachable state, after the close
and any further ops that are not calls (worker steps, timers, callbacks, more closes, time), no user has an
entry, flags or state, and no request was or will be sent. -/
theorem C15_drop_on_close (ops after : List Op) (hafter : ∀ op ∈ after, op.isCall = false) (u : Nat) :
    let U := (run State.init (ops ++ [.serverClosed] ++ after)).users u
    U.entry = none ∧ U.flagsOf = Flags.empty ∧ U.stateOf = .untracked ∧ U.frames = [] ∧ U.issued = [] := by
  intro U
  have hd : Dropped U := dropped_after_close ops after hafter u
  exact ⟨hd.1, by simp [User.flagsOf, hd.1], by simp [User.stateOf, hd.1], hd.2.2.2.1, hd.2.1⟩

/-! ### Non-vacuity: reachable states that meet the hypotheses -/

def fReq : Flags := ⟨true, false, false⟩
def fFriend : Flags := ⟨false, false, true⟩

/-- track → AddUser sent → exists: tracked and quiescent -/
example : ((run State.init [.track 0 fReq, .workerStep 0 .sendOk, .workerStep 0 .sendOk,
    .workerStep 0 .exists]).users 0).stateOf = .tracked := by decide

/-- the exit window: the worker returns, a call arrives before its done-callback, then the callback runs —
the new entry survives and its request is served -/
example :
    let U := (run State.init [.track 0 fReq, .workerStep 0 .sendOk, .workerStep 0 .sendOk, .workerStep 0 .exists,
      .untrack 0 fReq, .workerStep 0 .sendOk, .workerStep 0 .sendOk,   -- worker returned, task 0 finished
      .track 0 fFriend, .reap 0 0, .workerStep 0 .sendOk]).users 0
    U.flagsOf = fFriend ∧ U.frames = [.addUser, .removeUser, .addUser] ∧ U.finished = [] := by decide

/-- a failed attempt: retry pending with the documented delay; the timer cannot fire before it is due -/
example :
    let s := run State.init [.advance 7, .track 0 fReq, .workerStep 0 .sendOk, .workerStep 0 .sendFail,
      .retryFires 0, .advance 10239, .retryFires 0]
    (s.users 0).stateOf = .retryPending ∧ (s.users 0).pending = 1 ∧ (s.users 0).fired = 0 := by decide
example :
    let s := run State.init [.advance 7, .track 0 fReq, .workerStep 0 .sendOk, .workerStep 0 .sendFail,
      .advance 10240, .retryFires 0, .workerStep 0 .sendOk]
    (s.users 0).fired = 1 ∧ (s.users 0).frames = [.addUser, .addUser] := by decide

/-- calls with a reason satisfy `flagOk`; a close is not a call -/
example : ∀ op ∈ [Op.track 0 fReq, .untrack 1 fFriend, .serverClosed, .advance 3], op.flagOk = true := by decide
example : ∀ op ∈ [Op.workerStep 0 .sendOk, .retryFires 1, .reap 0 0, .serverClosed], op.isCall = false := by decide

end AioslskVerif.C15
