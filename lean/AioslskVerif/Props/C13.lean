import AioslskVerif.Proofs.DistAnnounced
/-!
# C13 — distributed tree: one parent, bounded live children, truthful advertised place

Property theorems only. Model: `Model/Dist.lean` (the handlers of `DistributedNetwork`, atomic) under the small-step
layer `Model/DistSusp.lean` (sends to the server that do not return at once, child sockets that block or are dead);
the derived position `Derived` / `Degenerate`: `Spec/DistTree.lean`; the admission limits as the property reads them:
`Spec/DistLimits.lean`; invariants and helper lemmas: `Proofs/Dist.lean`, `Proofs/DistSusp.lean`.

Every theorem quantifies over **all** op lists of the small-step layer (`xrun ops`, `ops : List XOp`): any number of
peers / connections, any values, the server socket blocked and released at any moment (`srvBlock` / `srvRelease`)
with any events handled meanwhile, any child socket dead (`arm`) or blocked. `C13_atomic_model_refined` shows that the
atomic histories (`run`, also the tree model of C14) are the special case without such ops.

Reading (DESIGN.md, C13). `derived` = (parent.level + 1, parent.root, search off) when there is a parent,
(0, own name, search on) otherwise. Truthfulness is demanded while a session exists (the own name is the
session's user) and not for the degenerate announcement "parent's root = own name". The server has been told the
derived position **at all times**; the children have been told it whenever no handler is suspended on its way to
them (`pend = []`: the code tells the server first and awaits that send), in particular after every release.
"Parent not among the children" is read on users: no child has the parent's user name (hence also not the parent's
connection). A child admission is judged against the limits that follow from the statistics **handled** last
(`Spec/DistLimits.lean`): a new limit binds in the step that handles the statistics.
-/
namespace AioslskVerif.C13
open AioslskVerif.Dist

/-- **At most one parent**: `parent` is a single optional reference, the peer it refers to is registered
exactly once (no duplicate `DistributedPeer` records), and it has announced both level and root. -/
theorem C13_one_parent (ops : List XOp) :
    (∀ c c', (xrun ops).d.parent = some c → (xrun ops).d.parent = some c' → c = c') ∧
    (xrun ops).d.live.Nodup ∧
    (∀ c, (xrun ops).d.parent = some c → ((xrun ops).d.level c).isSome ∧ ((xrun ops).d.root c).isSome) := by
  refine ⟨?_, (xrun_xinv ops).binv.str.liveNodup, (xrun_xinv ops).binv.str.parentComplete⟩
  intro c c' h h'
  rw [h] at h'
  exact Option.some.inj h'

/-- **The parent is not among the children** — neither its connection nor any connection of the same user. -/
theorem C13_parent_not_child (ops : List XOp) (c : ConnId) (h : (xrun ops).d.parent = some c) :
    c ∉ (xrun ops).d.children ∧ ∀ d ∈ (xrun ops).d.children, (xrun ops).d.name d ≠ (xrun ops).d.name c := by
  have hp := (xrun_xinv ops).binv.str.pnc c h
  exact ⟨fun hm => hp c hm rfl, hp⟩

/-- **Parent and children are live distributed connections**: registered in `distributed_peers` and their `CLOSED`
event has not been seen (also not by a handler that is still suspended); no connection is listed twice as a child. -/
theorem C13_live (ops : List XOp) :
    (∀ c, (xrun ops).d.parent = some c → (xrun ops).alive c) ∧
    (∀ d ∈ (xrun ops).d.children, (xrun ops).alive d) ∧ (xrun ops).d.children.Nodup := by
  have hb := (xrun_xinv ops).binv
  refine ⟨?_, ?_, hb.str.childNodup⟩
  · intro c hc; exact ⟨hb.str.parentLive c hc, fun hm => hb.closingNP c hm hc⟩
  · intro d hd; exact ⟨hb.str.childLive d hd, fun hm => hb.closingNC d hm hd⟩

/-- "live" means what it says: once the `CLOSED` event of a connection has been handed over the connection is
not live any more (so by `C13_live` it is neither parent nor child) — also while its handler is suspended. -/
theorem C13_live_closed (ops : List XOp) (c : ConnId) : ¬ (xrun (ops ++ [.base (.closed c)])).alive c := by
  have hs := (xrun_xinv ops).binv.str
  simp only [xrun, List.foldl_append, List.foldl_cons, List.foldl_nil]
  exact closed_not_alive (List.foldl xstep XState.init ops) c hs

/-- **Child admission.** A connection joins the children only in the step that created it as an incoming
(not requested) distributed connection, and only if in the state before that step child acceptance was on and
the number of children was below the current maximum — whatever sends are suspended at that moment. -/
theorem C13_child_admission (ops : List XOp) (op : XOp) (d : ConnId)
    (h : d ∈ (xrun (ops ++ [op])).d.children) (hn : d ∉ (xrun ops).d.children) :
    ∃ n, op = .base (.initialized n false) ∧ d = (xrun ops).d.nextConn ∧
      (xrun ops).d.accept = true ∧ (xrun ops).d.children.length < (xrun ops).d.maxChildren := by
  have h' : d ∈ (xstep (xrun ops) op).d.children := by simpa [xrun, List.foldl_append] using h
  obtain ⟨n, h1, h2, h3, h4, _, _⟩ := xstep_children (xrun ops) op d (xrun_xinv ops) h' hn
  exact ⟨n, h1, h2, h3, h4⟩

/-- **A new limit binds in the step that handles the statistics.** After every history — with the `AcceptChildren`
send (or any other send to the server) suspended or not — `_accept_children` / `_max_children` are the limits that
follow from the own-user statistics handled so far (`Spec/DistLimits.lean`); no other step, in particular no
resumption of a suspended handler, assigns them. -/
theorem C13_limits_bind_at_stats (ops : List XOp) :
    (xrun ops).d.accept = (limits ops).accept ∧ (xrun ops).d.maxChildren = (limits ops).max := by
  have h := lim_xrun ops
  exact ⟨congrArg Lim.accept h, congrArg Lim.max h⟩

/-- **The maximum is the documented one, over the whole wire domain** (docs/source/SOULSEEK.rst, "Max children":
`divider = (ratio / 10) * 1024`, `max = floor(avg_speed / divider)`, read over the rationals). For every speed and every
non-zero ratio — any natural numbers, not only the values the real server sends — `k` children are within the maximum
exactly when `k * divider ≤ speed`, i.e. `k * (ratio * 1024) ≤ speed * 10`. The literals are those of the document;
the model's come from the code (`Generated/DistConstants.lean`). -/
theorem C13_max_children_documented (speed ratio : Nat) (hr : 0 < ratio) (k : Nat) :
    k ≤ maxChildrenOf speed ratio ↔ k * (ratio * 1024) ≤ speed * 10 := by
  -- the code's literals are the document's up to a common factor (they are the document's: the factor is 1)
  obtain ⟨g, hg, h10, h1024⟩ : ∃ g, 0 < g ∧ Generated.Dist.ratioDiv * g = 10 ∧
      Generated.Dist.speedUnit * g = 1024 := ⟨1024 / Generated.Dist.speedUnit, by decide, by decide, by decide⟩
  have hu : 0 < Generated.Dist.speedUnit := by decide
  unfold maxChildrenOf
  rw [Nat.le_div_iff_mul_le (Nat.mul_pos hr hu), ← h10, ← h1024]
  have e1 : k * (ratio * (Generated.Dist.speedUnit * g)) = k * (ratio * Generated.Dist.speedUnit) * g := by
    simp only [Nat.mul_assoc]
  have e2 : speed * (Generated.Dist.ratioDiv * g) = speed * Generated.Dist.ratioDiv * g := by
    simp only [Nat.mul_assoc]
  rw [e1, e2]
  exact (Nat.mul_le_mul_right_iff hg).symm

/-- … hence the maximum is *the* floor: the one number `m` with `m * divider ≤ speed < (m + 1) * divider`. -/
theorem C13_max_children_is_floor (speed ratio : Nat) (hr : 0 < ratio) (m : Nat) :
    maxChildrenOf speed ratio = m ↔ m * (ratio * 1024) ≤ speed * 10 ∧ speed * 10 < (m + 1) * (ratio * 1024) := by
  have h := C13_max_children_documented speed ratio hr
  constructor
  · intro e
    subst e
    refine ⟨(h _).1 (Nat.le_refl _), ?_⟩
    apply Nat.lt_of_not_le
    intro hle
    exact Nat.not_succ_le_self _ ((h _).2 hle)
  · intro ⟨h1, h2⟩
    apply Nat.le_antisymm
    · apply Nat.le_of_lt_succ
      apply Nat.lt_of_not_le
      intro hle
      exact Nat.lt_irrefl _ (Nat.lt_of_lt_of_le h2 ((h _).1 hle))
    · exact (h _).2 h1

/-- **The limits in force are the documented ones after every history.** When the statistics of the logged-in user
are handled — after any history, with any `ParentMinSpeed` / `ParentSpeedRatio` received on this server connection
(the defaults otherwise), sends suspended or not — child acceptance is on exactly when the speed reaches
`min_speed * 1024`, the maximum is 0 when it is off, and when it is on (non-zero ratio) `k` children are within the
maximum exactly when `k * (ratio * 1024) ≤ speed * 10`. -/
theorem C13_limit_is_documented (ops : List XOp) (n : Name) (speed : Nat)
    (hs : (xrun ops).d.session = some n) :
    let ms := ((xrun ops).d.minSpeed).getD Generated.Dist.defaultMinSpeed
    let r := ((xrun ops).d.ratio).getD Generated.Dist.defaultSpeedRatio
    let after := (xrun (ops ++ [.base (.userStats n speed)])).d
    (after.accept = true ↔ ms * 1024 ≤ speed) ∧
    (after.accept = false → after.maxChildren = 0) ∧
    (after.accept = true → 0 < r → ∀ k, k ≤ after.maxChildren ↔ k * (r * 1024) ≤ speed * 10) := by
  intro ms r after
  have ha : after = onUserStats (xrun ops).d n speed := by
    simp only [after, xrun, List.foldl_append, List.foldl_cons, List.foldl_nil]
    rfl
  have hms : Generated.Dist.minSpeedUnit = 1024 := rfl
  by_cases h1 : speed < ms * 1024
  · have e : after = { (xrun ops).d with accept := false, maxChildren := 0, lastAccept := some false,
                                          nAccept := (xrun ops).d.nAccept + 1 } := by
      rw [ha]; unfold onUserStats; rw [if_pos hs, hms]; exact if_pos h1
    rw [e]
    refine ⟨⟨fun h => Bool.noConfusion h, fun h => absurd h1 (Nat.not_lt.2 h)⟩, fun _ => rfl,
      fun h => Bool.noConfusion h⟩
  · by_cases h2 : r = 0
    · have e : after = { (xrun ops).d with accept := true } := by
        rw [ha]; unfold onUserStats; rw [if_pos hs, hms]
        show (if speed < ms * 1024 then _ else if r = 0 then _ else _) = _
        rw [if_neg h1, if_pos h2]
      rw [e]
      exact ⟨⟨fun _ => Nat.not_lt.1 h1, fun _ => rfl⟩, fun h => Bool.noConfusion h,
        fun _ h0 => absurd h2 (Nat.pos_iff_ne_zero.1 h0)⟩
    · have e : after = { (xrun ops).d with accept := true, maxChildren := maxChildrenOf speed r,
                                            lastAccept := some true, nAccept := (xrun ops).d.nAccept + 1 } := by
        rw [ha]; unfold onUserStats; rw [if_pos hs, hms]
        show (if speed < ms * 1024 then _ else if r = 0 then _ else _) = _
        rw [if_neg h1, if_neg h2]
      rw [e]
      exact ⟨⟨fun _ => Nat.not_lt.1 h1, fun _ => rfl⟩, fun h => Bool.noConfusion h,
        fun _ h0 k => C13_max_children_documented speed r h0 k⟩

/-- **Admission against the statistics handled last**: every admission happens while the limits machine says that
acceptance is on and that the number of children is below the maximum. -/
theorem C13_admission_by_last_stats (ops : List XOp) (op : XOp) (d : ConnId)
    (h : d ∈ (xrun (ops ++ [op])).d.children) (hn : d ∉ (xrun ops).d.children) :
    (limits ops).accept = true ∧ (xrun ops).d.children.length < (limits ops).max := by
  obtain ⟨_, _, _, h3, h4⟩ := C13_child_admission ops op d h hn
  obtain ⟨e1, e2⟩ := C13_limits_bind_at_stats ops
  exact ⟨e1 ▸ h3, e2 ▸ h4⟩

/-- **A proposed potential parent is not taken as child**: the user of a newly admitted child is not in the
potential-parent cache, and is not the current parent's user. -/
theorem C13_candidate_not_child (ops : List XOp) (op : XOp) (d : ConnId)
    (h : d ∈ (xrun (ops ++ [op])).d.children) (hn : d ∉ (xrun ops).d.children) :
    ∃ n, op = .base (.initialized n false) ∧ n ∉ (xrun ops).d.potential ∧ (xrun ops).d.parentName ≠ some n := by
  have h' : d ∈ (xstep (xrun ops) op).d.children := by simpa [xrun, List.foldl_append] using h
  obtain ⟨n, h1, _, _, _, h5, h6⟩ := xstep_children (xrun ops) op d (xrun_xinv ops) h' hn
  exact ⟨n, h1, h5, h6⟩

/-- the cache keeps the most recent proposals: after `PotentialParents ns` the last `cacheSize` names of
`ns` are in the cache (all of `ns` when `ns.length ≤ cacheSize`). -/
theorem C13_cache_keeps_latest (ops : List XOp) (ns : List Name) (n : Name)
    (h : n ∈ ns.drop (ns.length - Generated.Dist.cacheSize)) :
    n ∈ (xrun (ops ++ [.base (.potentialParents ns)])).d.potential := by
  simp only [xrun, List.foldl_append, List.foldl_cons, List.foldl_nil]
  show n ∈ extendCache (List.foldl xstep XState.init ops).d.potential ns
  unfold extendCache
  generalize (List.foldl xstep XState.init ops).d.potential = l
  have hk : (l ++ ns).length - Generated.Dist.cacheSize
      = l.length + (ns.length - Generated.Dist.cacheSize) ∨
      (l ++ ns).length - Generated.Dist.cacheSize ≤ l.length := by
    simp only [List.length_append]; omega
  rcases hk with hk | hk
  · rw [hk, List.drop_append]
    simp only [Nat.add_sub_cancel_left]
    exact List.mem_append_right _ h
  · rw [List.drop_append_of_le_length hk]
    exact List.mem_append_right _ (List.mem_of_mem_drop h)

/-- **Truthful to the server, at all times.** While logged in, the last `BranchLevel / BranchRoot /
ToggleParentSearch` written on the current server connection are the position derived from the current parent — after
every history, including re-announcements by the parent, loss of the parent, session loss / re-login, and also while
handlers are suspended in their sends to the server (the frames are written before the handler waits). -/
theorem C13_truthful_server (ops : List XOp) (me : Name) (hs : (xrun ops).d.session = some me)
    (hd : ¬ Degenerate (xrun ops).d me) :
    ∃ a search, (xrun ops).d.toldServer = some (a, search) ∧ Derived (xrun ops).d me a search :=
  ⟨_, _, (xrun_xinv ops).toldS me hs, adv_derived_s _ me (xrun_xinv ops).binv.str hd⟩

/-- **Truthful to every child.** While logged in and with no handler suspended on its way to the children, the last
`DistributedBranchLevel` written to every current child is the derived level, and the last `DistributedBranchRoot` the
derived root (for level 0 the root may never have been written to a newly added child, as the protocol allows) —
whichever child sockets were dead or blocked when the position changed. -/
theorem C13_truthful_children (ops : List XOp) (me : Name) (hs : (xrun ops).d.session = some me)
    (hd : ¬ Degenerate (xrun ops).d me) (hq : (xrun ops).pend = []) (d : ConnId)
    (hc : d ∈ (xrun ops).d.children) :
    ∃ a search, Derived (xrun ops).d me a search ∧
      (xrun ops).d.toldL d = some a.level ∧
      ((xrun ops).d.toldR d = some a.root ∨ ((xrun ops).d.toldR d = none ∧ a.level = 0)) :=
  ⟨_, _, adv_derived_s _ me (xrun_xinv ops).binv.str hd,
   (xinv_settled _ (xrun_xinv ops) hq).told.toldC me hs d hc⟩

/-- **The position kept for a live connection is the position it announced** — by the protocol's own rule
(`Spec/DistAnnounced.lean`: a level sets the level, level 0 makes the peer its own root whatever root it announced
before, a root sets the root; a fold over the events alone, independent of the handlers). After every history, for
every registered connection whose `CLOSED` event has not been seen — in particular the parent and every candidate. -/
theorem C13_position_is_announced (ops : List XOp) (c : ConnId) (h : (xrun ops).alive c) :
    (xrun ops).d.level c = (announced ops).level c ∧ (xrun ops).d.root c = (announced ops).root c ∧
    (xrun ops).d.name c = (announced ops).name c := (agree_xrun ops).2 c h

/-- **Level 0 means "I am the root of my branch"**: when a live connection announces level 0 — after any history,
whatever root it announced before, with no root message behind it — its position is `(0, its own user)`. -/
theorem C13_level_zero_is_own_root (ops : List XOp) (c : ConnId)
    (h : (xrun (ops ++ [.base (.level c 0)])).alive c) :
    (xrun (ops ++ [.base (.level c 0)])).d.level c = some 0 ∧
    (xrun (ops ++ [.base (.level c 0)])).d.root c = some ((xrun (ops ++ [.base (.level c 0)])).d.name c) := by
  obtain ⟨h1, h2, h3⟩ := C13_position_is_announced _ c h
  have e : announced (ops ++ [.base (.level c 0)]) = annStep (announced ops) (.base (.level c 0)) := by
    simp only [announced, List.foldl_append, List.foldl_cons, List.foldl_nil]
  rw [h1, h2, h3, e]
  show upd (announced ops).level c (some 0) c = some 0 ∧
    (if 0 = 0 then upd (announced ops).root c (some ((announced ops).name c)) else (announced ops).root) c =
      some ((announced ops).name c)
  rw [if_pos rfl]
  exact ⟨upd_self _ _ _, upd_self _ _ _⟩

/-- the degenerate announcement, read on the books or on the announcements: the same thing -/
theorem C13_degenerate_iff (ops : List XOp) (me : Name) :
    Degenerate (xrun ops).d me ↔ DegenerateAnn (xrun ops).d (announced ops) me := by
  constructor
  · intro ⟨c, hp, hr⟩
    exact ⟨c, hp, (C13_position_is_announced ops c ((C13_live ops).1 c hp)).2.1 ▸ hr⟩
  · intro ⟨c, hp, hr⟩
    exact ⟨c, hp, (C13_position_is_announced ops c ((C13_live ops).1 c hp)).2.1.symm ▸ hr⟩

/-- **Truthful to the server about what the parent ANNOUNCED.** `C13_truthful_server` with "the parent's level and
root" read off the parent's announcements by the protocol rule instead of the handlers' own notes: a parent that
announced `(2, r)` and later only level 0 leaves the server told `(1, the parent's user)`. -/
theorem C13_truthful_server_announced (ops : List XOp) (me : Name) (hs : (xrun ops).d.session = some me)
    (hd : ¬ DegenerateAnn (xrun ops).d (announced ops) me) :
    ∃ a search, (xrun ops).d.toldServer = some (a, search) ∧
      DerivedAnn (xrun ops).d (announced ops) me a search := by
  obtain ⟨a, s, ht, hder⟩ := C13_truthful_server ops me hs (fun h => hd ((C13_degenerate_iff ops me).1 h))
  exact ⟨a, s, ht, derived_announced ops me a s hder⟩

/-- **Truthful to every child about what the parent ANNOUNCED** (as `C13_truthful_children`). -/
theorem C13_truthful_children_announced (ops : List XOp) (me : Name) (hs : (xrun ops).d.session = some me)
    (hd : ¬ DegenerateAnn (xrun ops).d (announced ops) me) (hq : (xrun ops).pend = []) (d : ConnId)
    (hc : d ∈ (xrun ops).d.children) :
    ∃ a search, DerivedAnn (xrun ops).d (announced ops) me a search ∧
      (xrun ops).d.toldL d = some a.level ∧
      ((xrun ops).d.toldR d = some a.root ∨ ((xrun ops).d.toldR d = none ∧ a.level = 0)) := by
  obtain ⟨a, s, hder, h1, h2⟩ :=
    C13_truthful_children ops me hs (fun h => hd ((C13_degenerate_iff ops me).1 h)) hq d hc
  exact ⟨a, s, derived_announced ops me a s hder, h1, h2⟩

/-- **When the server socket drains no handler stays suspended** — so after every release (and whenever the socket
is not blocked) `C13_truthful_children` applies. -/
theorem C13_release_settles (ops : List XOp) :
    (xrun (ops ++ [.srvRelease])).pend = [] ∧ ((xrun ops).srvBlocked = false → (xrun ops).pend = []) := by
  refine ⟨?_, (xrun_xinv ops).binv.unblocked⟩
  simp only [xrun, List.foldl_append, List.foldl_cons, List.foldl_nil]
  exact (srvRelease_xinv _ (foldl_xstep_xinv ops _ xinit_xinv)).2

/-- **Every child in the list at the time of the change is sent the new values, regardless of what happens to the
others** (`send_messages_to_children`, one write task per child and message): a child whose socket is not dead is
told, whichever other sockets are dead; a blocked child socket makes nobody wait. -/
theorem C13_each_child_told (x : XState) (a : Adv) (c : ConnId) (hc : c ∈ x.d.children) (ha : c ∉ x.armed) :
    (tell x a).d.toldL c = some a.level ∧ (tell x a).d.toldR c = some a.root ∧ c ∈ (tell x a).d.children ∧
    (∀ e, xstep x (.childBlock e) = x ∧ xstep x (.childRelease e) = x) :=
  ⟨(tell_told x a c hc ha).1, (tell_told x a c hc ha).2, mem_tell_children.2 ⟨hc, ha⟩, fun _ => ⟨rfl, rfl⟩⟩

/-- **The atomic model is the special case**: a history without blocked / dead sockets runs exactly as in
`Model/Dist.lean` (whose `run` is also the tree model of C14). -/
theorem C13_atomic_model_refined (ops : List Op) : xrun (ops.map XOp.base) = { d := run ops } := xrun_base ops

/-! Non-vacuity: a reachable state with a session, a parent (connection 1, user 1, re-announced level 5, root 7)
and a child (connection 0, user 2); the hypotheses of the theorems above hold there, and the values told are
the derived ones. -/
def demo : List XOp :=
  [.base (.sessionInit 0), .base (.initialized 2 false), .base (.potentialParents [1, 3]),
   .base (.initialized 1 true), .base (.initialized 3 true), .base (.level 1 3), .base (.root 1 7),
   .base (.level 1 5)]

example : (xrun demo).d.session = some 0 ∧ (xrun demo).d.parent = some 1 ∧ (xrun demo).d.children = [0] ∧
    (xrun demo).d.live = [0, 1] ∧ (xrun demo).pend = [] := by decide
example : ¬ Degenerate (xrun demo).d 0 := by
  intro ⟨c, h1, h2⟩
  have : c = 1 := by
    have : (xrun demo).d.parent = some 1 := by decide
    rw [this] at h1; exact (Option.some.inj h1).symm
  subst this
  revert h2; decide
example : (xrun demo).d.toldServer = some (⟨6, 7⟩, false) ∧ (xrun demo).d.toldL 0 = some 6 ∧
    (xrun demo).d.toldR 0 = some 7 := by decide
-- a child is admitted in the last step of this history (the premise of `C13_child_admission`)
example : 0 ∈ (xrun ([.base (.sessionInit 0)] ++ [.base (.initialized 2 false)])).d.children ∧
    0 ∉ (xrun [.base (.sessionInit 0)]).d.children := by decide
-- the degenerate announcement is reachable (which is why it is named in the hypotheses)
example : Degenerate
    (xrun [.base (.sessionInit 0), .base (.initialized 1 true), .base (.level 0 2), .base (.root 0 0)]).d 0 :=
  ⟨0, by decide, by decide⟩

/-! The protocol's implicit root: the parent (connection 1, user 1) announced `(2, 7)`, child 0 and the server were told
`(3, 7)`; then it announces level 0 and nothing else — it is its own root now: `(1, 1)` is told; a level alone
afterwards keeps that root. The same for a candidate that announces a root first and then level 0. -/
def demoRoot : List XOp :=
  [.base (.sessionInit 0), .base (.initialized 2 false), .base (.potentialParents [1]),
   .base (.initialized 1 true), .base (.level 1 2), .base (.root 1 7)]

example : (xrun demoRoot).d.toldServer = some (⟨3, 7⟩, false) ∧ (xrun demoRoot).d.toldR 0 = some 7 := by decide
example : (xrun (demoRoot ++ [.base (.level 1 0)])).alive 1 := ⟨by decide, by decide⟩
example : (xrun (demoRoot ++ [.base (.level 1 0)])).d.toldServer = some (⟨1, 1⟩, false) ∧
    (xrun (demoRoot ++ [.base (.level 1 0)])).d.toldL 0 = some 1 ∧
    (xrun (demoRoot ++ [.base (.level 1 0)])).d.toldR 0 = some 1 ∧
    (announced (demoRoot ++ [.base (.level 1 0)])).root 1 = some 1 := by decide
example : (xrun (demoRoot ++ [.base (.level 1 0), .base (.level 1 4)])).d.toldServer = some (⟨5, 1⟩, false) := by
  decide
example : (xrun [.base (.sessionInit 0), .base (.potentialParents [1]), .base (.initialized 1 true),
    .base (.root 0 7), .base (.level 0 0)]).d.toldServer = some (⟨1, 1⟩, false) := by decide

/-! Suspended sends: two children (connections 0, 1), a candidate (connection 2) that has announced its root. The
server socket blocks; the candidate's level makes it the parent — the server is told `(2, 5)` at once, the children are
not yet (one handler pending); meanwhile user 4 connects (admitted, told the new position) and child 0's socket dies;
on release the remaining children are told, child 0 is gone. -/
def demoSusp : List XOp :=
  [.base (.sessionInit 0), .base (.initialized 1 false), .base (.initialized 2 false),
   .base (.potentialParents [3]), .base (.initialized 3 true), .base (.root 2 5), .srvBlock,
   .base (.level 2 1), .base (.initialized 4 false), .arm 0]

example : (xrun demoSusp).d.parent = some 2 ∧ (xrun demoSusp).d.toldServer = some (⟨2, 5⟩, false) ∧
    (xrun demoSusp).pend = [.tellAdv] ∧ (xrun demoSusp).d.children = [0, 1, 3] ∧
    (xrun demoSusp).d.toldL 1 = some 0 ∧ (xrun demoSusp).d.toldL 3 = some 2 := by decide
example : (xrun (demoSusp ++ [.srvRelease])).d.children = [1, 3] ∧ (xrun (demoSusp ++ [.srvRelease])).pend = [] ∧
    (xrun (demoSusp ++ [.srvRelease])).d.toldL 1 = some 2 ∧ (xrun (demoSusp ++ [.srvRelease])).d.toldR 1 = some 5 ∧
    (xrun (demoSusp ++ [.srvRelease])).d.live = [1, 2, 3] := by decide
-- the whole wire domain: a ratio that is not a multiple of 10 (25, speed 20480: divider 2560, maximum 8 — not the 10
-- that dividing the ratio first would give), a ratio above every speed on the wire (maximum 0 with acceptance on)
example : maxChildrenOf 20480 25 = 8 ∧ maxChildrenOf 2048 15 = 1 ∧ maxChildrenOf 30000 35 = 8 ∧
    maxChildrenOf 4294967295 4294967295 = 0 ∧ maxChildrenOf 4294967295 1 = 41943039 := by decide
example : (xrun [.base (.sessionInit 0), .base (.speedRatio 25), .base (.userStats 0 20480)]).d.maxChildren = 8 ∧
    (xrun [.base (.sessionInit 0), .base (.speedRatio 25), .base (.userStats 0 20480)]).d.accept = true := by decide
-- limits bind at once: the statistics lower the maximum to 1 while the `AcceptChildren` send is suspended; the
-- connection that arrives meanwhile is not admitted
example : (xrun [.base (.sessionInit 0), .base (.userStats 0 10240), .base (.initialized 1 false), .srvBlock,
    .base (.userStats 0 5120), .base (.initialized 2 false)]).d.children = [0] ∧
    (limits [.base (.sessionInit 0), .base (.userStats 0 10240), .base (.initialized 1 false), .srvBlock,
    .base (.userStats 0 5120)]).max = 1 := by decide

end AioslskVerif.C13
