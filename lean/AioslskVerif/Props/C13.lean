import AioslskVerif.Proofs.Dist
/-!
# C13 — distributed tree: one parent, bounded live children, truthful advertised place

Property theorems only (model: `Model/Dist.lean`, the derived position `Derived` / `Degenerate`:
`Spec/DistTree.lean`, invariant and helper lemmas: `Proofs/Dist.lean`).
Every theorem quantifies over **all** op lists (`run ops`), any number of peers / connections, any values.
The model is the code with the three proposed fixes `fixes/C13-*.patch` applied.

Reading (DESIGN.md, C13). `derived` = (parent.level + 1, parent.root, search off) when there is a parent,
(0, own name, search on) otherwise. Truthfulness is demanded while a session exists (the own name is the
session's user) and not for the degenerate announcement "parent's root = own name".
"Parent not among the children" is read on users: no child has the parent's user name (hence also not
the parent's connection).
-/
namespace AioslskVerif.C13
open AioslskVerif.Dist

/-- **At most one parent**: `parent` is a single optional reference, the peer it refers to is registered
exactly once (no duplicate `DistributedPeer` records), and it has announced both level and root. -/
theorem C13_one_parent (ops : List Op) :
    (∀ c c', (run ops).parent = some c → (run ops).parent = some c' → c = c') ∧
    (run ops).live.Nodup ∧
    (∀ c, (run ops).parent = some c → ((run ops).level c).isSome ∧ ((run ops).root c).isSome) := by
  refine ⟨?_, (run_inv ops).str.liveNodup, (run_inv ops).str.parentComplete⟩
  intro c c' h h'
  rw [h] at h'
  exact Option.some.inj h'

/-- **The parent is not among the children** — neither its connection nor any connection of the same user. -/
theorem C13_parent_not_child (ops : List Op) (c : ConnId) (h : (run ops).parent = some c) :
    c ∉ (run ops).children ∧ ∀ d ∈ (run ops).children, (run ops).name d ≠ (run ops).name c := by
  have hp := (run_inv ops).str.pnc c h
  exact ⟨fun hm => hp c hm rfl, hp⟩

/-- **Parent and children are live distributed connections** (registered in `distributed_peers`, not closed),
and no connection is listed twice as a child. -/
theorem C13_live (ops : List Op) :
    (∀ c, (run ops).parent = some c → c ∈ (run ops).liveConns) ∧
    (∀ d ∈ (run ops).children, d ∈ (run ops).liveConns) ∧ (run ops).children.Nodup :=
  ⟨(run_inv ops).str.parentLive, (run_inv ops).str.childLive, (run_inv ops).str.childNodup⟩

/-- "live" means what it says: once the `CLOSED` event of a connection has been handled the connection is
not live any more (so by `C13_live` it is neither parent nor child). -/
theorem C13_live_closed (ops : List Op) (c : ConnId) : c ∉ (run (ops ++ [.closed c])).liveConns := by
  have hnd := (run_inv ops).str.liveNodup
  simp only [run, List.foldl_append, List.foldl_cons, List.foldl_nil, step, DState.liveConns]
  show c ∉ (closePeer (run ops) c).live
  unfold closePeer
  split
  · intro hm
    have hm' : c ∈ (run ops).live.erase c := by
      by_cases hp : (run ops).parent = some c
      · simp only [if_pos hp] at hm; simpa using hm
      · simp only [if_neg hp] at hm; exact hm
    exact (hnd.mem_erase_iff.1 hm').1 rfl
  · assumption

/-- **Child admission.** A connection joins the children only in the step that created it as an incoming
(not requested) distributed connection, and only if in the state before that step child acceptance was on and
the number of children was below the current maximum. -/
theorem C13_child_admission (ops : List Op) (op : Op) (d : ConnId)
    (h : d ∈ (run (ops ++ [op])).children) (hn : d ∉ (run ops).children) :
    ∃ n, op = .initialized n false ∧ d = (run ops).nextConn ∧
      (run ops).accept = true ∧ (run ops).children.length < (run ops).maxChildren := by
  have h' : d ∈ (step (run ops) op).children := by simpa [run, List.foldl_append] using h
  obtain ⟨n, h1, h2, h3, h4, _, _⟩ := step_children (run ops) op d (run_inv ops) h' hn
  exact ⟨n, h1, h2, h3, h4⟩

/-- **A proposed potential parent is not taken as child**: the user of a newly admitted child is not in the
potential-parent cache, and is not the current parent's user. -/
theorem C13_candidate_not_child (ops : List Op) (op : Op) (d : ConnId)
    (h : d ∈ (run (ops ++ [op])).children) (hn : d ∉ (run ops).children) :
    ∃ n, op = .initialized n false ∧ n ∉ (run ops).potential ∧ (run ops).parentName ≠ some n := by
  have h' : d ∈ (step (run ops) op).children := by simpa [run, List.foldl_append] using h
  obtain ⟨n, h1, _, _, _, h5, h6⟩ := step_children (run ops) op d (run_inv ops) h' hn
  exact ⟨n, h1, h5, h6⟩

/-- the cache keeps the most recent proposals: after `PotentialParents ns` the last `cacheSize` names of
`ns` are in the cache (all of `ns` when `ns.length ≤ cacheSize`). -/
theorem C13_cache_keeps_latest (ops : List Op) (ns : List Name) (n : Name)
    (h : n ∈ ns.drop (ns.length - Generated.Dist.cacheSize)) :
    n ∈ (run (ops ++ [.potentialParents ns])).potential := by
  simp only [run, List.foldl_append, List.foldl_cons, List.foldl_nil, step, onPotentialParents, extendCache]
  generalize (List.foldl step init ops).potential = l
  have hk : (l ++ ns).length - Generated.Dist.cacheSize
      = l.length + (ns.length - Generated.Dist.cacheSize) ∨
      (l ++ ns).length - Generated.Dist.cacheSize ≤ l.length := by
    simp only [List.length_append]; omega
  rcases hk with hk | hk
  · rw [hk, List.drop_append]
    simp only [Nat.add_sub_cancel_left]
    exact List.mem_append_right _ h
  · rw [List.drop_append_of_le_length hk]
    exact List.mem_append_right _ (List.mem_of_mem_drop h)

/-- **Truthful to the server.** While logged in, the last `BranchLevel / BranchRoot / ToggleParentSearch` sent
on the current server connection are the position derived from the current parent — after every history,
including re-announcements by the parent, loss of the parent and session loss / re-login. -/
theorem C13_truthful_server (ops : List Op) (me : Name) (hs : (run ops).session = some me)
    (hd : ¬ Degenerate (run ops) me) :
    ∃ a search, (run ops).toldServer = some (a, search) ∧ Derived (run ops) me a search :=
  ⟨_, _, (run_inv ops).told.toldS me hs, adv_derived _ me (run_inv ops) hd⟩

/-- **Truthful to every child.** While logged in, the last `DistributedBranchLevel` written to every current
child is the derived level, and the last `DistributedBranchRoot` the derived root (for level 0 the root may
never have been written to a newly added child, as the protocol allows). -/
theorem C13_truthful_children (ops : List Op) (me : Name) (hs : (run ops).session = some me)
    (hd : ¬ Degenerate (run ops) me) (d : ConnId) (hc : d ∈ (run ops).children) :
    ∃ a search, Derived (run ops) me a search ∧
      (run ops).toldL d = some a.level ∧
      ((run ops).toldR d = some a.root ∨ ((run ops).toldR d = none ∧ a.level = 0)) :=
  ⟨_, _, adv_derived _ me (run_inv ops) hd, (run_inv ops).told.toldC me hs d hc⟩

/-! Non-vacuity: a reachable state with a session, a parent (connection 1, user 1, re-announced level 5, root 7)
and a child (connection 0, user 2); the hypotheses of the theorems above hold there, and the values told are
the derived ones. -/
def demo : List Op :=
  [.sessionInit 0, .initialized 2 false, .potentialParents [1, 3], .initialized 1 true, .initialized 3 true,
   .level 1 3, .root 1 7, .level 1 5]

example : (run demo).session = some 0 ∧ (run demo).parent = some 1 ∧ (run demo).children = [0] ∧
    (run demo).live = [0, 1] := by decide
example : ¬ Degenerate (run demo) 0 := by
  intro ⟨c, h1, h2⟩
  have : c = 1 := by
    have : (run demo).parent = some 1 := by decide
    rw [this] at h1; exact (Option.some.inj h1).symm
  subst this
  revert h2; decide
example : (run demo).toldServer = some (⟨6, 7⟩, false) ∧ (run demo).toldL 0 = some 6 ∧
    (run demo).toldR 0 = some 7 := by decide
-- a child is admitted in the last step of this history (the premise of `C13_child_admission`)
example : 0 ∈ (run ([.sessionInit 0] ++ [.initialized 2 false])).children ∧ 0 ∉ (run [.sessionInit 0]).children := by
  decide
-- the degenerate announcement is reachable (which is why it is named in the hypotheses)
example : Degenerate (run [.sessionInit 0, .initialized 1 true, .level 0 2, .root 0 0]) 0 :=
  ⟨0, by decide, by decide⟩

end AioslskVerif.C13
