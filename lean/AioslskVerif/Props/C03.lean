import AioslskVerif.Proofs.Transfer
import AioslskVerif.Proofs.TransferFault
/-!
# C03 — transfer state changes always follow the documented state graph

Property theorems only (model: `Model/Transfer.lean`, generated table: `Generated/TransferTable.lean`,
frozen graph: `Spec/TransferGraph.lean`, helpers: `Proofs/Transfer.lean`).

The table theorems are re-checked against what `transfer/state.py` says *now* (the table is
regenerated before every build). The concurrent theorems are about the lock/dispatch wrapper **as
fixed by fixes/C03-dispatch-on-current-state.patch** (`Mode.current`): the method that runs once the
caller owns the lock is the one of the transfer's current state. For the wrapper of the pinned
commit (`Mode.captured`) the statement is false: `C03_pinned_dispatch_counterexample`.
-/
namespace AioslskVerif.C03
open AioslskVerif.Transfer AioslskVerif.Generated.Transfer AioslskVerif.Spec.Transfer

/-- **Sequential part.** Whatever a state class does in an overridden method ends in a transition
along a documented edge — and to the state the method is named after. -/
theorem C03_table_sound (d : Dir) (s : St) (m : Meth) (s' : St) (e : List Eff)
    (h : implStep d s m = some (s', e)) : edge d s s' = true ∧ s' = target d m := by
  have hc : (match implStep d s m with
      | some (t, _) => edge d s t && decide (t = target d m)
      | none => true) = true := by
    cases d <;> cases s <;> cases m <;> decide
  rw [h] at hc
  simpa using hc

/-- A request is accepted by a state class exactly when the documented graph has the edge from that
state to the request's target (the frozen graph is neither wider nor narrower than the code). -/
theorem C03_table_complete (d : Dir) (s : St) (m : Meth) :
    (implStep d s m).isSome = edge d s (target d m) := by
  cases d <;> cases s <;> cases m <;> decide

/-- the part of `C03_table_sound` the induction uses -/
theorem C03_table_edges : TableSound :=
  fun d s m t e h => (C03_table_sound d s m t e h).1

/-- **Refusal is pure.** When the state the wrapper dispatches on does not override the method, being
granted the lock changes nothing — not the state, no field (reasons, timestamps, local path, file,
tasks), no listener event, not the lock — except that `False` is returned to that caller. -/
theorem C03_refusal_pure (cfg : Cfg) (c : Call) (x : XState)
    (h : implStep cfg.dir (dispatchOn cfg x c) c.meth = none) :
    grant cfg c x = { x with trace := .ret c.id false :: x.trace } := by
  unfold grant
  rw [h]

/-- **Concurrent part, all op lists.** From any state, with any fields, for uploads and downloads,
whatever calls are created, started, overlap while a slow cancellation / file removal holds the
lock, and in whatever order the slow steps finish: every `(old, new)` pair a listener is given is
an edge of the documented graph. -/
theorem C03_concurrent (cfg : Cfg) (hm : cfg.mode = .current) (s : St) (f : Fields) (ops : List XOp) :
    ∀ p ∈ events (run cfg (init s f) ops), edge cfg.dir p.1 p.2 = true := by
  intro p hp
  have hinv := run_inv C03_table_edges cfg s hm ops _ (init_inv cfg s f)
  simp only [events, List.mem_filterMap, List.mem_reverse] at hp
  obtain ⟨it, hmem, hsome⟩ := hp
  cases it with
  | eff id e => simp at hsome
  | ret id ok => simp at hsome
  | trans id a b => simp at hsome
  | cancelled id => simp at hsome
  | event id li a b =>
    simp only [Option.some.injEq] at hsome
    subst hsome
    exact hinv.events id li a b hmem

/-- **The state changes themselves, all op lists.** The assignments `self.state = …` the transfer made,
read from the state the run started in, form one walk along documented edges that ends in the
current state: each is an edge, and each starts where the previous one ended. -/
theorem C03_transitions_walk (cfg : Cfg) (hm : cfg.mode = .current) (s : St) (f : Fields)
    (ops : List XOp) :
    follows s (transitions (run cfg (init s f) ops)) = some (run cfg (init s f) ops).cur ∧
    ∀ p ∈ transitions (run cfg (init s f) ops), edge cfg.dir p.1 p.2 = true := by
  have hinv := run_inv C03_table_edges cfg s hm ops _ (init_inv cfg s f)
  refine ⟨?_, ?_⟩
  · rw [transitions_eq]; exact hinv.chain.follows
  · intro p hp
    simp only [transitions, List.mem_filterMap, List.mem_reverse] at hp
    obtain ⟨it, hmem, hsome⟩ := hp
    cases it with
    | eff id e => simp [Item.change] at hsome
    | ret id ok => simp [Item.change] at hsome
    | event id li a b => simp [Item.change] at hsome
    | cancelled id => simp [Item.change] at hsome
    | trans id a b =>
      simp only [Item.change, Option.some.injEq] at hsome
      subst hsome
      exact hinv.transOk id a b hmem

/-- **Listeners observe exactly the edges taken, in order — every listener, all op lists.** With any
number of registered listeners, any of which may suspend for as long as the environment likes, and
whatever requests arrive meanwhile: the sequence of `(old, new)` pairs given to listener number `li`
is the sequence of state changes of the transfer — except while the lock holder is suspended inside
an *earlier* listener (`p.pos < li`) of the newest change, when listener `li` has been given all but
that newest change `(p.old, current state)` (it is next in line). In particular, whenever the lock is
free all listeners have been given the same sequence. (`Transfer.transition` reads `self.state` again
for every listener — model.py:236; the pair is right because the lock is held until the last listener
has returned.)

The op lists include `cancelCaller`. The one thing that makes the statement false is a caller that is
cancelled while it is suspended inside a listener with other listeners still to come: those are then never
told that change (`XState.cuts` counts exactly these events; `C03_cut_listener_counterexample`). Hence the
hypothesis `cuts = 0` — which holds of every op list without `cancelCaller` (`C03_cuts_only_by_cancel`), so
this is the round-3 theorem over a larger alphabet — and, with no hypothesis at all,
`C03_listener_told_subsequence` and `C03_first_listener_told_everything`. -/
theorem C03_listeners_told_the_transitions (cfg : Cfg) (hm : cfg.mode = .current) (s : St)
    (f : Fields) (ops : List XOp) (li : Nat) (hli : li < cfg.listeners.length)
    (hc : (run cfg (init s f) ops).cuts = 0) :
    (told li (run cfg (init s f) ops) = transitions (run cfg (init s f) ops) ∨
      ∃ p, (run cfg (init s f) ops).holder = some p ∧ p.notified = true ∧ p.pos < li ∧
        told li (run cfg (init s f) ops) ++ [(p.old, (run cfg (init s f) ops).cur)]
          = transitions (run cfg (init s f) ops)) ∧
    ((run cfg (init s f) ops).holder = none →
      told li (run cfg (init s f) ops) = transitions (run cfg (init s f) ops)) := by
  have hinv := run_inv C03_table_edges cfg s hm ops _ (init_inv cfg s f)
  generalize run cfg (init s f) ops = x at hinv hc
  rw [told_eq, transitions_eq]
  refine ⟨?_, ?_⟩
  · cases hh : x.holder with
    | none => exact Or.inl (by rw [hinv.quiet_of_free hh hc li hli])
    | some p =>
      cases hn : p.notified with
      | false =>
        refine Or.inl ?_
        rw [hinv.quiet hc (by intro q hq; rw [hh] at hq; cases hq; exact hn) li hli]
      | true =>
        obtain ⟨_, _, _, hcond⟩ := hinv.telling p hh hn
        obtain ⟨hle, hgt⟩ := hcond hc
        by_cases hpos : li ≤ p.pos
        · exact Or.inl (by rw [hle li hpos])
        · refine Or.inr ⟨p, rfl, hn, by omega, ?_⟩
          rw [hgt li (by omega) hli, List.reverse_cons]
  · intro hh
    rw [hinv.quiet_of_free hh hc li hli]

/-- Only the cancellation of a caller can cut a listener loop short: an op list without `cancelCaller`
(any calls, overlaps, slow steps, reloads) has `cuts = 0`. -/
theorem C03_cuts_only_by_cancel (cfg : Cfg) (s : St) (f : Fields) (ops : List XOp)
    (h : ops.all (fun o => !o.isCancel) = true) : (run cfg (init s f) ops).cuts = 0 := by
  rw [run_cuts_of_no_cancel cfg ops h]; rfl

/-- The round-3 statement verbatim, for every op list in which no caller gives up (calls, created and
started coroutines, manager and peer requests, overlaps, slow steps in any order, reloads). -/
theorem C03_listeners_told_when_nobody_gives_up (cfg : Cfg) (hm : cfg.mode = .current) (s : St)
    (f : Fields) (ops : List XOp) (li : Nat) (hli : li < cfg.listeners.length)
    (h : ops.all (fun o => !o.isCancel) = true) :
    (told li (run cfg (init s f) ops) = transitions (run cfg (init s f) ops) ∨
      ∃ p, (run cfg (init s f) ops).holder = some p ∧ p.notified = true ∧ p.pos < li ∧
        told li (run cfg (init s f) ops) ++ [(p.old, (run cfg (init s f) ops).cur)]
          = transitions (run cfg (init s f) ops)) ∧
    ((run cfg (init s f) ops).holder = none →
      told li (run cfg (init s f) ops) = transitions (run cfg (init s f) ops)) :=
  C03_listeners_told_the_transitions cfg hm s f ops li hli (C03_cuts_only_by_cancel cfg s f ops h)

/-- **Every listener, all op lists, cancellations included, no hypothesis:** what listener `li` has been
given is a *subsequence* of the state changes the transfer made, in order — it is never told a change that
did not happen, never in another order, never twice; all it can lose is a change whose announcement was cut
short by the cancellation of the announcing caller. Since the state changes form a walk along documented
edges (`C03_transitions_walk`), what lies between two pairs a listener was given is again such a walk. -/
theorem C03_listener_told_subsequence (cfg : Cfg) (hm : cfg.mode = .current) (s : St) (f : Fields)
    (ops : List XOp) (li : Nat) :
    (told li (run cfg (init s f) ops)).Sublist (transitions (run cfg (init s f) ops)) := by
  have hinv := run_inv C03_table_edges cfg s hm ops _ (init_inv cfg s f)
  rw [told_eq, transitions_eq]
  exact (hinv.sub li).reverse

/-- …and the listener registered first — `TransferManager.add` puts the manager itself there
(manager.py:342) — is told every state change at the moment it is made, whatever is cancelled. -/
theorem C03_first_listener_told_everything (cfg : Cfg) (hm : cfg.mode = .current) (s : St) (f : Fields)
    (ops : List XOp) (h0 : 0 < cfg.listeners.length) :
    told 0 (run cfg (init s f) ops) = transitions (run cfg (init s f) ops) := by
  have hinv := run_inv C03_table_edges cfg s hm ops _ (init_inv cfg s f)
  rw [told_eq, transitions_eq, hinv.first h0]

/-- …hence what any one listener is given is itself a walk from the state the run started in: each
pair starts where the previous one ended (and each is an edge, `C03_concurrent`), and when the lock
is free the walk ends in the current state. (`cuts = 0`: see `C03_listeners_told_the_transitions`.) -/
theorem C03_each_listener_walk (cfg : Cfg) (hm : cfg.mode = .current) (s : St) (f : Fields)
    (ops : List XOp) (li : Nat) (hli : li < cfg.listeners.length)
    (hc : (run cfg (init s f) ops).cuts = 0) :
    ∃ e, follows s (told li (run cfg (init s f) ops)) = some e ∧
      ((run cfg (init s f) ops).holder = none → e = (run cfg (init s f) ops).cur) := by
  obtain ⟨h1, h2⟩ := C03_listeners_told_the_transitions cfg hm s f ops li hli hc
  have hw := (C03_transitions_walk cfg hm s f ops).1
  generalize run cfg (init s f) ops = x at h1 h2 hw
  rcases h1 with h | ⟨p, hp, _, _, h⟩
  · exact ⟨x.cur, by rw [h]; exact hw, fun _ => rfl⟩
  · rw [← h, follows_append] at hw
    cases hf : follows s (told li x) with
    | none => rw [hf] at hw; simp at hw
    | some e => exact ⟨e, rfl, fun hh => by rw [hp] at hh; cases hh⟩

/-- …and the transition the suspended lock holder is about to make is an edge from the state the
transfer is in *now* (the invariant that makes the induction go through). -/
theorem C03_pending_is_edge (cfg : Cfg) (hm : cfg.mode = .current) (s : St) (f : Fields)
    (ops : List XOp) (p : Pending) (h : (run cfg (init s f) ops).holder = some p)
    (hn : p.notified = false) :
    edge cfg.dir (run cfg (init s f) ops).cur p.target = true :=
  (run_inv C03_table_edges cfg s hm ops _ (init_inv cfg s f)).pending p h hn

/-- **Refused ⇒ no effect, all op lists.** The trace of who-did-what is a sequence of blocks, each
either a lone `ret id false`, or the effects of a single call followed by its one state change, the
listener events of that change and `ret id true`, or such a block cut short by `cancelled id` when the
caller of the lock holder was cancelled (`Shape`, `Proofs/Transfer.lean`; a `cancelled id` of a caller that
was still waiting for the lock belongs to no block); hence invocations never interleave under the lock — a
cancelled one included: nothing of it follows its `cancelled` — and a refused call has done nothing: what
precedes its `ret id false` in the trace is the return or the cancellation of another call (or the
beginning), never an effect or an event. -/
theorem C03_refused_no_effect (cfg : Cfg) (hm : cfg.mode = .current) (s : St) (f : Fields)
    (ops : List XOp) :
    Shape (phaseOf (run cfg (init s f) ops).holder) (run cfg (init s f) ops).trace ∧
    ∀ pre id rest, (run cfg (init s f) ops).trace = pre ++ .ret id false :: rest →
      rest = [] ∨ (∃ id' ok rest', rest = .ret id' ok :: rest') ∨
        (∃ id' rest', rest = .cancelled id' :: rest') := by
  have hinv := run_inv C03_table_edges cfg s hm ops _ (init_inv cfg s f)
  exact ⟨hinv.shape, hinv.shape.refusal_isolated⟩

/-- **A request cancelled before it was served has no effect.** The caller of a request that still waits
for the lock is cancelled: the state, every field, the lock holder, what listeners were told and the state
changes are what they were; the request leaves the queue (if it was in it) and its caller is told. -/
theorem C03_cancelled_waiter_no_effect (cfg : Cfg) (x : XState) (id : Nat) (p : Pending)
    (hp : x.holder = some p) (hne : p.call.id ≠ id) :
    (step cfg x (.cancelCaller id)).cur = x.cur ∧ (step cfg x (.cancelCaller id)).f = x.f ∧
    (step cfg x (.cancelCaller id)).holder = x.holder ∧
    (step cfg x (.cancelCaller id)).cuts = x.cuts ∧
    ((step cfg x (.cancelCaller id)) = x ∨
      ∃ ws, removeWaiter id x.waiters = some ws ∧
        step cfg x (.cancelCaller id) = { x with waiters := ws, trace := .cancelled id :: x.trace }) := by
  simp only [step]
  split
  · next hnone => rw [hp] at hnone; cases hnone
  · next q hq =>
    rw [hp] at hq
    cases hq
    rw [if_neg hne]
    split
    · next ws hws => exact ⟨rfl, rfl, rfl, rfl, Or.inr ⟨ws, hws, rfl⟩⟩
    · exact ⟨rfl, rfl, rfl, rfl, Or.inl rfl⟩

/-- **What remains of a request whose caller is gone: nothing.** The caller of the suspended lock holder
is cancelled (`abandon`): the state is what it was, nobody is told anything, no state change is made, no
field changes except that the tasks the request had cancelled are now known to have ended; and either the
lock is released at once — the request is over, its block in the trace is closed by `cancelled`
(`C03_refused_no_effect`: nothing of it follows) — or (`Cfg.stubborn`: it waits for tasks that take their
time to end) it stays the lock holder, marked `abandoned`, so that nobody else is served meanwhile, and the
next `resume` ends it the same way (`tasksEnded`). The transfer is left where it was: a `DOWNLOADING`
transfer whose `abort()` was cancelled is `DOWNLOADING` with its tasks cancelled — no undocumented edge, and
the next request is served on that state. -/
theorem C03_cancelled_holder_does_nothing_more (cfg : Cfg) (p : Pending) (x : XState) :
    (abandon cfg p x).cur = x.cur ∧ events (abandon cfg p x) = events x ∧
    transitions (abandon cfg p x) = transitions x ∧ (abandon cfg p x).waiters = x.waiters ∧
    { (abandon cfg p x).f with tasksLive := x.f.tasksLive } = x.f ∧
    ((abandon cfg p x).holder = none ∨
      (cfg.stubborn = true ∧ (abandon cfg p x).holder = some { p with abandoned := true } ∧
        (abandon cfg p x).trace = x.trace ∧ (abandon cfg p x).f = x.f)) := by
  unfold abandon
  split
  · exact ⟨rfl, by simp [events], by simp [transitions, Item.change], rfl, rfl, Or.inl rfl⟩
  · split
    · split
      · next hs => exact ⟨rfl, rfl, rfl, rfl, rfl, Or.inr ⟨hs, rfl, rfl, rfl⟩⟩
      · exact ⟨rfl, by simp [tasksEnded, events], by simp [tasksEnded, transitions, Item.change], rfl,
          rfl, Or.inl rfl⟩
    · exact ⟨rfl, by simp [events], by simp [transitions, Item.change], rfl, rfl, Or.inl rfl⟩

/-- …and the abandoned lock holder, when its tasks have ended, ends likewise: state, listeners' records
and state changes untouched, lock released (then handed to the oldest waiter by `step`). -/
theorem C03_abandoned_holder_ends (p : Pending) (x : XState) :
    (tasksEnded p x).cur = x.cur ∧ events (tasksEnded p x) = events x ∧
    transitions (tasksEnded p x) = transitions x ∧ (tasksEnded p x).holder = none ∧
    { (tasksEnded p x).f with tasksLive := x.f.tasksLive } = x.f := by
  exact ⟨rfl, by simp [tasksEnded, events], by simp [tasksEnded, transitions, Item.change], rfl, rfl⟩

/-- **Repair on load tells nobody.** What `Transfer.__setstate__` and `TransferManager.read_cache` do to
a stored record happens before the first listener is registered: the loaded transfer starts with an empty
record — no listener has been told anything, no request is in flight, the lock is free. In particular the
`await transfer.state.queue()` that takes a stored `INITIALIZING` back to `QUEUED` runs on a transfer
without listeners and tells nobody (second part: no `event` item in what that call leaves behind, whatever
the table says `InitializingState.queue` does). -/
theorem C03_load_tells_nobody (cfg : Cfg) (stored : St) (f : Fields) (whole : Bool) :
    (load cfg stored f whole).trace = [] ∧ events (load cfg stored f whole) = [] ∧
    (∀ li, told li (load cfg stored f whole) = []) ∧ (load cfg stored f whole).holder = none ∧
    (load cfg stored f whole).waiters = [] ∧
    ∀ (f1 : Fields) id li a b, Item.event id li a b ∉
      (arrive { cfg with listeners := [] } { id := 0, meth := .queue, captured := .initializing }
        (init .initializing f1)).trace := by
  obtain ⟨s', f', h⟩ := load_is_init cfg stored f whole
  rw [h]
  exact ⟨rfl, rfl, fun _ => rfl, rfl, rfl,
    fun f1 => noListeners_arrive_init { cfg with listeners := [] } rfl _ _ f1⟩

/-- the state a loaded transfer is first seen in: a record stored while transferring is `COMPLETE` when
all bytes are there and `INCOMPLETE` otherwise (assigned, not announced), everything that was neither
transferring nor initializing is what was stored -/
theorem C03_load_state (cfg : Cfg) (stored : St) (f : Fields) (whole : Bool) :
    (stored = .downloading ∨ stored = .uploading →
      (load cfg stored f whole).cur = if whole then .complete else .incomplete) ∧
    (stored ≠ .downloading → stored ≠ .uploading → stored ≠ .initializing →
      (load cfg stored f whole).cur = stored) := by
  refine ⟨?_, ?_⟩
  · rintro (h | h) <;> subst h <;> rfl
  · intro h1 h2 h3
    cases stored <;> first | rfl | contradiction

/-- **…and from there on everything above holds**: whatever was stored, for all op lists on the loaded
transfer every pair a listener is given is a documented edge, and the state changes form one walk along
documented edges from the state the transfer was in when `TransferAddedEvent` was emitted. -/
theorem C03_after_load (cfg : Cfg) (hm : cfg.mode = .current) (stored : St) (f : Fields) (whole : Bool)
    (ops : List XOp) :
    (∀ p ∈ events (run cfg (load cfg stored f whole) ops), edge cfg.dir p.1 p.2 = true) ∧
    follows (load cfg stored f whole).cur (transitions (run cfg (load cfg stored f whole) ops))
      = some (run cfg (load cfg stored f whole) ops).cur ∧
    ∀ li, (told li (run cfg (load cfg stored f whole) ops)).Sublist
      (transitions (run cfg (load cfg stored f whole) ops)) := by
  obtain ⟨s', f', h⟩ := load_is_init cfg stored f whole
  rw [h]
  exact ⟨C03_concurrent cfg hm s' f' ops, (C03_transitions_walk cfg hm s' f' ops).1,
    fun li => C03_listener_told_subsequence cfg hm s' f' ops li⟩

/-- reading the cache again while the manager already holds the transfer (stop / start of a client)
leaves the live transfer alone: the repaired copy is dropped by `TransferManager.add` -/
theorem C03_reload_no_effect (cfg : Cfg) (x : XState) : step cfg x .reload = x := rfl

/-- The places **outside the state classes** where a transfer's state is written, read off the source
on every run (`Generated.outsideSites`: per file, direct assignments to a `.state` attribute and calls of
`.transition(`; `transfer/state.py` itself excluded): the constructor and `Transfer.transition` in
`transfer/model.py`, and the one repair assignment of `read_cache` — which `load` transcribes. A new site
is a state change this model does not know of. -/
theorem C03_outside_sites_pinned :
    outsideSites = [("transfer/manager.py", "assign", 1), ("transfer/model.py", "assign", 2)] := by
  decide

/-- The wrapper of the pinned commit runs the method of the state object the caller looked up
*before* waiting for the lock. `DOWNLOADING`, a slow task cancellation, `abort` then `pause` while
abort holds the lock: listeners see `ABORTED → PAUSED`, which is not a documented edge. (Confirmed
on the real code; repaired by fixes/C03-dispatch-on-current-state.patch.) -/
theorem C03_pinned_dispatch_counterexample :
    let cfg : Cfg := { dir := .download, slowCancel := true, slowFs := false, mode := .captured }
    let x := run cfg (init .downloading { tasksLive := true, startTime := some 0 })
      [.call { id := 0, meth := .abort, reason := some 0 }, .call { id := 1, meth := .pause }, .resume]
    (St.aborted, St.paused) ∈ events x ∧ edge .download .aborted .paused = false := by
  decide

/-! Non-vacuity. -/

/-- two overlapping calls: abort is suspended in the slow cancellation, pause waits for the lock -/
example :
    let cfg : Cfg := { dir := .download, slowCancel := true, slowFs := false }
    let x := run cfg (init .downloading { tasksLive := true, startTime := some 0 })
      [.call { id := 0, meth := .abort, reason := some 0 }, .call { id := 1, meth := .pause }]
    x.cur = .downloading ∧ (x.holder.map (·.call.id)) = some 0 ∧ x.waiters.length = 1 := by decide

/-- …then the cancellation finishes: abort completes, the waiter is dispatched on `ABORTED` and
refused; the transfer is aborted, one event, returns `true` then `false`. -/
example :
    let cfg : Cfg := { dir := .download, slowCancel := true, slowFs := false }
    let x := run cfg (init .downloading { tasksLive := true, startTime := some 0 })
      [.call { id := 0, meth := .abort, reason := some 0 }, .call { id := 1, meth := .pause }, .resume]
    x.cur = .aborted ∧ events x = [(.downloading, .aborted)] ∧ x.holder = none ∧ x.waiters = [] ∧
      x.trace.head? = some (.ret 1 false) := by decide

/-- a suspended *listener* holds the lock after the state is already assigned. `FAILED`, two `queue()`
coroutines created first and scheduled together (as manager.py:586-589 does with `gather`): the second
is dispatched on `QUEUED` and refused — the pinned wrapper made `QUEUED → QUEUED` of it. -/
example :
    let cfg : Cfg := { dir := .upload, slowCancel := false, slowFs := false, listeners := [true] }
    let ops : List XOp := [.create { id := 0, meth := .queue }, .create { id := 1, meth := .queue },
                           .start 0, .start 1]
    let x := run cfg (init .failed { failReason := some 2 }) ops
    x.cur = .queued ∧ (x.holder.map (·.notified)) = some true ∧ x.waiters.length = 1 ∧
      events (run cfg x [.resume, .resume]) = [(.failed, .queued)] ∧
      events (run { cfg with mode := .captured } (init .failed { failReason := some 2 }) (ops ++ [.resume, .resume]))
        = [(.failed, .queued), (.queued, .queued)] := by decide

/-- three listeners (the manager's own, a journal that suspends, a monitor): `DOWNLOADING`, `abort` with
`queue` arriving while abort waits for the cancelled tasks. While abort is suspended in the journal the
monitor has not yet been told `DOWNLOADING → ABORTED` and `queue` still waits; once the journal has
returned twice all three have been told `DOWNLOADING → ABORTED, ABORTED → QUEUED` — never
`DOWNLOADING → QUEUED`. -/
example :
    let cfg : Cfg := { dir := .download, slowCancel := true, slowFs := false, listeners := [false, true, false] }
    let ops : List XOp := [.call { id := 0, meth := .abort, reason := some 1 }, .call { id := 1, meth := .queue },
                           .resume]
    let x := run cfg (init .downloading { tasksLive := true, startTime := some 0 }) ops
    x.cur = .aborted ∧ (x.holder.map (·.pos)) = some 1 ∧ x.waiters.length = 1 ∧
      told 0 x = [(.downloading, .aborted)] ∧ told 1 x = [(.downloading, .aborted)] ∧ told 2 x = [] ∧
      (let y := run cfg x [.resume, .resume]
       y.cur = .queued ∧ y.holder = none ∧ transitions y = [(.downloading, .aborted), (.aborted, .queued)] ∧
       told 0 y = transitions y ∧ told 1 y = transitions y ∧ told 2 y = transitions y ∧
       follows .downloading (told 2 y) = some .queued) := by decide

/-- the caller of `abort()` gives up (time-out) while abort waits for the tasks it cancelled: the request
is over, the download is still `DOWNLOADING` (tasks gone), nobody was told anything; the peer's
queue-failed message then fails it along a documented edge, and nothing else ever happens. -/
example :
    let cfg : Cfg := { dir := .download, slowCancel := true, slowFs := false, listeners := [false, false] }
    let x := run cfg (init .downloading { tasksLive := true, startTime := some 0, localPath := true, fileExists := true })
      [.call { id := 0, meth := .abort, reason := some 1 }, .cancelCaller 0]
    x.cur = .downloading ∧ x.holder = none ∧ events x = [] ∧ x.f.tasksLive = false ∧ x.f.fileExists = true ∧
      x.trace.head? = some (.cancelled 0) ∧
      (let y := run cfg x [.call { id := 1, meth := .fail, reason := some 2 }, .resume, .resume]
       y.cur = .failed ∧ transitions y = [(.downloading, .failed)] ∧ y.f.fileExists = true ∧
       y.f.abortReason = none) := by decide

/-- the same with tasks that take their time to end whatever is cancelled again: the cancelled abort keeps
the lock (`abandoned`), the peer's message waits, and is served — on `DOWNLOADING` — once the tasks have ended -/
example :
    let cfg : Cfg := { dir := .download, slowCancel := true, slowFs := false, stubborn := true }
    let x := run cfg (init .downloading { tasksLive := true, startTime := some 0 })
      [.call { id := 0, meth := .abort, reason := some 1 }, .cancelCaller 0,
       .call { id := 1, meth := .fail, reason := some 2 }]
    x.cur = .downloading ∧ (x.holder.map (·.abandoned)) = some true ∧ x.waiters.length = 1 ∧
      (let y := run cfg x [.resume]
       y.cur = .failed ∧ y.holder = none ∧ events y = [(.downloading, .failed)]) := by decide

/-- a caller still waiting for the lock is cancelled: it never runs -/
example :
    let cfg : Cfg := { dir := .download, slowCancel := true, slowFs := false }
    let x := run cfg (init .downloading { tasksLive := true, startTime := some 0 })
      [.call { id := 0, meth := .pause }, .call { id := 1, meth := .abort, reason := some 1 },
       .cancelCaller 1, .resume]
    x.cur = .paused ∧ x.holder = none ∧ x.waiters = [] ∧ events x = [(.downloading, .paused)] ∧
      x.f.abortReason = none := by decide

/-- The hypothesis `cuts = 0` of `C03_listeners_told_the_transitions` is needed: a caller cancelled while it
is suspended inside the *second* of three listeners leaves the third without that change — on the real
code as in the model (the loop of `Transfer.transition` is simply left). The third listener's record is
still a subsequence of the state changes (`C03_listener_told_subsequence`), the first one's is complete. -/
theorem C03_cut_listener_counterexample :
    let cfg : Cfg := { dir := .download, slowCancel := false, slowFs := false, listeners := [false, true, false] }
    let x := run cfg (init .downloading { startTime := some 0 })
      [.call { id := 0, meth := .pause }, .cancelCaller 0, .call { id := 1, meth := .queue }, .resume]
    x.cuts = 1 ∧ x.holder = none ∧
      transitions x = [(.downloading, .paused), (.paused, .queued)] ∧ told 0 x = transitions x ∧
      told 1 x = transitions x ∧ told 2 x = [(.paused, .queued)] := by decide

/-- a record stored as `UPLOADING` with bytes missing is first seen as `INCOMPLETE`, one stored as
`INITIALIZING` as `QUEUED`, an `ABORTED` one of an older release gets its reason — and nobody is told -/
example :
    let cfg : Cfg := { dir := .upload, slowCancel := false, slowFs := false, listeners := [false, true] }
    (load cfg .uploading { startTime := some 0, bytes := 10, filesizeSet := true, tasksLive := true } false).cur = .incomplete ∧
    (load cfg .uploading { startTime := some 0 } false).f.startTime = none ∧
    (load cfg .initializing { remotelyQueued := true } false).cur = .queued ∧
    (load cfg .aborted {} false).f.abortReason = some requestedReason ∧
    events (load cfg .uploading {} true) = [] := by decide

/-- **A removal the file system refuses is not a refusal of the request** (state.py:32-46). Whatever the file
system answers, `_remove_local_file` of a download that has a `local_path` forgets the path and touches nothing
else; the file is still there afterwards exactly when it was there and the file system refused (`OSError`, caught
and logged). No field the state methods go on to read — and nothing that decides whether the method suspends or
what it returns — depends on the answer. -/
theorem C03_failed_removal_only_keeps_the_file (cfg : Cfg) (c : Call) (now : Nat) (f : Fields)
    (hd : cfg.dir = .download) (hp : f.localPath = true) :
    applyEff cfg c now f .removeLocalFile
      = { f with localPath := false, fileExists := f.fileExists && f.fsBroken } := by
  simp only [applyEff, hd, hp, if_true]

/-- the fault is a fact about the world: no effect statement other than the removal looks at it, none changes it,
and what an effect statement does to the other fields does not depend on it -/
theorem C03_fs_fault_touches_only_the_file (cfg : Cfg) (c : Call) (now : Nat) (f : Fields) (b : Bool) (e : Eff) :
    applyEff cfg c now { f with fsBroken := b } e
      = { applyEff cfg c now f e with
            fsBroken := b,
            fileExists := (applyEff cfg c now { f with fsBroken := b } e).fileExists } ∧
    blocks cfg { f with fsBroken := b } e = blocks cfg f e := by
  cases e <;> (constructor <;> simp only [applyEff, blocks] <;> (try split) <;> (try split) <;> rfl)

/-- **File-system faults change only what becomes of the file — all op lists.** Take any history and the same
history with the faults of the file system (`fsFault`) left out: the state, the whole trace — every effect carried
out, every state change, everything every listener is told, and every answer (`True` / `False` /
`InvalidStateTransition` / `CancelledError`) —, the lock holder and where it is suspended, the waiters and every
`Transfer` attribute are the same; only whether the file is still on disk may differ. In particular a request is
answered `False` with the faults exactly when it is without them: a removal the file system refuses never turns a
request that has already cancelled tasks or set a timestamp into a refused one. -/
theorem C03_fs_faults_change_only_the_file (cfg : Cfg) (s : St) (f : Fields) (ops : List XOp) :
    let x := run cfg (init s f) ops
    let y := run cfg (init s f) (ops.filter (fun o => !o.isFault))
    x.cur = y.cur ∧ x.trace = y.trace ∧ x.holder = y.holder ∧ x.waiters = y.waiters ∧ x.created = y.created ∧
      x.cuts = y.cuts ∧ x.now = y.now ∧
      ({ x.f with fsBroken := false, fileExists := false } : Fields) = { y.f with fsBroken := false, fileExists := false } := by
  intro x y
  have h : calm x = calm y := run_calm_filter cfg ops (init s f) (init s f) rfl
  have h1 : (calm x).cur = (calm y).cur := by rw [h]
  have h2 : (calm x).trace = (calm y).trace := by rw [h]
  have h3 : (calm x).holder = (calm y).holder := by rw [h]
  have h4 : (calm x).waiters = (calm y).waiters := by rw [h]
  have h5 : (calm x).created = (calm y).created := by rw [h]
  have h6 : (calm x).cuts = (calm y).cuts := by rw [h]
  have h7 : (calm x).now = (calm y).now := by rw [h]
  have h8 : (calm x).f = (calm y).f := by rw [h]
  exact ⟨h1, h2, h3, h4, h5, h6, h7, h8⟩

/-- the file system refuses the removal while `abort()` of a DOWNLOADING transfer is suspended in front of it
(tasks already cancelled, `complete_time` already set): the abort is carried out all the same — `ABORTED`, reason
set, every listener told `DOWNLOADING → ABORTED`, `True` returned — the path is forgotten and the file stays. The
request is never answered `False` after it has had effects (`C03_refused_no_effect` holds over op lists with
`fsFault` in them). -/
example :
    let cfg : Cfg := { dir := .download, slowCancel := false, slowFs := true, listeners := [false, false] }
    let x := run cfg (init .downloading { tasksLive := true, startTime := some 0, localPath := true, fileExists := true })
      [.call { id := 0, meth := .abort, reason := some 1 }, .fsFault true]
    x.cur = .downloading ∧ (x.holder.map (·.rest.head?)) = some (some .removeLocalFile) ∧ x.f.tasksLive = false ∧
      (let y := run cfg x [.resume]
       y.cur = .aborted ∧ y.holder = none ∧ y.trace.head? = some (.ret 0 true) ∧
       events y = [(.downloading, .aborted), (.downloading, .aborted)] ∧
       y.f.localPath = false ∧ y.f.fileExists = true ∧ y.f.abortReason = some 1 ∧
       -- the same without the fault: the only difference is the file
       (let z := run cfg (init .downloading { tasksLive := true, startTime := some 0, localPath := true, fileExists := true })
          [.call { id := 0, meth := .abort, reason := some 1 }, .resume]
        z.cur = y.cur ∧ z.trace = y.trace ∧ z.f.fileExists = false ∧ z.f.localPath = false)) := by decide

/-- the graph and the table are not trivial: 32 documented pairs, 31 overridden methods -/
example : edgeCount = 32 ∧ overriddenCount = 31 := by decide
example : edge .download .aborted .queued = true ∧ edge .download .aborted .paused = false ∧
    edge .upload .complete .failed = false ∧ edge .upload .initializing .downloading = false := by decide

end AioslskVerif.C03
