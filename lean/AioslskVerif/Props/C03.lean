import AioslskVerif.Proofs.Transfer
/-!
# C03 — transfer state changes always follow the documented state graph

Property theorems only (model: `Model/Transfer.lean`, generated table: `Generated/TransferTable.lean`,
frozen graph: `Spec/TransferGraph.lean`, helpers: `Proofs/Transfer.lean`).

The table theorems are re-checked against what `transfer/state.py` says *now* (the table is
regenerated before every build). The concurrent theorems are about the lock/dispatch wrapper **as
fixed by fixes/C03-dispatch-on-current-state.patch** (`Mode.current`): the method that runs once the
caller owns the lock is the one of the transfer's current state. For the wrapper of the pinned
commit (`Mode.captured`) the statement is false: `C03_pinned_dispatch_counterexample`.
-/
namespace AioslskVerif.C03
open AioslskVerif.Transfer AioslskVerif.Generated.Transfer AioslskVerif.Spec.Transfer

/-- **Sequential part.** Whatever a state class does in an overridden method ends in a transition
along a documented edge — and to the state the method is named after. -/
theorem C03_table_sound (d : Dir) (s : St) (m : Meth) (s' : St) (e : List Eff)
    (h : implStep d s m = some (s', e)) : edge d s s' = true ∧ s' = target d m := by
  have hc : (match implStep d s m with
      | some (t, _) => edge d s t && decide (t = target d m)
      | none => true) = true := by
    cases d <;> cases s <;> cases m <;> decide
  rw [h] at hc
  simpa using hc

/-- A request is accepted by a state class exactly when the documented graph has the edge from that
state to the request's target (the frozen graph is neither wider nor narrower than the code). -/
theorem C03_table_complete (d : Dir) (s : St) (m : Meth) :
    (implStep d s m).isSome = edge d s (target d m) := by
  cases d <;> cases s <;> cases m <;> decide

/-- the part of `C03_table_sound` the induction uses -/
theorem C03_table_edges : TableSound :=
  fun d s m t e h => (C03_table_sound d s m t e h).1

/-- **Refusal is pure.** When the state the wrapper dispatches on does not override the method, being
granted the lock changes nothing — not the state, no field (reasons, timestamps, local path, file,
tasks), no listener event, not the lock — except that `False` is returned to that caller. -/
theorem C03_refusal_pure (cfg : Cfg) (c : Call) (x : XState)
    (h : implStep cfg.dir (dispatchOn cfg x c) c.meth = none) :
    grant cfg c x = { x with trace := .ret c.id false :: x.trace } := by
  unfold grant
  rw [h]

/-- **Concurrent part, all op lists.** From any state, with any fields, for uploads and downloads,
whatever calls are created, started, overlap while a slow cancellation / file removal holds the
lock, and in whatever order the slow steps finish: every `(old, new)` pair a listener is given is
an edge of the documented graph. -/
theorem C03_concurrent (cfg : Cfg) (hm : cfg.mode = .current) (s : St) (f : Fields) (ops : List XOp) :
    ∀ p ∈ events (run cfg (init s f) ops), edge cfg.dir p.1 p.2 = true := by
  intro p hp
  have hinv := run_inv C03_table_edges cfg s hm ops _ (init_inv cfg s f)
  simp only [events, List.mem_filterMap, List.mem_reverse] at hp
  obtain ⟨it, hmem, hsome⟩ := hp
  cases it with
  | eff id e => simp at hsome
  | ret id ok => simp at hsome
  | trans id a b => simp at hsome
  | event id li a b =>
    simp only [Option.some.injEq] at hsome
    subst hsome
    exact hinv.events id li a b hmem

/-- **The state changes themselves, all op lists.** The assignments `self.state = …` the transfer made,
read from the state the run started in, form one walk along documented edges that ends in the
current state: each is an edge, and each starts where the previous one ended. -/
theorem C03_transitions_walk (cfg : Cfg) (hm : cfg.mode = .current) (s : St) (f : Fields)
    (ops : List XOp) :
    follows s (transitions (run cfg (init s f) ops)) = some (run cfg (init s f) ops).cur ∧
    ∀ p ∈ transitions (run cfg (init s f) ops), edge cfg.dir p.1 p.2 = true := by
  have hinv := run_inv C03_table_edges cfg s hm ops _ (init_inv cfg s f)
  refine ⟨?_, ?_⟩
  · rw [transitions_eq]; exact hinv.chain.follows
  · intro p hp
    simp only [transitions, List.mem_filterMap, List.mem_reverse] at hp
    obtain ⟨it, hmem, hsome⟩ := hp
    cases it with
    | eff id e => simp [Item.change] at hsome
    | ret id ok => simp [Item.change] at hsome
    | event id li a b => simp [Item.change] at hsome
    | trans id a b =>
      simp only [Item.change, Option.some.injEq] at hsome
      subst hsome
      exact hinv.transOk id a b hmem

/-- **Listeners observe exactly the edges taken, in order — every listener, all op lists.** With any
number of registered listeners, any of which may suspend for as long as the environment likes, and
whatever requests arrive meanwhile: the sequence of `(old, new)` pairs given to listener number `li`
is the sequence of state changes of the transfer — except while the lock holder is suspended inside
an *earlier* listener (`p.pos < li`) of the newest change, when listener `li` has been given all but
that newest change `(p.old, current state)` (it is next in line). In particular, whenever the lock is
free all listeners have been given the same sequence. (`Transfer.transition` reads `self.state` again
for every listener — model.py:236; the pair is right because the lock is held until the last listener
has returned.) -/
theorem C03_listeners_told_the_transitions (cfg : Cfg) (hm : cfg.mode = .current) (s : St)
    (f : Fields) (ops : List XOp) (li : Nat) (hli : li < cfg.listeners.length) :
    (told li (run cfg (init s f) ops) = transitions (run cfg (init s f) ops) ∨
      ∃ p, (run cfg (init s f) ops).holder = some p ∧ p.notified = true ∧ p.pos < li ∧
        told li (run cfg (init s f) ops) ++ [(p.old, (run cfg (init s f) ops).cur)]
          = transitions (run cfg (init s f) ops)) ∧
    ((run cfg (init s f) ops).holder = none →
      told li (run cfg (init s f) ops) = transitions (run cfg (init s f) ops)) := by
  have hinv := run_inv C03_table_edges cfg s hm ops _ (init_inv cfg s f)
  generalize run cfg (init s f) ops = x at hinv
  rw [told_eq, transitions_eq]
  refine ⟨?_, ?_⟩
  · cases hh : x.holder with
    | none => exact Or.inl (by rw [hinv.quiet_of_free hh li hli])
    | some p =>
      cases hn : p.notified with
      | false =>
        refine Or.inl ?_
        rw [hinv.quiet (by intro q hq; rw [hh] at hq; cases hq; exact hn) li hli]
      | true =>
        obtain ⟨_, _, hle, hgt⟩ := hinv.telling p hh hn
        by_cases hpos : li ≤ p.pos
        · exact Or.inl (by rw [hle li hpos])
        · refine Or.inr ⟨p, rfl, hn, by omega, ?_⟩
          rw [hgt li (by omega) hli, List.reverse_cons]
  · intro hh
    rw [hinv.quiet_of_free hh li hli]

/-- …hence what any one listener is given is itself a walk from the state the run started in: each
pair starts where the previous one ended (and each is an edge, `C03_concurrent`), and when the lock
is free the walk ends in the current state. -/
theorem C03_each_listener_walk (cfg : Cfg) (hm : cfg.mode = .current) (s : St) (f : Fields)
    (ops : List XOp) (li : Nat) (hli : li < cfg.listeners.length) :
    ∃ e, follows s (told li (run cfg (init s f) ops)) = some e ∧
      ((run cfg (init s f) ops).holder = none → e = (run cfg (init s f) ops).cur) := by
  obtain ⟨h1, h2⟩ := C03_listeners_told_the_transitions cfg hm s f ops li hli
  have hw := (C03_transitions_walk cfg hm s f ops).1
  generalize run cfg (init s f) ops = x at h1 h2 hw
  rcases h1 with h | ⟨p, hp, _, _, h⟩
  · exact ⟨x.cur, by rw [h]; exact hw, fun _ => rfl⟩
  · rw [← h, follows_append] at hw
    cases hf : follows s (told li x) with
    | none => rw [hf] at hw; simp at hw
    | some e => exact ⟨e, rfl, fun hh => by rw [hp] at hh; cases hh⟩

/-- …and the transition the suspended lock holder is about to make is an edge from the state the
transfer is in *now* (the invariant that makes the induction go through). -/
theorem C03_pending_is_edge (cfg : Cfg) (hm : cfg.mode = .current) (s : St) (f : Fields)
    (ops : List XOp) (p : Pending) (h : (run cfg (init s f) ops).holder = some p)
    (hn : p.notified = false) :
    edge cfg.dir (run cfg (init s f) ops).cur p.target = true :=
  (run_inv C03_table_edges cfg s hm ops _ (init_inv cfg s f)).pending p h hn

/-- **Refused ⇒ no effect, all op lists.** The trace of who-did-what is a sequence of blocks, each
either a lone `ret id false` or the effects of a single call followed by its one state change, the
listener events of that change and `ret id true` (`Shape`, `Proofs/Transfer.lean`); hence invocations never interleave under the lock, and a refused call has
done nothing: what precedes its `ret id false` in the trace is the return of an earlier call (or
the beginning), never an effect or an event. -/
theorem C03_refused_no_effect (cfg : Cfg) (hm : cfg.mode = .current) (s : St) (f : Fields)
    (ops : List XOp) :
    Shape (phaseOf (run cfg (init s f) ops).holder) (run cfg (init s f) ops).trace ∧
    ∀ pre id rest, (run cfg (init s f) ops).trace = pre ++ .ret id false :: rest →
      rest = [] ∨ ∃ id' ok rest', rest = .ret id' ok :: rest' := by
  have hinv := run_inv C03_table_edges cfg s hm ops _ (init_inv cfg s f)
  exact ⟨hinv.shape, hinv.shape.refusal_isolated⟩

/-- The wrapper of the pinned commit runs the method of the state object the caller looked up
*before* waiting for the lock. `DOWNLOADING`, a slow task cancellation, `abort` then `pause` while
abort holds the lock: listeners see `ABORTED → PAUSED`, which is not a documented edge. (Confirmed
on the real code; repaired by fixes/C03-dispatch-on-current-state.patch.) -/
theorem C03_pinned_dispatch_counterexample :
    let cfg : Cfg := { dir := .download, slowCancel := true, slowFs := false, mode := .captured }
    let x := run cfg (init .downloading { tasksLive := true, startTime := some 0 })
      [.call { id := 0, meth := .abort, reason := some 0 }, .call { id := 1, meth := .pause }, .resume]
    (St.aborted, St.paused) ∈ events x ∧ edge .download .aborted .paused = false := by
  decide

/-! Non-vacuity. -/

/-- two overlapping calls: abort is suspended in the slow cancellation, pause waits for the lock -/
example :
    let cfg : Cfg := { dir := .download, slowCancel := true, slowFs := false }
    let x := run cfg (init .downloading { tasksLive := true, startTime := some 0 })
      [.call { id := 0, meth := .abort, reason := some 0 }, .call { id := 1, meth := .pause }]
    x.cur = .downloading ∧ (x.holder.map (·.call.id)) = some 0 ∧ x.waiters.length = 1 := by decide

/-- …then the cancellation finishes: abort completes, the waiter is dispatched on `ABORTED` and
refused; the transfer is aborted, one event, returns `true` then `false`. -/
example :
    let cfg : Cfg := { dir := .download, slowCancel := true, slowFs := false }
    let x := run cfg (init .downloading { tasksLive := true, startTime := some 0 })
      [.call { id := 0, meth := .abort, reason := some 0 }, .call { id := 1, meth := .pause }, .resume]
    x.cur = .aborted ∧ events x = [(.downloading, .aborted)] ∧ x.holder = none ∧ x.waiters = [] ∧
      x.trace.head? = some (.ret 1 false) := by decide

/-- a suspended *listener* holds the lock after the state is already assigned. `FAILED`, two `queue()`
coroutines created first and scheduled together (as manager.py:586-589 does with `gather`): the second
is dispatched on `QUEUED` and refused — the pinned wrapper made `QUEUED → QUEUED` of it. -/
example :
    let cfg : Cfg := { dir := .upload, slowCancel := false, slowFs := false, listeners := [true] }
    let ops : List XOp := [.create { id := 0, meth := .queue }, .create { id := 1, meth := .queue },
                           .start 0, .start 1]
    let x := run cfg (init .failed { failReason := some 2 }) ops
    x.cur = .queued ∧ (x.holder.map (·.notified)) = some true ∧ x.waiters.length = 1 ∧
      events (run cfg x [.resume, .resume]) = [(.failed, .queued)] ∧
      events (run { cfg with mode := .captured } (init .failed { failReason := some 2 }) (ops ++ [.resume, .resume]))
        = [(.failed, .queued), (.queued, .queued)] := by decide

/-- three listeners (the manager's own, a journal that suspends, a monitor): `DOWNLOADING`, `abort` with
`queue` arriving while abort waits for the cancelled tasks. While abort is suspended in the journal the
monitor has not yet been told `DOWNLOADING → ABORTED` and `queue` still waits; once the journal has
returned twice all three have been told `DOWNLOADING → ABORTED, ABORTED → QUEUED` — never
`DOWNLOADING → QUEUED`. -/
example :
    let cfg : Cfg := { dir := .download, slowCancel := true, slowFs := false, listeners := [false, true, false] }
    let ops : List XOp := [.call { id := 0, meth := .abort, reason := some 1 }, .call { id := 1, meth := .queue },
                           .resume]
    let x := run cfg (init .downloading { tasksLive := true, startTime := some 0 }) ops
    x.cur = .aborted ∧ (x.holder.map (·.pos)) = some 1 ∧ x.waiters.length = 1 ∧
      told 0 x = [(.downloading, .aborted)] ∧ told 1 x = [(.downloading, .aborted)] ∧ told 2 x = [] ∧
      (let y := run cfg x [.resume, .resume]
       y.cur = .queued ∧ y.holder = none ∧ transitions y = [(.downloading, .aborted), (.aborted, .queued)] ∧
       told 0 y = transitions y ∧ told 1 y = transitions y ∧ told 2 y = transitions y ∧
       follows .downloading (told 2 y) = some .queued) := by decide

/-- the graph and the table are not trivial: 32 documented pairs, 31 overridden methods -/
example : edgeCount = 32 ∧ overriddenCount = 31 := by decide
example : edge .download .aborted .queued = true ∧ edge .download .aborted .paused = false ∧
    edge .upload .complete .failed = false ∧ edge .upload .initializing .downloading = false := by decide

end AioslskVerif.C03
