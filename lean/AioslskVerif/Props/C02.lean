import AioslskVerif.Proofs.Stream
import AioslskVerif.Spec.WireSpec
import AioslskVerif.Generated.Schemas
/-!
# C02 — hostile bytes never crash a reader or desynchronise the stream

Property theorems only. Models: `Model/Wire.lean` (decoders — total functions: every Lean
definition terminates, so "parsing terminates on every byte string" holds of the model by
construction; what is *proved* below is that the work is bounded by the input),
`Model/Stream.lean` (reader loop).
-/
namespace AioslskVerif.C02
open AioslskVerif.Wire AioslskVerif.Stream

/-- **Progress**: a successful parse never yields more bytes than it was given, and a type of
positive size consumes at least one byte. -/
theorem C02_decode_progress (t : Ty) (bs : Bytes) (v : Val) (r : Bytes) (h : dec t bs = .ok (v, r)) :
    r.length ≤ bs.length ∧ (t.pos = true → r.length < bs.length) :=
  dec_progress t bs v r h

/-- **Lying counts**: an array whose elements have positive size cannot be parsed with more
elements than there are bytes — the element loop of `array.deserialize` runs at most
`len(bytes)` successful iterations before it fails, whatever count the sender announced. -/
theorem C02_array_bounded (e : Ty) (n : Nat) (bs : Bytes) (vs : List Val) (r : Bytes)
    (hp : e.pos = true) (h : decList e n bs = .ok (vs, r)) : n + r.length ≤ bs.length :=
  (decList_progress e n bs vs r h).2 hp

theorem C02_lying_count_rejected (e : Ty) (n : Nat) (bs : Bytes) (hp : e.pos = true)
    (hn : bs.length < n) : ∃ err, decList e n bs = .error err := by
  cases h : decList e n bs with
  | error err => exact ⟨err, rfl⟩
  | ok p =>
    obtain ⟨vs, r⟩ := p
    have := C02_array_bounded e n bs vs r hp h
    omega

/-- every array in the schema table regenerated from the source has elements of positive size
(re-decided on every run; it is part of `tableWf`) -/
theorem C02_generated_arrays_bounded :
    Generated.Schemas.schemas.all (fun s => s.fields.all (fun f => f.ty.arrOk && f.ty.pos)) = true := by
  decide +kernel

/-- wire form of a list of frames on one connection: every frame with its own key when the
connection is obfuscated -/
def wire (obf : Bool) (frames : List (Bytes × Bytes)) : Bytes :=
  frames.flatMap (fun kb => wireFrame (if obf then some kb.1 else none) kb.2)

def GoodFrames (frames : List (Bytes × Bytes)) : Prop :=
  ∀ kb ∈ frames, kb.1.length = 4 ∧ kb.2.length < 4294967296

theorem readerAux_frames {μ : Type} (obf : Bool) (decode : Bytes → Option μ) :
    ∀ (frames : List (Bytes × Bytes)) (fuel : Nat), GoodFrames frames → frames.length < fuel →
    readerAux obf decode fuel (wire obf frames) =
      (frames.filterMap (fun kb => decode (le32 kb.2.length ++ kb.2))).map Event.deliver
        ++ [Event.closed Close.eof]
  | [], fuel + 1, _, _ => by simp [wire, readerAux]
  | [], 0, _, h => by simp at h
  | kb :: rest, 0, _, h => by simp at h
  | kb :: rest, fuel + 1, hg, hf => by
    have hkb := hg kb (by simp)
    have ih := readerAux_frames obf decode rest fuel (fun x hx => hg x (by simp [hx]))
      (by simp only [List.length_cons] at hf; omega)
    have hw : wire obf (kb :: rest) = wireFrame (if obf then some kb.1 else none) kb.2 ++ wire obf rest := by
      simp [wire]
    rw [hw, readerAux_frame obf decode fuel kb.1 kb.2 (wire obf rest) hkb.1 hkb.2, ih]
    simp only [List.filterMap_cons]
    cases decode (le32 kb.2.length ++ kb.2) <;> simp

theorem wireFrame_length (key : Option Bytes) (b : Bytes) : 4 ≤ (wireFrame key b).length := by
  cases key with
  | none => simp [wireFrame, le32]
  | some k => simp [wireFrame, Obfs.encode_eq, Obfs.encSpec_length, le32]; omega

theorem wire_length (obf : Bool) : ∀ frames, frames.length ≤ (wire obf frames).length
  | [] => by simp [wire]
  | kb :: rest => by
    have := wire_length obf rest
    have h4 := wireFrame_length (if obf then some kb.1 else none) kb.2
    have hw : wire obf (kb :: rest) = wireFrame (if obf then some kb.1 else none) kb.2 ++ wire obf rest := by
      simp [wire]
    rw [hw, List.length_append, List.length_cons]; omega

/-- **Framing and delivery**: on a stream of well-framed bodies (plain, or obfuscated with any key
per frame) followed by EOF, the reader delivers exactly the decodable frames, once each, in
order — a frame that does not decode is dropped and neither shifts, duplicates nor suppresses any
later frame — and then closes with EOF. -/
theorem C02_delivery {μ : Type} (obf : Bool) (decode : Bytes → Option μ) (frames : List (Bytes × Bytes))
    (hg : GoodFrames frames) :
    reader obf decode (wire obf frames) =
      (frames.filterMap (fun kb => decode (le32 kb.2.length ++ kb.2))).map Event.deliver
        ++ [Event.closed Close.eof] := by
  unfold reader
  exact readerAux_frames obf decode frames _ hg (by have := wire_length obf frames; omega)

/-- **A bad frame does not affect its neighbours**: inserting an undecodable frame anywhere in the
stream leaves the delivered sequence unchanged. -/
theorem C02_bad_frame_isolated {μ : Type} (obf : Bool) (decode : Bytes → Option μ)
    (pre post : List (Bytes × Bytes)) (bad : Bytes × Bytes)
    (hg : GoodFrames (pre ++ bad :: post)) (hbad : decode (le32 bad.2.length ++ bad.2) = none) :
    reader obf decode (wire obf (pre ++ bad :: post)) = reader obf decode (wire obf (pre ++ post)) := by
  have hg' : GoodFrames (pre ++ post) := fun x hx => hg x (by
    simp only [List.mem_append, List.mem_cons] at hx ⊢; rcases hx with h | h <;> simp [h])
  rw [C02_delivery obf decode _ hg, C02_delivery obf decode _ hg']
  simp [List.filterMap_append, hbad]

/-- **The loop only ends with the connection**: whatever the bytes (truncated header, truncated
body, lying length, garbage), the reader's run is a list of deliveries followed by exactly one
close event — it never stops while the connection stays open. -/
theorem C02_reader_exit {μ : Type} (obf : Bool) (decode : Bytes → Option μ) (s : Bytes) :
    ∃ (ms : List μ) (c : Close), reader obf decode s = ms.map Event.deliver ++ [Event.closed c] :=
  readerAux_exit obf decode _ s

/-- **A frame that never completes does not park the reader.** When the same bytes are followed by
silence instead of EOF (a truncated header, a body shorter than its header announces — a *lying
length* — or simply an idle connection), everything complete before that point is delivered exactly
as it would have been, and the run ends with the connection being closed by the read time-out:
the reader never waits for ever while the connection stays open. -/
theorem C02_silence_times_out {μ : Type} (obf : Bool) (decode : Bytes → Option μ) (s : Bytes) :
    ∃ (ms : List μ) (c : Close), reader obf decode s = ms.map Event.deliver ++ [Event.closed c] ∧
      readerSilent obf decode s = ms.map Event.deliver ++ [Event.closed .timeout] :=
  readerSilentAux_spec obf decode _ s

/-- **Segmentation**: the model reader is a function of the concatenated stream only. (That the
implementation is, too — `StreamReader.readexactly` — is what the correspondence checks.) -/
theorem C02_segmentation {μ : Type} (obf : Bool) (decode : Bytes → Option μ) (segs₁ segs₂ : List Bytes)
    (h : segs₁.flatten = segs₂.flatten) :
    reader obf decode segs₁.flatten = reader obf decode segs₂.flatten := by rw [h]

/-- **A bad first frame closes that connection only.** Whatever the accepted connection sends first
(nothing, a truncated frame, an undecodable or unexpected frame, an unknown pierce ticket), it is
either established or closed, and in both cases every *other* registered connection stays
registered; the connection itself stays registered iff it was established. -/
theorem C02_accept_isolated (obf : Bool) (decode : Bytes → Option InitKind) (tickets reg : List Nat)
    (c : Nat) (s : Bytes) (hc : c ∉ reg) :
    let out := acceptOutcome obf decode tickets s
    (∀ d, d ≠ c → (d ∈ acceptRegistry reg c out ↔ d ∈ reg)) ∧
    (c ∈ acceptRegistry reg c out ↔ out = .established) := by
  intro out
  cases hout : out with
  | established =>
    simp only [acceptRegistry]
    constructor
    · intro d hd; simp [hd]
    · simp
  | closed why =>
    simp only [acceptRegistry]
    constructor
    · intro d hd; simp [List.mem_filter, hd]
    · simp [List.mem_filter]

/-- an undecodable first frame is never established -/
theorem C02_accept_bad_frame_closed (obf : Bool) (decode : Bytes → Option InitKind) (tickets : List Nat)
    (s f : Bytes) (hf : firstRead obf s = .frame f) (hd : decode f = none) :
    acceptOutcome obf decode tickets s = .closed .readError := by
  simp [acceptOutcome, hf, hd]

/-! Non-vacuity -/
example : GoodFrames [([1, 2, 3, 4], [9, 9]), ([5, 6, 7, 8], [])] := by
  intro kb h; simp at h; rcases h with rfl | rfl <;> simp
example : reader false (fun b => if b.length = 6 then some b else none)
      (wire false [([], [9, 9]), ([], [1]), ([], [7, 7])])
    = [.deliver [2, 0, 0, 0, 9, 9], .deliver [2, 0, 0, 0, 7, 7], .closed .eof] := by decide
example : reader false (fun b => some b) [1, 0, 0] = [.closed .readError] := by decide
example : reader false (fun b => some b) [5, 0, 0, 0] = [.closed .eof] := by decide
-- a header announcing 1 MiB followed by 3 bytes and silence: the complete frame before it is delivered, then time-out
example : readerSilent false (fun b => some b) [1, 0, 0, 0, 7, 0, 0, 16, 0, 1, 2, 3]
    = [.deliver [1, 0, 0, 0, 7], .closed .timeout] := by decide

end AioslskVerif.C02
